#!/venv/bin/python
"""Regenerates /verif/MANIFEST.json from the table below (python3 tools/mkmanifest.py)."""
import json
import os
import subprocess

HOME = os.path.dirname(os.path.dirname(os.path.abspath(__file__)))

TRUST = ("CPython, numpy/pandas/xarray/scikit-learn semantics, the harness' reference model "
         "(no typhon imports), the sys.monitoring / audit-hook / strace event streams where used. "
         "Decides only the executions that were produced; reports 'held on K executions', never 'verified'.")

CHECKS = {
    "C01": ("exploration", "4 C01",
            "runtime monitoring: brute-force file-population model vs FileSet.find/in/len on generated trees; metamorphic layout comparison; passive IntervalTree monitor",
            "Thousands of generated (template, population, query, option) executions of the real find() are compared file-for-file with a registry-based model; the same population is laid out under 3-5 directory layouts and in a zip archive and must answer alike. Right level: the space is unbounded, an oracle over many hostile executions is what tests cannot give."),
    "C03": ("exploration", "4 C03",
            "runtime monitoring: O(n*m) closed-interval oracle on every IntervalTree query (direct workload + passive wrapper inside FileSet.match/is_excluded); match() vs file-population model",
            "Every query/query_points/in answer of the real tree on hostile interval sets (all sets of <=2 intervals over {0..3} exhaustively, thousands random) equals brute force; FileSet.match on generated fileset pairs equals the model."),
}

CHECKS["C02"] = ("exploration", "4 C02",
    "runtime monitoring: independent template renderer/expectation model vs get_filename/parse_filename/get_info round trips, negative names, stub-handler merge",
    "Tens of thousands of generated (template, period, attributes) round trips through the real FileSet, compared with an independent model of the template language; mismatching names must raise ValueError, placeholder errors must be the dedicated ones.")
CHECKS["C16"] = ("exploration", "4 C16",
    "runtime monitoring: the statement's covering/nearest rule evaluated over the harness' registry vs find_closest / fileset[t] on generated trees",
    "Thousands of lookups (inside a file, in gaps, on boundaries, ties, empty neighbourhoods, excluded exact names, filters) on generated populations compared with the rule of the statement.")

CHECKS["C12"] = ("fault_enumeration", "4 C12",
    "runtime monitoring with fault enumeration: audit-hook fs trace + sys.monitoring line failpoints + body exceptions + corrupt archives; directory snapshots, byte comparison, stdlib archive readers",
    "For every golden scenario (format x content x name x tmpdir x pre-existing target) every recorded file-system event and every executed line of compress/compress_as/decompress is used once as a fault site; after each run the harness-owned temp locations must be empty and the target untouched where the statement says so. Right level: the fault space of one scenario is finite and is enumerated; scenarios are sampled.")

CHECKS["C15"] = ("fault_enumeration", "4 C15",
    "runtime monitoring with crash enumeration: audit-hook faults, sys.monitoring line failpoints, write()-proxy faults and real SIGKILLs injected by strace at every syscall touching the cache/backup file; fresh-interpreter reload; corruption sweep",
    "Every file-system event, executed line and k-th write() of save_cache is used as an in-process fault site, and every openat/write/close/rename syscall on the cache/backup path as a real kill point (strace inject); after each the cache file must be the old or the complete new document and load in a fresh FileSet / interpreter. The strace log of an uninjected save is checked for close-before-rename ordering.")

CHECKS["C10"] = ("exploration", "4 C10",
    "runtime monitoring: client-boundary event histories (unique id per file) under a controlled task scheduler (file gates + controller thread, depth-first enumeration of completion orders), offline checkers (exactly-once, order, pairing, in-flight bound, exception propagation) plus sys.monitoring probes on FileSet.imap / FileSet.align",
    "Every completion order that the pool window allows is enumerated for 4-6 files (thread and process pools, map and imap; observed = predicted by the window model is reported), larger and fault configurations are sampled; each history is checked offline, the imap queue bound and the align cache invariant are also probed online.")
CHECKS["C17"] = ("exploration", "4 C17",
    "runtime monitoring: longdouble n-form/m-form reference and residuals of the defining identities with condition-number scaled tolerances; icontract postconditions on the real functions",
    "Thousands of generated (K, S_a, S_y) triples incl. n=m, rank-deficient and zero Jacobians, widely scaled SPD covariances (kappa <= 1e6); every identity, ordering, eigenvalue and limit clause is evaluated on the real functions' outputs.")
CHECKS["C18"] = ("exploration", "4 C18",
    "runtime monitoring: class wrapper on BMCI.weights comparing every window with the chi-square of every entry; predict/cdf/quantiles vs importance-weighted sums over the whole database in longdouble; permutation metamorphic relation",
    "Hundreds of databases x observations (inside, edge, far outside -> NaN regime) x x2_max x permutations; window soundness decided exactly, estimates within derived weight-perturbation bounds.")
CHECKS["C19"] = ("exploration", "4 C19",
    "runtime monitoring: pinball-loss closed form, exhaustive minimiser search over sample points with exact Fraction order-statistic test, shape acceptance/rejection, mape/bias relations; icontract postconditions on quantile_score",
    "Thousands of samples with ties/heavy tails, all shape forms and tau vectors; minimiser clause decided exhaustively for n <= 1000.")

CHECKS["C04"] = ("exploration", "4 C04",
    "runtime monitoring: brute-force longdouble oracle over all n*m pairs (ids carried in the data) vs Collocator.collocate under hostile point sets, tuning parameters, unit spellings, windows, numpy RNG seeds and call histories on one Collocator; C13 structure post-condition on every result",
    "Thousands of calls incl. threshold-straddling clusters, |dt| exactly at max_interval, first-first-only pairs, NaNs, poles/date line, grids, >1e6-candidate binned path and stale-index histories; each result compared pair-for-pair with the oracle (don't-care band 1e-9 relative around the distance threshold).")
CHECKS["C07"] = ("exploration", "4 C07",
    "runtime monitoring: longdouble closed-form oracle + icontract postconditions on the real geodesy functions (internal calls observed), relational driver for round trips / routes / metric axioms",
    "Millions of points over all six ellipsoids, heights -10..1000 km, |lat| <= 88, all argument shapes; tolerances are the statement's 1 cm / 1e-7 deg plus derived float64 bounds.")
CHECKS["C08"] = ("exploration", "4 C08",
    "runtime monitoring: expm1/log1p longdouble reference with forward-error bounds, icontract postconditions on em functions, relational driver for inverses/Jacobians/Snell/Fresnel identities",
    "Millions of (f, T) pairs with h f / k T in [1e-6, 600], multi-dimensional spectra, real and complex refractive indices.")

CHECKS["C13"] = ("exploration", "4 C13",
    "runtime monitoring: explicit-loop longdouble oracle for expand / collapse / concat on harness-built compact datasets and real collocate() results; structural post-condition (valid indices, every point used) on every compact dataset produced anywhere",
    "Hundreds of compact datasets (one-to-many / many-to-one, shuffled pairs, channels, NaNs, >= 1000 pairs fallback path, both references, custom collapser) and lists of 1-5 datasets for concat.")

CHECKS["C05"] = ("exploration", "4 C05",
    "runtime monitoring: brute-force oracle over the union of all points vs everything yielded / written by collocate_filesets under process counts, bundle modes, output kinds, file splits, read delays, slow consumer and injected parent-loop delays (sys.monitoring); conservation monitor inside the forked workers (pairs found == pairs flushed); mechanism classifier for the open output-name-collision finding",
    "Dozens of fileset pairs x ~5 runs each with 1-4 worker processes; id pairs carried in the data are compared as multisets with the oracle; written files are checked for name = time span and read back.")
CHECKS["C09"] = ("exploration", "4 C09",
    "runtime monitoring: the real converters executed on fractions.Fraction arguments (exact identities), longdouble Murphy-Koop / IFS-blend oracle with derived bounds, nextafter grids around both branch temperatures, icontract postconditions",
    "180 000 exact rational identities and millions of float evaluations per quick run; container forms float / 0-d / arrays.")
CHECKS["C14"] = ("exploration", "4 C14",
    "runtime monitoring: exact rational integral of the piecewise-linear interpolant vs integrate_column (any rank/axis/layout), relational checks, convergence ratios of both IWV forms on refined grids, analytic brackets for pressure2height, ISA table cross-check; icontract postconditions",
    "Hundreds of thousands of lanes, all ranks 1-4 and axes, 2..1e4 levels; convergence must shrink >= 3.5x per doubling.")

CHECKS["C11"] = ("exploration", "4 C11",
    "runtime monitoring: path->content model checked against os.walk + read-back of every file after every step of generated write/move/copy/convert/delete histories; audit-hook write-set confinement; NetCDF4/CSV default-handler round trips in child processes",
    "Hundreds of histories of 5-40 steps over filesets whose templates change layout, end-field style and compression suffix; selections by period, file list and filters.")

CHECKS["C06"] = ("exploration", "4 C06",
    "runtime monitoring: dense longdouble distance-matrix oracle vs GeoIndex.query for both metrics, tree classes, leaf sizes, unit spellings; numpy.random.shuffle replaced by harness-chosen permutations - all n! permutations enumerated for <= 6 build points, sampled beyond",
    "~85 000 queries per quick run incl. the full permutation sweep of 528 small build sets (the shuffle is the schedule of this randomised structure); pair sets, index translation and the km distance column are compared with one oracle answer per family.")
CHECKS["C20"] = ("exploration", "4 C20",
    "runtime monitoring: SRTM30.get_tile replaced by synthetic tiles addressed by global row/column (no network/data), exact rational grid oracle for lat/lon vectors, cell-by-cell mosaic comparison, independent tile table; real get_tile cache histories with download_tile replaced by a counter",
    "Thousands of rectangles (aligned/unaligned, thinner than a cell, 1-4 tiles, tile borders, +-180) and cache histories; every mosaic cell compared with the one tile pixel centred there.")

NOT_YET = {}


# monitors added after the seeded rounds (DESIGN.md sections 3.7, 3.8 and "Additions after the seeded rounds")
_EXTRA = {
    "C01": "; object / population histories (path reassigned, re-configured copy, shared filter dictionary, files arriving between queries, time_coverage re-assigned, date-like stray directories)",
    "C02": "; object histories (placeholders set late, re-configured copy, time_coverage re-assigned after a look-up), explicit template= checks, short partial ends",
    "C03": "; concurrent-call monitor on one tree; build buffer refilled after construction; all-covering partner files",
    "C04": "; call histories on one Collocator (in-place updated inputs, grid reuse), threads option, inputs-unchanged monitor, thresholds above one day and of zero, failed-build-then-retry history",
    "C05": "; forced rare classes (fixed grid, midnight-crossing files, pre-binned file pairs), makedirs rendezvous of two workers, period end on a file start, unreadable non-last primary",
    "C06": "; call-history monitor on query, build arrays refilled after construction, MemoryError failpoint in the radius search",
    "C07": "; call-history monitor on every function (un-armed originals), inputs-unchanged monitor, keyword-call relation, concurrent-call monitor with statement-level yield injection",
    "C08": "; call-history and concurrent-call monitors on every function, inputs-unchanged monitor, keyword-call relation",
    "C09": "; buffer-reuse call histories on every function, million-element arrays against piecewise evaluation, keyword spelling of rejected calls",
    "C10": "; two filesets with different handlers in use at once; files= as list/tuple/generator/iterator/empty; compressed fileset with an unreadable member, same base names under an own temp_dir",
    "C11": "; harness-side configuration record, failing-writer conservation step, single-file moves, per-call read arguments, symlinked members, target on another file system, shared filters dictionary",
    "C12": "; explicit tmpdir on another file system, names that are symbolic links",
    "C13": "; view-returning collapser with an order-free oracle, inputs-unchanged monitor, per-part variables without the collocation dimension, pre-binned real results",
    "C14": "; call-history monitor, independent saturation model at the regime boundaries, first use of a fresh interpreter from 32 threads under per-statement delay injection",
    "C15": "; re-save / reload histories on live objects, C-locale restarts, surrogate paths, bare relative cache names",
    "C16": "; object / population histories (re-configured copy, date-like stray directories), handler-provided coverage, fixed name-order and direct-hit scenarios",
    "C17": "; call histories (in-place updated inputs, held results, float32 first), closed-form high-SNR class, integer-dtype inputs against float64, invalid-inputs-first process history, keyword-call relation",
    "C18": "; call histories against a newly built twin object",
    "C19": "; call-history monitor, memory layouts, mixed-precision and narrow-integer inputs",
    "C20": "; real download path against a faked urlopen with broken transfers, concurrent get_tile, second get_grids after caller-side changes, cache on another file system",
}
for _k, _v in _EXTRA.items():
    _c = CHECKS[_k]
    CHECKS[_k] = (_c[0], _c[1], _c[2] + _v) + tuple(_c[3:])

def main():
    props = [json.loads(l) for l in open(os.path.join(HOME, "properties.jsonl"))]
    checks, na = [], []
    for p in props:
        pid = p["id"]
        if pid in CHECKS and os.path.exists(os.path.join(HOME, "vt", "props", pid.lower() + ".py")):
            level, ref, tech, text = CHECKS[pid]
            checks.append({
                "property_id": pid,
                "quick_cmd": "./check %s --tier quick" % pid,
                "thorough_cmd": "./check %s --tier thorough" % pid,
                "evidence_file": "evidence/%s.json" % pid,
                "replay_cmd_template": "./check %s --replay {path}" % pid,
                "engine": "vt",
                "level_claimed": {"category": level, "text": text, "design_ref": "DESIGN.md section " + ref},
                "level_note": TRUST,
                "technique": tech,
            })
        else:
            na.append({"property_id": pid,
                       "reason": NOT_YET.get(pid, "check not built yet in this session (design in DESIGN.md section 4); not claimed until its monitor exists and is silent on the unchanged tree")})
    try:
        hooks = subprocess.run(["git", "-C", "/repo", "log", "--format=%h %s"], capture_output=True,
                               text=True).stdout.splitlines()
        hook_commits = [l.split()[0] for l in hooks if l.split(None, 1)[1].startswith("verif-hook:")]
    except Exception:
        hook_commits = []
    man = {
        "version": 1,
        "setup_cmd": "/venv/bin/pip install -q --no-index --find-links /opt/veriftools/wheels --target /verif/.deps icontract deal",
        "hooks": {
            "guard": "TYPHON_VERIF",
            "enable": "./check exports TYPHON_VERIF=1 and imports typhon from /repo's working tree (PYTHONPATH, no build step, no byte-code cache); all instrumentation is applied from outside (wrappers, sys.monitoring, audit hooks, strace)",
            "baseline_off_cmd": "cd /repo && env -u TYPHON_VERIF /venv/bin/python -m pytest -ra -q -p no:cacheprovider --timeout=900 --continue-on-collection-errors",
            "source_commits": hook_commits,
            "add_only": True,
        },
        "engines": [{"name": "vt", "path": "vt/", "serves_properties": [c["property_id"] for c in checks],
                     "kind_free_text": "runtime monitoring harness: seeded hostile workload generators, monitors (call wrappers, icontract contracts, sys.monitoring probes/failpoints, audit-hook file-system traces, controlled task scheduler, strace kill injection) and typhon-free reference models"}],
        "checks": checks,
        "not_applicable": na,
        "notes": "All checks: ./check <ID> --tier quick|thorough, honour VERIF_SEED; exit 0 held / 1 VIOLATION / 2 INCONCLUSIVE. known_findings.json lists fixed and open defects.",
    }
    with open(os.path.join(HOME, "MANIFEST.json"), "w") as fh:
        json.dump(man, fh, indent=1)
    print("checks:", [c["property_id"] for c in checks], "n/a:", len(na))


if __name__ == "__main__":
    main()
