#!/venv/bin/python
"""Self-test: apply each mutant patch to a scratch copy of /repo/typhon (outside /repo and /verif),
run the unchanged quick check against it (VT_TYPHON_ROOT) and expect exit 1 + a VIOLATION line.

  selftest/run_mutants.py [ID ...] [--jobs N] [--tier quick]      patches: selftest/mutants/<ID>-<name>.diff
  also runs seeded/<name>/patch.diff when meta.json names the property.
Evidence/replays of these runs go to the scratch directory, never to /verif/evidence.
"""
import glob
import json
import os
import shutil
import subprocess
import sys
import tempfile
from concurrent.futures import ThreadPoolExecutor

HOME = os.path.dirname(os.path.dirname(os.path.abspath(__file__)))


def run_one(prop, patch, tier):
    scratch = tempfile.mkdtemp(prefix="vt-mut-")
    try:
        subprocess.run(["rsync", "-a", "--exclude", "__pycache__", "/repo/typhon", scratch + "/"],
                       check=True)
        r = subprocess.run(["patch", "-p1", "-s", "-d", scratch, "-i", patch], capture_output=True,
                           text=True)
        if r.returncode != 0:
            return prop, patch, "PATCH-FAILED", r.stdout[-300:] + r.stderr[-300:]
        env = dict(os.environ, VT_TYPHON_ROOT=scratch, VT_EVIDENCE_DIR=scratch + "/ev",
                   VT_REPLAY_DIR=scratch + "/rp", VT_JOBS=os.environ.get("VT_MUT_JOBS", "4"))
        r = subprocess.run([HOME + "/check", prop, "--tier", tier], capture_output=True, text=True,
                           env=env, cwd=HOME)
        caught = r.returncode == 1 and "VIOLATION property=" + prop in r.stdout
        first = [l for l in r.stdout.splitlines() if "mechanism=" in l][:1]
        return prop, patch, "CAUGHT" if caught else "MISSED(exit %d)" % r.returncode, \
            (first[0][:200] if first else r.stdout[-300:])
    finally:
        shutil.rmtree(scratch, ignore_errors=True)


def main():
    args = [a for a in sys.argv[1:] if not a.startswith("--")]
    tier = "quick"
    jobs = 4
    for a in sys.argv[1:]:
        if a.startswith("--tier="):
            tier = a.split("=")[1]
        if a.startswith("--jobs="):
            jobs = int(a.split("=")[1])
    todo = []
    for p in sorted(glob.glob(HOME + "/selftest/mutants/*.diff")):
        prop = os.path.basename(p).split("-")[0]
        if not args or prop in args:
            todo.append((prop, p))
    for m in sorted(glob.glob(HOME + "/seeded/*/meta.json")):
        meta = json.load(open(m))
        prop = meta.get("property")
        p = os.path.join(os.path.dirname(m), "patch.diff")
        if os.path.exists(p) and (not args or prop in args):
            todo.append((prop, p))
    with ThreadPoolExecutor(jobs) as ex:
        res = list(ex.map(lambda t: run_one(t[0], t[1], tier), todo))
    missed = 0
    for prop, patch, verdict, info in res:
        print("%-4s %-60s %s  %s" % (prop, os.path.relpath(patch, HOME), verdict, info.replace("\n", " ")[:160]))
        missed += verdict != "CAUGHT"
    print("%d mutants, %d not caught" % (len(res), missed))
    return 1 if missed else 0


if __name__ == "__main__":
    sys.exit(main())
