#!/venv/bin/python
"""intake_seed.py PROP I NAME  - verify a seeded change delivered in /tmp/seed/PROP-out/ and keep it.

Confirms, in a fresh scratch worktree of /repo (outside /repo and /verif, removed afterwards):
  1. patchI.diff applies to the current /repo HEAD,
  2. the repository's own suite still reports the same passing tests with the patch,
  3. demoI.py exits 0 on the clean tree and non-zero on the patched tree.
Then copies patch, demo and notes to /verif/seeded/PROP-NAME/ and writes meta.json.
"""
import json
import os
import re
import shutil
import subprocess
import sys
import tempfile

HOME = os.path.dirname(os.path.dirname(os.path.abspath(__file__)))
PYTEST = ["/venv/bin/python", "-m", "pytest", "-q", "-p", "no:cacheprovider", "--timeout=900",
          "--continue-on-collection-errors"]


def passed_set(root):
    env = dict(os.environ, PYTHONPATH=root, PYTHONDONTWRITEBYTECODE="1")
    env.pop("TYPHON_VERIF", None)
    r = subprocess.run(PYTEST + ["-rA"], cwd=root, env=env, capture_output=True, text=True)
    ok = set(re.findall(r"^PASSED (\S+)", r.stdout, re.M))
    tail = r.stdout.strip().splitlines()[-1] if r.stdout.strip() else ""
    return ok, tail


def demo(root, path):
    env = dict(os.environ, PYTHONPATH=root, PYTHONDONTWRITEBYTECODE="1", TYPHON_ROOT=root)
    try:
        r = subprocess.run(["/venv/bin/python", path, root], env=env, capture_output=True, text=True,
                           timeout=300, cwd=tempfile.gettempdir())
    except subprocess.TimeoutExpired:
        return 124, "timeout"
    return r.returncode, (r.stdout + r.stderr)[-400:]


def main():
    prop, i, name = sys.argv[1:4]
    src = os.environ.get("SEED_DIR", "/tmp/seed") + "/%s-out" % prop
    patch = "%s/patch%s.diff" % (src, i)
    dem = "%s/demo%s.py" % (src, i)
    notes = "%s/notes%s.md" % (src, i)
    wt = tempfile.mkdtemp(prefix="vt-intake-")
    os.rmdir(wt)
    subprocess.run(["git", "-C", "/repo", "worktree", "add", "-q", "--detach", wt, "HEAD"], check=True)
    report = {"property": prop, "name": name}
    try:
        base_ok, base_tail = passed_set(wt)
        rc0, out0 = demo(wt, dem)
        r = subprocess.run(["git", "-C", wt, "apply", patch], capture_output=True, text=True)
        if r.returncode != 0:
            print("PATCH DOES NOT APPLY:", r.stderr[-300:])
            return 1
        ok, tail = passed_set(wt)
        rc1, out1 = demo(wt, dem)
        report.update({"baseline_summary": base_tail, "patched_summary": tail,
                       "tests_lost": sorted(base_ok - ok), "demo_clean_exit": rc0,
                       "demo_patched_exit": rc1, "demo_patched_output": out1})
        good = not (base_ok - ok) and rc0 == 0 and rc1 != 0 and rc1 != 124
        print(json.dumps(report, indent=1)[:1500])
        if not good:
            print("NOT CONFIRMED")
            return 1
        dst = os.path.join(HOME, "seeded", "%s-%s" % (prop, name))
        os.makedirs(dst, exist_ok=True)
        shutil.copy(patch, dst + "/patch.diff")
        shutil.copy(dem, dst + "/demo.py")
        if os.path.exists(notes):
            shutil.copy(notes, dst + "/notes.md")
        meta = {"property": prop, "name": name,
                "origin": "independent sub-agent given only the property text and its own worktree",
                "needs_to_manifest": "see notes.md",
                "confirmed": {"applies_to": subprocess.run(["git", "-C", "/repo", "rev-parse", "--short", "HEAD"],
                                                           capture_output=True, text=True).stdout.strip(),
                              "repo_suite_with_patch": tail, "tests_lost": [],
                              "demo_exit_clean": rc0, "demo_exit_patched": rc1,
                              "ran": "selftest/intake_seed.py %s %s %s" % (prop, i, name)}}
        with open(dst + "/meta.json", "w") as fh:
            json.dump(meta, fh, indent=1)
        print("KEPT", dst)
        return 0
    finally:
        subprocess.run(["git", "-C", "/repo", "worktree", "remove", "--force", wt])


if __name__ == "__main__":
    sys.exit(main())
