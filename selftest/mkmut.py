#!/venv/bin/python
"""mkmut.py ID-name path 'old text' 'new text'  -> selftest/mutants/ID-name.diff (against /repo's tree)."""
import difflib
import os
import sys

HOME = os.path.dirname(os.path.dirname(os.path.abspath(__file__)))


def make(name, path, old, new, count=1):
    src = open(os.path.join("/repo", path)).read()
    assert src.count(old) >= 1, "old text not found in %s for %s" % (path, name)
    if count == 1:
        assert src.count(old) == 1, "old text not unique in %s for %s (%d)" % (path, name, src.count(old))
    dst = src.replace(old, new)
    diff = "".join(difflib.unified_diff(src.splitlines(True), dst.splitlines(True),
                                        "a/" + path, "b/" + path))
    out = os.path.join(HOME, "selftest", "mutants", name + ".diff")
    with open(out, "w") as fh:
        fh.write(diff)
    return out


if __name__ == "__main__":
    print(make(*sys.argv[1:5]))
