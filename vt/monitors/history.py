"""Call-history monitor for functions that the statements describe as plain functions of their
arguments: the answer for given values must not depend on what was computed before with the same
argument *objects*, nor on what the caller did to an earlier result.

History driven (domain-agnostic: the in-place update is a reversal along the first axis, so every
value stays in the function's domain):

    r1 = f(bufs)                      bufs are caller-owned copies of the arguments
    reverse every array argument in place
    r2 = f(bufs)                      same objects, new contents
    scale r1 in place                 the caller post-processes the first result
    r3 = f(bufs)
    fresh = f(copies of bufs)         a first call as far as the function can tell

Oracle: r2 == fresh and r3 == fresh, bit for bit (NaN == NaN), and r1 - unless it is a view of an
argument - still holds after the second call what it held when it was returned. Exceptions are not judged here (the
single-call checks of each module do that): the history is abandoned and counted as not applicable.
"""
import numpy as np


def _leaves(r):
    if isinstance(r, (tuple, list)):
        out = []
        for x in r:
            out.extend(_leaves(x))
        return out
    return [r]


def _snapshot(r):
    return [np.array(x, copy=True) for x in _leaves(r)]


def _same(a, b):
    if len(a) != len(b):
        return False
    for x, y in zip(a, b):
        if x.shape != y.shape:
            return False
        if x.dtype.kind in "fc" or y.dtype.kind in "fc":
            if not np.array_equal(x, y, equal_nan=True):
                return False
        elif not np.array_equal(x, y):
            return False
    return True


def _aliases(r, bufs):
    """A result that is (a view of) an argument legitimately changes with the argument."""
    for x in _leaves(r):
        if isinstance(x, np.ndarray):
            for b in bufs:
                if isinstance(b, np.ndarray) and np.shares_memory(x, b):
                    return True
    return False


def reuse_check(fn, args, kwargs=None, fresh_fn=None):
    """Returns ("n/a", None) when the history cannot be driven, ("ok", None) when consistent, or
    ("stale", detail).  fresh_fn: the same method bound to a newly built twin object (for methods whose
    object could itself carry the stale state); default fn."""
    kwargs = kwargs or {}
    fresh_fn = fresh_fn or fn
    bufs, arrays = [], []
    for a in args:
        if isinstance(a, np.ndarray) and a.ndim >= 1 and a.shape[0] >= 2 and a.dtype.kind in "fiuc":
            b = np.array(a, copy=True, order="K")
            bufs.append(b)
            arrays.append(b)
        else:
            bufs.append(a)
    if not arrays:
        return "n/a", None
    try:
        with np.errstate(all="ignore"):
            r1 = fn(*bufs, **kwargs)
            s1 = _snapshot(r1)
            changed = False
            for b in arrays:
                rev = b[::-1].copy()
                if not np.array_equal(rev, b, equal_nan=True):
                    changed = True
                b[...] = rev
            if not changed:
                return "n/a", None
            r2 = _snapshot(fn(*bufs, **kwargs))
            r1_later = _snapshot(r1)
            for x in _leaves(r1):
                if isinstance(x, np.ndarray) and x.flags.writeable and x.dtype.kind in "fc" and x.size:
                    x *= 3.0
            r3 = _snapshot(fn(*bufs, **kwargs))
            fresh = _snapshot(fresh_fn(*[b.copy(order="K") if isinstance(b, np.ndarray) else b for b in bufs], **kwargs))
    except Exception:
        return "n/a", None
    if not _same(r1_later, s1) and not _aliases(r1, bufs):
        return "stale", {"history": "the result of the first call changed when the function was called again",
                         "n_results": len(s1)}
    if not _same(r2, fresh):
        return "stale", {"history": "second call with the same argument objects after an in-place update",
                         "n_results": len(fresh)}
    if not _same(r3, fresh):
        return "stale", {"history": "call after the caller scaled the first result in place",
                         "n_results": len(fresh)}
    return "ok", None


def keyword_check(fn, args, kwargs=None, out=None):
    """Calling-convention relation: the same call with every positional argument given by its documented
    parameter name, in the opposite order.  -> ("n/a" | "ok" | "differs" | "raises", detail)

    `out` is the answer of the positional call (taken before; bitwise comparison, NaN == NaN)."""
    import inspect
    kwargs = dict(kwargs or {})
    try:
        params = list(inspect.signature(fn).parameters.values())
    except (TypeError, ValueError):
        return "n/a", None
    if len(args) == 0 or len(params) < len(args) or any(
            p.kind is not inspect.Parameter.POSITIONAL_OR_KEYWORD for p in params[:len(args)]):
        return "n/a", None
    kw = {}
    for p, a in reversed(list(zip(params, args))):
        kw[p.name] = a
    for k in reversed(list(kwargs)):
        kw[k] = kwargs[k]
    try:
        with np.errstate(all="ignore"):
            out2 = fn(**kw)
    except Exception as exc:
        return "raises", {"keywords": list(kw), "exception": repr(exc)}
    if not _same(_snapshot(out), _snapshot(out2)):
        return "differs", {"keywords": list(kw)}
    return "ok", None
