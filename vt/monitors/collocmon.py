"""Structural invariant of compact collocation datasets (property C13, first sentence):
Collocations/pairs holds valid indices into the stored primary and secondary points and every
stored point takes part in at least one pair.  Used as a post-condition wherever a compact
dataset is produced (collocate, concat_collocations, files read back)."""
import numpy as np


def structure_violation(ds):
    try:
        pairs = np.asarray(ds["Collocations/pairs"].values)
        groups = [str(g) for g in ds["Collocations/group"].values.tolist()]
    except Exception as exc:
        return {"why": "not a compact collocation dataset", "exception": repr(exc)}
    if pairs.ndim != 2 or pairs.shape[0] != 2 or len(groups) != 2:
        return {"why": "pairs is not a 2 x N array", "shape": list(pairs.shape)}
    if pairs.shape[1] == 0:
        return {"why": "collocation dataset without pairs"}
    if not np.issubdtype(pairs.dtype, np.integer):
        return {"why": "pairs are not integers", "dtype": str(pairs.dtype)}
    for k, g in enumerate(groups):
        dim = g + "/collocation"
        if dim not in ds.sizes:
            return {"why": "group dimension missing", "dim": dim}
        n = ds.sizes[dim]
        row = pairs[k]
        if row.min() < 0 or row.max() >= n:
            return {"why": "pair index out of range", "group": g, "min": int(row.min()),
                    "max": int(row.max()), "stored_points": int(n)}
        used = np.unique(row).size
        if used != n:
            return {"why": "a stored point takes part in no pair", "group": g, "stored_points": int(n),
                    "used": int(used)}
    for name in ("Collocations/interval", "Collocations/distance"):
        if name in ds.variables and ds[name].size != pairs.shape[1]:
            return {"why": name + " has another length than pairs"}
    return None
