"""sys.monitoring (PEP 669) LINE probes on chosen code objects.

* LineProbe(codes, callback): callback(code, line, frame) at every statement start of the given
  code objects only (set_local_events) - read-only state probes ("invariant at a hook").
* Failpoint(code, line, nth, exc): raise exc when `line` of `code` starts executing for the nth
  time - source-free, line-granular fault injection.
Only one tool id is used; probes are context managers and restore everything on exit.
"""
import sys

TOOL = 3  # sys.monitoring.PROFILER_ID .. any free id
_mon = sys.monitoring


class LineProbe:
    def __init__(self, codes, callback):
        self.codes = list(codes)
        self.callback = callback
        self.hits = 0

    def _cb(self, code, line):
        if code in self._set:
            self.hits += 1
            frame = sys._getframe(1)
            return self.callback(code, line, frame)
        return _mon.DISABLE

    def __enter__(self):
        self._set = set(self.codes)
        try:
            _mon.use_tool_id(TOOL, "vt-lineprobe")
        except ValueError:
            _mon.free_tool_id(TOOL)
            _mon.use_tool_id(TOOL, "vt-lineprobe")
        _mon.register_callback(TOOL, _mon.events.LINE, self._cb)
        for c in self.codes:
            _mon.set_local_events(TOOL, c, _mon.events.LINE)
        return self

    def __exit__(self, *exc):
        for c in self.codes:
            try:
                _mon.set_local_events(TOOL, c, 0)
            except Exception:
                pass
        _mon.register_callback(TOOL, _mon.events.LINE, None)
        try:
            _mon.free_tool_id(TOOL)
        except Exception:
            pass
        return False


class LineRecorder(LineProbe):
    """Records the sequence of (code name, line) executed."""

    def __init__(self, codes):
        self.trace = []
        super().__init__(codes, self._rec)

    def _rec(self, code, line, frame):
        self.trace.append((code.co_name, line))


class Failpoint(LineProbe):
    def __init__(self, codes, name, line, nth, exc):
        self.name, self.line, self.nth, self.exc = name, line, nth, exc
        self.seen = 0
        self.fired = False
        super().__init__(codes, self._fp)

    def _fp(self, code, line, frame):
        if code.co_name == self.name and line == self.line and not self.fired:
            self.seen += 1
            if self.seen == self.nth:
                self.fired = True
                raise self.exc


def code_of(func):
    """The code object that actually runs (unwraps functools.wraps / contextmanager)."""
    f = func
    while hasattr(f, "__wrapped__"):
        f = f.__wrapped__
    return f.__code__
