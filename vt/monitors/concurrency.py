"""Concurrent-call monitor: the same calls answered one after the other (reference) and then from
several threads at once, with the interpreter's switch interval at its minimum so that the threads
really interleave (numpy additionally releases the GIL inside its loops).

Oracle: every concurrent answer equals the sequential answer for the same arguments, bit for bit
(NaN == NaN). An exception during the concurrent phase (none occurred sequentially) is reported too.
What it can show: shared scratch state (module-level work arrays, instance attributes used as
accumulators, class-level buffers). It cannot force a particular interleaving; the evidence counts
the calls made, and a silent run says "no interference observed in N overlapping calls".
"""
import sys
import threading
import time

import numpy as np

from vt.monitors.history import _snapshot, _same


def concurrent_check(calls, threads=4, rounds=3, yield_in=None):
    """calls: list of (fn, args, kwargs).  -> ("n/a" | "ok" | "race", detail)

    yield_in: file name of the module under test; the worker threads then give up the interpreter at
    every statement of that file (a line tracer calling time.sleep(0)), so that the threads interleave
    between any two statements of the functions - legitimate switch points of CPython threads."""
    if len(calls) < 2:
        return "n/a", None
    try:
        with np.errstate(all="ignore"):
            ref = [_snapshot(fn(*a, **k)) for fn, a, k in calls]
    except Exception:
        return "n/a", None
    results = [[None] * len(calls) for _ in range(rounds)]
    errors = []
    start = threading.Barrier(threads)

    def tracer(frame, event, arg):
        if frame.f_code.co_filename != yield_in:
            return None
        if event == "line":
            time.sleep(0)
        return tracer

    def worker(t):
        if yield_in:
            sys.settrace(tracer)
        try:
            start.wait(timeout=5)
        except Exception:
            pass
        for r in range(rounds):
            # every thread walks through all calls, each starting somewhere else
            for j in range(len(calls)):
                i = (j + t * max(1, len(calls) // threads)) % len(calls)
                if i % threads != t and r == 0:
                    pass
                fn, a, k = calls[i]
                try:
                    with np.errstate(all="ignore"):
                        out = _snapshot(fn(*a, **k))
                except Exception as exc:      # pragma: no cover - only on a faulty tree
                    errors.append((i, repr(exc)))
                    continue
                if not _same(out, ref[i]):
                    errors.append((i, "answer differs from the sequential one"))
                results[r][i] = True
    old = sys.getswitchinterval()
    sys.setswitchinterval(1e-6)
    try:
        ths = [threading.Thread(target=worker, args=(t,), daemon=True) for t in range(threads)]
        for th in ths:
            th.start()
        for th in ths:
            th.join(timeout=120)
        if any(th.is_alive() for th in ths):
            return "n/a", {"why": "threads did not finish"}
    finally:
        sys.setswitchinterval(old)
    if errors:
        i, what = errors[0]
        return "race", {"call": i, "what": what, "n_bad": len(errors),
                        "n_concurrent_calls": threads * rounds * len(calls)}
    return "ok", {"n_concurrent_calls": threads * rounds * len(calls)}
