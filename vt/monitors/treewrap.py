"""Passive monitor on typhon.trees.IntervalTree: every query made by anybody (FileSet.match,
FileSet.is_excluded, the workloads) is compared with the brute-force closed-interval answer."""
import numpy as np

_state = {}


def install(rec, prefix="treemon"):
    from typhon.trees import IntervalTree
    if _state:
        return
    orig_init = IntervalTree.__init__
    orig_query = IntervalTree.query
    orig_points = IntervalTree.query_points
    orig_contains = IntervalTree.__contains__
    _state.update(cls=IntervalTree, init=orig_init, query=orig_query, points=orig_points,
                  contains=orig_contains)

    def init(self, intervals):
        arr = np.asarray(intervals)
        self._vt_intervals = [(a, b) for a, b in arr.tolist()] if arr.ndim == 2 else None
        orig_init(self, intervals)

    def _brute(self, q):
        return sorted(i for i, (a, b) in enumerate(self._vt_intervals)
                      if a <= q[1] and b >= q[0])

    def query(self, intervals):
        intervals = list(intervals) if not isinstance(intervals, np.ndarray) else intervals
        res = orig_query(self, intervals)
        if getattr(self, "_vt_intervals", None) is not None:
            rec.count(prefix + ".query.calls")
            for q, r in zip(intervals, res):
                want = _brute(self, q)
                rec.count(prefix + ".query.intervals")
                if sorted(int(x) for x in r) != want:
                    rec.violation("tree-wrong-answer",
                                  {"kind": "tree-passive", "intervals": self._vt_intervals[:50],
                                   "query": list(q)},
                                  {"where": "passive query", "got": sorted(int(x) for x in r),
                                   "want": want})
        return res

    def contains(self, item):
        res = orig_contains(self, item)
        if getattr(self, "_vt_intervals", None) is not None:
            rec.count(prefix + ".contains.calls")
            if isinstance(item, (tuple, list)):
                want = bool(_brute(self, item))
            else:
                want = any(a <= item <= b for a, b in self._vt_intervals)
            if bool(res) != want:
                rec.violation("tree-wrong-answer",
                              {"kind": "tree-passive", "intervals": self._vt_intervals[:50],
                               "item": item},
                              {"where": "passive in", "got": bool(res), "want": want})
        return res

    IntervalTree.__init__ = init
    IntervalTree.query = query
    IntervalTree.__contains__ = contains


def uninstall():
    if not _state:
        return
    cls = _state["cls"]
    cls.__init__ = _state["init"]
    cls.query = _state["query"]
    cls.query_points = _state["points"]
    cls.__contains__ = _state["contains"]
    _state.clear()
