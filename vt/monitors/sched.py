"""Controlled scheduler for typhon's thread/process pools.

The only places where the pools run user code are the harness-supplied function and file
reader.  Those call `gate(tid)`: announce start -> wait for a permit file -> (work) ->
announce done.  A controller thread in the harness process decides which started task may
finish next, following a *choice sequence*; choice sequences are enumerated depth first
(stateless re-execution) or sampled.  Everything goes through files in one directory, so it
works alike for threads and for forked worker processes; events are O_APPEND JSON lines with
one system-wide monotonic clock.
"""
import json
import os
import threading
import time

ENV = "VT_GATE_DIR"
POLL = 0.0005


def _dir():
    return os.environ.get(ENV)


def current_dir():
    return _dir()


def log_event(kind, tid=None, d=None, **extra):
    d = d or _dir()
    if not d or not os.path.isdir(d):
        return  # a straggler of an execution whose directory is gone: drop
    rec = {"t": time.monotonic_ns(), "k": kind, "id": tid, "pid": os.getpid(),
           "th": threading.get_ident()}
    rec.update(extra)
    try:
        fd = os.open(os.path.join(d, "events.log"), os.O_WRONLY | os.O_APPEND | os.O_CREAT, 0o644)
    except OSError:
        return
    try:
        os.write(fd, (json.dumps(rec) + "\n").encode())
    finally:
        os.close(fd)


def gate(tid, timeout=60.0, d=None):
    """Called inside a worker: returns when the controller permits this task."""
    d = d or _dir()
    if not d or not os.path.isdir(d):
        return
    log_event("start", tid, d=d)
    if os.path.exists(os.path.join(d, "free")):
        return
    p = os.path.join(d, "permit.%s" % tid)
    t0 = time.monotonic()
    while not os.path.exists(p):
        if os.path.exists(os.path.join(d, "free")) or not os.path.isdir(d):
            return
        if time.monotonic() - t0 > timeout:
            log_event("gate-timeout", tid, d=d)
            return
        time.sleep(POLL)


def done(tid, d=None, **extra):
    log_event("done", tid, d=d, **extra)


def read_events(d):
    out = []
    p = os.path.join(d, "events.log")
    if not os.path.exists(p):
        return out
    with open(p) as fh:
        for line in fh:
            line = line.strip()
            if line:
                try:
                    out.append(json.loads(line))
                except ValueError:
                    pass
    return out


class Controller(threading.Thread):
    """Permits one started task at a time, chosen by `choices` (list of indices into the
    sorted set of started-but-unpermitted task ids; missing entries = 0)."""

    def __init__(self, d, choices=None, expected=None, quiet_ms=40, rng=None):
        super().__init__(daemon=True)
        self.d = d
        self.choices = list(choices or [])
        self.expected = expected  # callable(n_done) -> how many started tasks to wait for (fast path)
        self.quiet = quiet_ms / 1000.0
        self.rng = rng
        self.stop_flag = threading.Event()
        self.branching = []
        self.taken = []
        self.order = []
        self.pos = 0
        self._size = 0
        self.error = None

    def _scan(self):
        """Incrementally parse the event log."""
        p = os.path.join(self.d, "events.log")
        try:
            with open(p) as fh:
                fh.seek(self._size)
                data = fh.read()
        except FileNotFoundError:
            return []
        if not data.endswith("\n"):
            data = data[:data.rfind("\n") + 1] if "\n" in data else ""
        self._size += len(data.encode())
        return [json.loads(x) for x in data.splitlines() if x.strip()]

    def run(self):
        try:
            self._run()
        except BaseException as exc:  # never leave gated tasks waiting for a dead controller
            import traceback
            self.error = traceback.format_exc()
            try:
                open(os.path.join(self.d, "free"), "w").close()
            except OSError:
                pass

    def _run(self):
        started, finished, permitted = [], set(), set()
        last_change = time.monotonic()
        waiting_for = None
        while not self.stop_flag.is_set():
            new = self._scan()
            for ev in new:
                if ev["k"] == "start" and ev["id"] not in started:
                    started.append(ev["id"])
                    last_change = time.monotonic()
                elif ev["k"] == "done":
                    finished.add(ev["id"])
                    last_change = time.monotonic()
            if waiting_for is not None:
                if waiting_for in finished:
                    waiting_for = None
                    last_change = time.monotonic()
                else:
                    time.sleep(POLL)
                    continue
            ready = sorted(t for t in started if t not in permitted)
            if not ready:
                time.sleep(POLL)
                continue
            want = self.expected(finished) if self.expected else None
            quiet = time.monotonic() - last_change
            if not ((want is not None and want > 0 and len(ready) >= want and quiet > 0.002)
                    or quiet > self.quiet):
                time.sleep(POLL)
                continue
            if self.pos < len(self.choices):
                c = self.choices[self.pos]
            elif self.rng is not None:
                c = self.rng.randrange(len(ready))
            else:
                c = 0
            c = min(c, len(ready) - 1)
            self.branching.append(len(ready))
            self.taken.append(c)
            self.pos += 1
            tid = ready[c]
            permitted.add(tid)
            self.order.append(tid)
            open(os.path.join(self.d, "permit.%s" % tid), "w").close()
            waiting_for = tid

    def stop(self):
        self.stop_flag.set()
        # let anything still gated run free
        try:
            open(os.path.join(self.d, "free"), "w").close()
        except OSError:
            pass


def next_prefix(taken, branching):
    """Odometer step of the depth-first enumeration; None when exhausted."""
    i = len(taken) - 1
    while i >= 0:
        if taken[i] + 1 < branching[i]:
            return taken[:i] + [taken[i] + 1]
        i -= 1
    return None
