"""File-system effect trace via sys.addaudithook, with optional source-free fault injection.

One hook per process (audit hooks cannot be removed); `Trace` objects switch it on and off.
Only events whose first path argument lies under one of the trace's roots are recorded.
"""
import os
import sys
import threading

EVENTS = {
    "open": "open", "os.remove": "remove", "os.rename": "rename", "os.mkdir": "mkdir",
    "os.rmdir": "rmdir", "shutil.move": "move", "shutil.copyfile": "copyfile",
    "shutil.rmtree": "rmtree", "tempfile.mkstemp": "mkstemp", "tempfile.mkdtemp": "mkdtemp",
    "os.truncate": "truncate", "os.link": "link", "os.symlink": "symlink",
    "shutil.copymode": None, "shutil.copystat": None,
}


class InjectedFault(Exception):
    """Raised by the harness inside typhon's I/O; never a typhon exception."""


_active = []
_lock = threading.Lock()
_installed = False


def _hook(event, args):
    if not _active or event not in EVENTS or EVENTS[event] is None:
        return
    try:
        path = args[0]
        if isinstance(path, int):
            return
        path = os.fsdecode(path) if isinstance(path, (bytes, os.PathLike)) and not isinstance(path, str) else path
        if not isinstance(path, str):
            return
    except Exception:
        return
    for tr in list(_active):
        tr._event(EVENTS[event], path, args)


def install():
    global _installed
    if not _installed:
        sys.addaudithook(_hook)
        _installed = True


class Trace:
    def __init__(self, roots, fault_at=None, fault_filter=None):
        """fault_at: 0-based index among events accepted by fault_filter(kind, path, args)
        at which InjectedFault is raised (before the operation takes place)."""
        self.roots = [os.path.abspath(r) for r in roots]
        self.events = []
        self.fault_at = fault_at
        self.fault_filter = fault_filter or (lambda kind, path, args: True)
        self.fault_seen = 0
        self.fired = None
        self.paused = False  # set by the harness around its own file operations
        self.thread = threading.get_ident()

    def _event(self, kind, path, args):
        if self.paused:
            return
        ap = os.path.abspath(path)
        if not any(ap == r or ap.startswith(r + os.sep) for r in self.roots):
            return
        mode = None
        if kind == "open":
            mode = args[1]
            flags = args[2] if len(args) > 2 else 0
            if mode is None:
                mode = "w" if flags & (os.O_WRONLY | os.O_RDWR | os.O_CREAT) else "r"
        second = None
        if kind in ("rename", "move", "copyfile", "link", "symlink") and len(args) > 1:
            try:
                second = os.path.abspath(os.fsdecode(args[1]))
            except Exception:
                second = None
        ev = (kind, ap, mode, second)
        self.events.append(ev)
        if self.fault_at is not None and self.fired is None and \
                self.fault_filter(kind, ap, args):
            if self.fault_seen == self.fault_at:
                self.fired = ev
                raise InjectedFault("injected at fs event #%d %s %s" % (self.fault_at, kind, ap))
            self.fault_seen += 1

    def __enter__(self):
        install()
        with _lock:
            _active.append(self)
        return self

    def __exit__(self, *exc):
        with _lock:
            if self in _active:
                _active.remove(self)
        return False

    # -- offline checkers ---------------------------------------------------
    def written(self):
        """Paths opened for writing, removed, renamed (source and target), created."""
        out = set()
        for kind, p, mode, second in self.events:
            if kind == "open":
                if mode and any(c in mode for c in "wxa+"):
                    out.add(p)
            elif kind in ("remove", "mkdir", "rmdir", "rmtree", "mkstemp", "mkdtemp", "truncate"):
                out.add(p)
            elif kind in ("rename", "move", "copyfile", "link", "symlink"):
                if kind in ("rename", "move"):
                    out.add(p)
                if second:
                    out.add(second)
        return out

    def temporaries(self):
        created, removed = [], set()
        for kind, p, mode, second in self.events:
            if kind in ("mkstemp", "mkdtemp"):
                created.append(p)
            elif kind in ("remove", "rmdir", "rmtree"):
                removed.add(p)
        return created, removed


def snapshot(root):
    """Sorted listing (relative path, size or 'd') of everything under root."""
    out = []
    for d, dirs, files in os.walk(root):
        rel = os.path.relpath(d, root)
        if rel != ".":
            out.append((rel, "d"))
        for f in files:
            p = os.path.join(d, f)
            try:
                out.append((os.path.normpath(os.path.join(rel, f)), os.path.getsize(p)))
            except OSError:
                out.append((os.path.normpath(os.path.join(rel, f)), -1))
    return sorted(out)
