"""C13 - compact collocation data stay consistent under expand, collapse and concat.

Clauses and where decided
  * pairs hold valid indices, every stored point takes part in a pair   vt.monitors.collocmon
    (post-condition on every Collocator.collocate / concat_collocations result, here and in C04/C05)
  * expand(): one row per pair with exactly the primary and secondary values of that pair  check_expand
  * collapse(): one row per distinct reference point (primary by default or the named reference);
    <var>_mean/_std/_number = NaN-ignoring mean / std / count over the partners, any extra
    dimensionality; custom collapser functions                                   check_collapse
  * expand(concat(a, b, ...)) == concat(expand(a), expand(b), ...)               check_concat
Inputs: results of the real Collocator.collocate (C04 generator) and harness-built compact
datasets (one-to-many / many-to-one, unsorted pair order, channels, NaNs, >= 1000 pairs).
"""
import traceback
import warnings

import numpy as np

from vt.core import rng_for
from vt.monitors import collocmon

ID = "C13"
LEVEL = "exploration"
RULE = ("compact datasets: harness-built (1-5000 pairs, one-to-many / many-to-one / random multiplicities, "
        "shuffled pair order, channel dimension, NaNs incl. all-NaN partner sets, either group as reference, "
        ">= 1000 pairs for the fallback row-assignment path, custom collapsers) and real collocate() results; "
        "lists of 1-5 datasets for concat. non-trivial = some reference point has >= 2 partners and the pair "
        "order is not sorted; distinct by (operation, pattern, options | dataset seed)")
ASSUMPTIONS = [
    "oracle: explicit Python loops over the pair list, accumulation in numpy.longdouble; mean/std compared "
    "with absolute tolerance 64*n*eps*max|x| (two-pass algorithms)",
    "numba is not installed: collapse() with >= 1000 pairs takes the documented pure-Python fallback",
    "concat_collocations shifts Collocations/pairs of its inputs in place; expansions of the inputs are "
    "computed before it is called (recorded as an observation, not demanded otherwise)",
]
MIN_NONTRIVIAL = {"quick": 200, "thorough": 3000}
REQUIRED_COUNTERS = {"expand.calls": 150, "collapse.calls": 150, "concat.calls": 50,
                     "collapse.fallback_path": 3, "real.collocate_inputs": 20}
SHARD_TIMEOUT = {"quick": 900, "thorough": 7200}

LD = np.longdouble


def shards(tier, seed):
    n = 25 if tier == "quick" else 2500
    return [{"kind": "compact", "seed": seed, "shard": i, "n": n} for i in range(16)]


# ---------------------------------------------------------------------------
def build_compact(spec):
    """Harness-built compact dataset following the layout produced by Collocator.collocate."""
    import xarray as xr
    rng = np.random.default_rng(spec["seed"])
    nA, nB, extra = spec["nA"], spec["nB"], spec["extra"]
    pat = spec["pattern"]
    pa = list(range(nA))
    pb = [int(rng.integers(0, nB)) for _ in range(nA)]
    # make sure every B point is used
    for j in range(nB):
        if j not in pb:
            pa.append(int(rng.integers(0, nA)))
            pb.append(j)
    for _ in range(extra):
        if pat == "one-to-many":
            a = int(rng.integers(0, max(1, nA // 4)))
            b = int(rng.integers(0, nB))
        elif pat == "many-to-one":
            a = int(rng.integers(0, nA))
            b = int(rng.integers(0, max(1, nB // 4)))
        else:
            a, b = int(rng.integers(0, nA)), int(rng.integers(0, nB))
        pa.append(a)
        pb.append(b)
    pairs = np.array([pa, pb], dtype=int)
    # drop duplicate pairs, keep all points used
    _, first = np.unique(pairs.T, axis=0, return_index=True)
    pairs = pairs[:, np.sort(first)]
    if spec["shuffle"]:
        pairs = pairs[:, rng.permutation(pairs.shape[1])]
    else:
        pairs = pairs[:, np.lexsort((pairs[1], pairs[0]))]
    n = pairs.shape[1]
    A, B = spec["names"]
    nch = spec["channels"]

    def group(name, m, base):
        val = rng.normal(size=(m, nch)) * rng.choice([1.0, 1e5]) + base
        temp = rng.normal(size=m) * 10 + 250
        nanfrac = spec["nan"]
        if nanfrac:
            val[rng.random(val.shape) < nanfrac] = np.nan
            temp[rng.random(m) < nanfrac] = np.nan
            if m > 2:
                temp[:2] = np.nan  # whole partner sets may be NaN
        if spec.get("inf") and m >= 2:
            # infinite values are values: they count and they enter the statistics
            temp[rng.integers(0, m, max(1, m // 6))] = rng.choice([np.inf, -np.inf])
        d = {
            name + "/time": ((name + "/collocation",),
                             (np.datetime64("2018-01-01", "ns") +
                              rng.integers(0, 10 ** 6, m).astype("timedelta64[s]"))),
            name + "/lat": ((name + "/collocation",), rng.uniform(-80, 80, m)),
            name + "/lon": ((name + "/collocation",), rng.uniform(-180, 180, m)),
            name + "/id": ((name + "/collocation",), np.arange(m) + base),
            name + "/temp": ((name + "/collocation",), temp),
            name + "/__index": ((name + "/collocation",), np.arange(m)),
        }
        if spec["chan_first"]:
            d[name + "/val"] = ((name + "/channel", name + "/collocation"), val.T)
        else:
            d[name + "/val"] = ((name + "/collocation", name + "/channel"), val)
        d[name + "/scalar_attr"] = ((), float(base))
        if spec.get("per_part"):
            # variables that do not depend on the collocation dimension and differ from part to part (the
            # per-file name that the file-set search adds before bundling, a per-file channel table)
            d[name + "/__file"] = ((), "%s_%d.h5" % (name, spec["seed"] % 10007))
            d[name + "/freq"] = ((name + "/channel",), 89.0 + np.arange(nch) * 10.0 + spec["seed"] % 7)
        if spec.get("cube"):
            # two extra dimensions, the collocation dimension last / in the middle
            u, v = spec["cube"]
            cube = rng.normal(size=(u, v, m)) + base
            d[name + "/cube"] = ((name + "/u", name + "/v", name + "/collocation"), cube)
            d[name + "/mid"] = ((name + "/u", name + "/collocation", name + "/v"),
                                rng.normal(size=(u, m, v)) - base)
        return d
    data = {}
    data.update(group(A, nA, 1000))
    data.update(group(B, nB, 5000))
    data["Collocations/pairs"] = (("Collocations/group", "Collocations/collocation"), pairs)
    data["Collocations/interval"] = (("Collocations/collocation",),
                                     rng.integers(0, 300, n).astype("timedelta64[s]"))
    data["Collocations/distance"] = (("Collocations/collocation",), rng.uniform(0, 5, n))
    ds = xr.Dataset(data, coords={"Collocations/group": [A, B]},
                    attrs={"start_time": "2018-01-01 00:00:00", "end_time": "2018-01-12 00:00:00"})
    return ds


def gen_spec(rng):
    big = rng.random() < 0.08
    nA = rng.choice([1, 2, 3, 5, 12, 40]) if not big else rng.choice([300, 900])
    nB = rng.choice([1, 2, 3, 5, 12, 40, 90]) if not big else rng.choice([500, 1500])
    return {"kind": "compact", "seed": rng.randrange(2 ** 31), "nA": nA, "nB": nB,
            "extra": rng.choice([0, 1, 5, 30]) if not big else rng.choice([800, 3000]),
            "pattern": rng.choice(["one-to-many", "many-to-one", "random"]),
            "shuffle": rng.random() < 0.7, "channels": rng.choice([1, 2, 5]),
            "nan": rng.choice([0, 0, 0.2, 0.6]), "chan_first": rng.random() < 0.3,
            "cube": rng.choice([None, None, [2, 2], [2, 3], [3, 1]]), "inf": rng.random() < 0.25,
            # incl. group names of which one is a prefix of the other
            "names": rng.choice([["primary", "secondary"], ["MHS", "AVHRR"], ["A", "B"],
                                 ["MHS", "MHS_N18"], ["SAT2", "SAT"]])}


def same(a, b):
    a, b = np.asarray(a), np.asarray(b)
    if a.shape != b.shape:
        return False
    if a.dtype.kind in "fc" or b.dtype.kind in "fc":
        return bool(np.array_equal(a.astype(float), b.astype(float), equal_nan=True))
    return bool(np.array_equal(a, b))


def group_vars(ds, g):
    return [v for v in ds.variables if str(v).startswith(g + "/") and v != "Collocations/group"]


def move_first(da, dim):
    dims = [dim] + [d for d in da.dims if d != dim]
    return da.transpose(*dims)


def oracle_expand(ds):
    """dict var -> array with the pair dimension first."""
    pairs = ds["Collocations/pairs"].values
    groups = [str(g) for g in ds["Collocations/group"].values.tolist()]
    out = {}
    for k, g in enumerate(groups):
        dim = g + "/collocation"
        for v in group_vars(ds, g):
            da = ds[v]
            if dim in da.dims:
                out[v] = move_first(da, dim).values[pairs[k]]
            else:
                out[v] = da.values
    for v in ("Collocations/interval", "Collocations/distance"):
        if v in ds.variables:
            out[v] = ds[v].values
    return out


def snapshot(ds):
    return {str(v): ds[v].values.copy() for v in ds.variables}


def unchanged(rec, ds, before, case, what):
    for v, arr in before.items():
        now = ds[v].values if v in ds.variables else None
        ok = now is not None and now.shape == arr.shape and (
            np.array_equal(now, arr, equal_nan=True) if arr.dtype.kind in "fc" else np.array_equal(now, arr))
        if not ok:
            rec.violation("input-mutated", case, {"by": what, "variable": v})
            return False
    rec.count("inputs_unchanged." + what)
    return True


def check_expand(rec, ds, case, expanded=None):
    from typhon.collocations import expand
    rec.ev()
    rec.count("expand.calls")
    want = oracle_expand(ds)
    before = snapshot(ds) if expanded is None else None
    n = ds["Collocations/pairs"].shape[1]
    try:
        ex = expand(ds) if expanded is None else expanded
    except Exception as exc:
        rec.violation("expand-exception", case, {"exception": repr(exc),
                                                 "trace": traceback.format_exc()[-1200:]})
        return None
    if before is not None and not unchanged(rec, ds, before, case, "expand"):
        return ex
    if ex.sizes.get("collocation") != n:
        rec.violation("expand-wrong", case, {"why": "not one row per pair",
                                             "rows": ex.sizes.get("collocation"), "pairs": int(n)})
        return ex
    for v, w in want.items():
        if v not in ex.variables:
            rec.violation("expand-wrong", case, {"why": "variable missing after expand", "var": v})
            return ex
        da = ex[v]
        got = move_first(da, "collocation").values if "collocation" in da.dims else da.values
        if not same(got, w):
            bad = None
            if np.asarray(got).shape == np.asarray(w).shape and np.asarray(w).ndim:
                g2 = np.asarray(got).reshape(len(w), -1).astype(float, copy=False) \
                    if np.asarray(got).dtype.kind != "M" else None
            rec.violation("expand-wrong", case, {"why": "row values are not those of the pair", "var": v,
                                                 "got": np.asarray(got).ravel()[:6],
                                                 "want": np.asarray(w).ravel()[:6]})
            return ex
    return ex


def check_collapse(rec, ds, case, reference=None, collapser_name=None):
    from typhon.collocations import collapse
    rec.ev()
    rec.count("collapse.calls")
    pairs = ds["Collocations/pairs"].values
    groups = [str(g) for g in ds["Collocations/group"].values.tolist()]
    ref = groups[0] if reference is None else reference
    ri = groups.index(ref)
    other = groups[1 - ri]
    rp, op = pairs[ri], pairs[1 - ri]
    if pairs.shape[1] >= 1000:
        rec.count("collapse.fallback_path")
    custom = None
    if collapser_name == "max":
        custom = {"max": lambda m, a: np.nanmax(m, axis=a)}
    elif collapser_name == "mean=median":
        # a user function under a default name replaces that default - for this call only
        custom = {"mean": lambda m, a: np.nanmedian(m, axis=a)}
    elif collapser_name == "first-view":
        # a user function that hands back a view of the matrix it was given (no copy)
        custom = {"first": lambda m, a: m[(slice(None),) * a + (0,)]}
    sub = dict(case, reference=reference, collapser=collapser_name)
    before = snapshot(ds)
    try:
        with warnings.catch_warnings():
            warnings.simplefilter("ignore")
            col = collapse(ds, reference=reference, collapser=custom)
        if not unchanged(rec, ds, before, sub, "collapse"):
            return
    except Exception as exc:
        rec.violation("collapse-exception", sub, {"exception": repr(exc),
                                                  "trace": traceback.format_exc()[-1200:]})
        return
    nref = ds.sizes[ref + "/collocation"]
    if col.sizes.get("collocation") != nref:
        rec.violation("collapse-wrong", sub, {"why": "not one row per distinct reference point",
                                              "rows": col.sizes.get("collocation"), "want": int(nref)})
        return
    # reference values are carried over row by row
    for v in group_vars(ds, ref):
        local = v.split("/", 1)[1]
        name = local if local in ("time", "lat", "lon") else v
        if name not in col.variables:
            rec.violation("collapse-wrong", sub, {"why": "reference variable missing", "var": v})
            return
        da = ds[v]
        w = move_first(da, ref + "/collocation").values if ref + "/collocation" in da.dims else da.values
        g = col[name]
        got = move_first(g, "collocation").values if "collocation" in g.dims else g.values
        if not same(got, w):
            rec.violation("collapse-wrong", sub, {"why": "reference values changed", "var": v})
            return
    partners = [[] for _ in range(nref)]
    for a, b in zip(rp, op):
        partners[int(a)].append(int(b))
    for v in group_vars(ds, other):
        local = v.split("/", 1)[1]
        da = ds[v]
        if other + "/collocation" not in da.dims:
            continue
        if local in ("time", "lat", "lon") or local.startswith("__"):
            continue
        x = move_first(da, other + "/collocation").values.astype(LD)
        tail = x.shape[1:]
        mean = np.full((nref,) + tail, np.nan, dtype=LD)
        std = np.full((nref,) + tail, np.nan, dtype=LD)
        num = np.zeros((nref,) + tail, dtype=int)
        mx = np.full((nref,) + tail, np.nan, dtype=LD)
        for j in range(nref):
            rows = x[partners[j]]
            ok = ~np.isnan(rows)
            cnt = ok.sum(axis=0)
            num[j] = cnt
            ssum = np.where(ok, rows, 0).sum(axis=0)
            with np.errstate(all="ignore"):
                m = np.where(cnt > 0, ssum / np.maximum(cnt, 1), np.nan)
                dev = np.where(ok, rows - m, 0)
                sd = np.where(cnt > 0, np.sqrt((dev * dev).sum(axis=0) / np.maximum(cnt, 1)), np.nan)
                mean[j], std[j] = m, sd
                mx[j] = np.where(cnt > 0, np.where(ok, rows, -np.inf).max(axis=0), np.nan)
        scale = float(np.nanmax(np.abs(x))) if np.isfinite(x).any() else 1.0
        tol = 64 * max(2, pairs.shape[1]) * 2.3e-16 * (scale + 1.0)
        checks = [("mean", mean, tol), ("std", std, tol), ("number", num, 0)]
        if collapser_name == "max":
            checks.append(("max", mx, 0))
        elif collapser_name == "mean=median":
            med = np.full((nref,) + tail, np.nan, dtype=LD)
            for j in range(nref):
                rows = np.asarray(x[partners[j]], dtype=float)
                with warnings.catch_warnings():
                    warnings.simplefilter("ignore")
                    med[j] = np.nanmedian(rows, axis=0) if rows.size else np.nan
            checks[0] = ("mean", med, tol)
        if collapser_name == "first-view":
            # whichever partner an implementation puts first: every entry of <var>_first is the value of
            # one partner of that reference point in THIS variable (or the NaN padding of a short row)
            name = "%s_first" % v
            if name not in col.variables:
                rec.violation("collapse-wrong", sub, {"why": "statistic missing", "var": name})
                return
            got = move_first(col[name], "collocation").values
            if got.shape != (nref,) + tail:
                rec.violation("collapse-wrong", sub, {"why": "statistic has another shape", "var": name,
                                                      "got": list(got.shape), "want": [nref] + list(tail)})
                return
            for j in range(nref):
                rows = np.asarray(x[partners[j]], dtype=float)
                g = np.asarray(got[j], dtype=float)
                ok_el = np.isnan(g) | (rows == g).any(axis=0) if rows.size else np.isnan(g)
                if not np.all(ok_el):
                    rec.violation("collapse-wrong", sub,
                                  {"why": "value of a custom collapser that returns a view of its matrix is "
                                          "not a partner value of this variable", "var": name, "row": j,
                                   "got": np.ravel(g)[:3].tolist(),
                                   "partner_values": np.ravel(rows)[:6].tolist()})
                    return
            rec.count("collapse.view_collapser_vars")
        # no statistic other than the requested ones may appear (e.g. left over from an earlier call)
        allowed = {"%s_%s" % (v, fn) for fn, _, _ in checks} | (
            {"%s_first" % v} if collapser_name == "first-view" else set())
        stray = [str(n) for n in col.variables if str(n).startswith(v + "_") and str(n) not in allowed
                 and str(n)[len(v) + 1:] in ("max", "min", "median", "sum", "mean", "std", "number")]
        if stray:
            rec.violation("collapse-wrong", sub, {"why": "unrequested statistic in the result",
                                                  "vars": stray[:4]})
            return
        for fn, w, t in checks:
            name = "%s_%s" % (v, fn)
            if name not in col.variables:
                rec.violation("collapse-wrong", sub, {"why": "statistic missing", "var": name})
                return
            g = col[name]
            got = move_first(g, "collocation").values
            if got.shape != w.shape:
                rec.violation("collapse-wrong", sub, {"why": "statistic has another shape", "var": name,
                                                      "got": list(got.shape), "want": list(w.shape)})
                return
            gn, wn = np.isnan(got.astype(float)), np.isnan(w.astype(float))
            diff = np.abs(np.where(gn | wn, 0, got.astype(LD) - w.astype(LD)))
            if (gn != wn).any() or (diff > t).any():
                k = int(np.argmax((gn != wn) | (diff > t)))
                rec.violation("collapse-wrong", sub,
                              {"why": "statistic differs from the NaN-ignoring value over the partners",
                               "var": name, "flat_index": k,
                               "got": float(np.ravel(got.astype(float))[k]),
                               "want": float(np.ravel(w.astype(float))[k]), "tol": float(t)})
                return
    multi = max(len(p) for p in partners) >= 2
    unsorted = not (np.all(np.diff(rp) >= 0))
    if multi and unsorted:
        rec.nontriv(["collapse", case.get("pattern", "real"), reference is not None, collapser_name,
                     pairs.shape[1] >= 1000, bool(case.get("nan")), case.get("chan_first")],
                    [case.get("seed"), reference])
        rec.count("collapse.nontrivial")


def rowless_vars(ds):
    """Group variables that do not have their group's collocation dimension."""
    groups = [str(g) for g in ds["Collocations/group"].values.tolist()]
    return {v for g in groups for v in group_vars(ds, g) if g + "/collocation" not in ds[v].dims}


def as_rows(exp, rowless, v, n):
    arr = np.asarray(exp[v])
    return np.broadcast_to(arr, (n,) + arr.shape) if v in rowless else arr


def check_concat(rec, datasets, case):
    """expand(concat(a, b, ...)) == concat(expand(a), expand(b), ...)."""
    from typhon.collocations.collocator import concat_collocations
    rec.ev()
    rec.count("concat.calls")
    wants = [oracle_expand(d) for d in datasets]  # before concat mutates its inputs
    want_rowless = [rowless_vars(d) for d in datasets]
    n_rows = [d["Collocations/pairs"].shape[1] for d in datasets]
    pairs_before = [d["Collocations/pairs"].values.copy() for d in datasets]
    copies = [d.copy(deep=True) for d in datasets]
    try:
        with warnings.catch_warnings():
            warnings.simplefilter("ignore")
            cat = concat_collocations(copies)
    except Exception as exc:
        rec.violation("concat-exception", case, {"exception": repr(exc),
                                                 "trace": traceback.format_exc()[-1200:]})
        return
    sv = collocmon.structure_violation(cat)
    if sv:
        rec.violation("collocation-structure", case, dict(sv, where="concat_collocations"))
        return
    got = oracle_expand(cat)  # model expansion of typhon's concatenation ...
    ex = check_expand(rec, cat, dict(case, op="expand(concat)"))  # ... and typhon's own expand
    got_rowless = rowless_vars(cat)
    n_cat = cat["Collocations/pairs"].shape[1]
    for v in wants[0]:
        # (a variable without the collocation dimension has the same value in every row of its part)
        w = np.concatenate([as_rows(x, rl, v, n) for x, rl, n in zip(wants, want_rowless, n_rows)], axis=0)
        if any(v in rl for rl in want_rowless):
            rec.count("concat.rowless_variables")
        if v not in got or not same(as_rows(got, got_rowless, v, n_cat), w):
            rec.violation("concat-wrong", case,
                          {"why": "expand(concat(...)) differs from concat(expand(...))", "var": v,
                           "got": None if v not in got else np.asarray(got[v]).ravel()[:6],
                           "want": w.ravel()[:6]})
            return
    if any((c["Collocations/pairs"].values != p).any() for c, p in zip(copies, pairs_before)):
        rec.count("observed.concat_mutates_inputs")
    if len(datasets) >= 2:
        rec.nontriv(["concat", len(datasets)], [case.get("seed"), case.get("seeds")])


def real_result(rng, track_only=False):
    """A result of the real Collocator.collocate on C04's generator."""
    from typhon.collocations import Collocator
    from vt.models import colloc as M
    from vt.props import c04
    g = {"cls": rng.choice(["threshold", "dup", "random"]), "seed": rng.randrange(2 ** 31),
         "r_km": rng.choice([5.0, 50.0]), "mi_ns": rng.choice([60, 300]) * M.SEC, "tick_ns": M.SEC,
         "region": "mid", "n1": rng.choice([5, 12, 40, 220]), "n2": rng.choice([5, 40, 150, 260])}
    p, s = M.gen_case(g)
    names = rng.choice([["primary", "secondary"], ["MHS", "AVHRR"]])
    np.random.seed(g["seed"] % 1000)
    ds1 = c04.to_dataset(p, {"kind": "flat", "dim": "obs", "labels": "int"}, 1)
    ds2 = c04.to_dataset(s, {"kind": "flat", "dim": "y", "labels": "str"}, 2)
    if track_only:
        # a pure track: time / lat / lon are coordinates, the dataset has no data variable at all
        ds2 = ds2[["time", "lat", "lon"]].set_coords(["time", "lat", "lon"])
        g["track_only"] = True
    res = Collocator().collocate((names[0], ds1), (names[1], ds2),
                                 max_interval=g["mi_ns"] // M.SEC, max_distance=g["r_km"])
    return g, res


def run_case(rec, rng, spec):
    ds = build_compact(spec)
    sv = collocmon.structure_violation(ds)
    assert sv is None, sv
    check_expand(rec, ds, spec)
    A, B = spec["names"]
    for ref in (None, A, B):
        r = rng.random()
        check_collapse(rec, ds, spec, reference=ref,
                       collapser_name="max" if r < 0.2 else "mean=median" if r < 0.35
                       else "first-view" if r < 0.55 else None)
    pairs = ds["Collocations/pairs"].values
    multi = np.unique(pairs[0]).size < pairs.shape[1]
    if multi and spec["shuffle"]:
        rec.nontriv(["expand", spec["pattern"], spec["chan_first"], bool(spec["nan"])], spec["seed"])


def big_real_result(rec, seed):
    """A result of the temporally pre-binned search (more than 1e6 candidate pairs), once with the larger
    and once with the smaller set as secondary: structure, expand and collapse of what collocate() stores."""
    from typhon.collocations import Collocator
    from vt.models import colloc as M
    from vt.props import c04
    for n1, n2 in ((650, 1700), (1700, 650)):
        g = {"cls": "threshold", "seed": seed + n1, "r_km": 5.0, "mi_ns": 60 * M.SEC, "tick_ns": M.SEC,
             "region": "mid", "n1": n1, "n2": n2, "spread_km": 200.0, "span_ns": 30 * 60 * M.SEC}
        p, s = M.gen_case(g)
        np.random.seed(g["seed"] % 1000)
        ds1 = c04.to_dataset(p, {"kind": "flat", "dim": "obs", "labels": "int"}, 1)
        ds2 = c04.to_dataset(s, {"kind": "flat", "dim": "y", "labels": "str"}, 2)
        res = Collocator().collocate(("MHS", ds1), ("AVHRR", ds2), max_interval=60, max_distance=5.0)
        rec.ev()
        rec.count("real.binned_collocate_inputs")
        if res is None:
            rec.count("real.binned_without_pairs")
            continue
        case = {"kind": "real-big", "gen": g, "seed": seed}
        sv = collocmon.structure_violation(res)
        if sv:
            rec.violation("collocation-structure", case, dict(sv, sizes=[n1, n2]))
            continue
        check_expand(rec, res, case)
        check_collapse(rec, res, case)
        rec.nontriv(["real-big", n1, n2], seed)


def run_shard(spec, rec):
    rng = rng_for(spec["seed"], "c13", spec["shard"])
    if spec["shard"] % 4 == 0:
        try:
            big_real_result(rec, spec["seed"] * 1000 + spec["shard"])
        except Exception as exc:
            rec.inconc("harness error: %r %s" % (exc, traceback.format_exc()[-800:]))
    for i in range(spec["n"]):
        cs = gen_spec(rng)
        if i < 1:
            rec.sample(cs)
        try:
            run_case(rec, rng, cs)
            # concat of 1-5 harness-built datasets with the same layout
            k = rng.choice([1, 2, 2, 3, 5])
            specs = [dict(cs, seed=cs["seed"] + 17 * j, nA=rng.choice([1, 3, 8]), nB=rng.choice([1, 4, 9]),
                          extra=rng.choice([0, 3]), per_part=(i % 2 == 1)) for j in range(k)]
            check_concat(rec, [build_compact(s) for s in specs],
                         {"kind": "concat", "specs": specs, "seed": cs["seed"]})
            if i % 3 == 0:
                parts = []
                track_only = rng.random() < 0.35      # (the same kind of secondary in all parts of one concat)
                if track_only:
                    rec.count("real.track_only_secondaries")
                for _ in range(rng.choice([1, 2, 3, 4])):
                    g, res = real_result(rng, track_only)
                    if res is None:
                        continue
                    rec.count("real.collocate_inputs")
                    case = {"kind": "real", "gen": g, "seed": g["seed"]}
                    sv = collocmon.structure_violation(res)
                    if sv:
                        rec.violation("collocation-structure", case, sv)
                        continue
                    check_expand(rec, res, case)
                    check_collapse(rec, res, case)
                    grp = [str(x) for x in res["Collocations/group"].values.tolist()]
                    check_collapse(rec, res, case, reference=grp[1])
                    if not parts or [str(x) for x in parts[0]["Collocations/group"].values.tolist()] == grp:
                        parts.append(res)
                if len(parts) >= 2:
                    check_concat(rec, parts, {"kind": "concat-real", "seed": cs["seed"]})
        except Exception as exc:
            rec.inconc("harness error: %r %s" % (exc, traceback.format_exc()[-800:]))


def replay(case, rec):
    rng = rng_for(0, "replay")
    if case.get("kind") == "compact":
        ds = build_compact(case)
        check_expand(rec, ds, case)
        A, B = case["names"]
        for ref in (None, A, B):
            for c in (None, "max", "first-view"):
                check_collapse(rec, ds, case, reference=ref, collapser_name=c)
    elif case.get("kind") == "real-big":
        big_real_result(rec, case["seed"])
    elif case.get("kind") == "concat":
        check_concat(rec, [build_compact(s) for s in case["specs"]], case)
