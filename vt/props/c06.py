"""C06 - GeoIndex.query returns exactly the points within the radius.

Runtime monitoring: the real typhon.geographical.GeoIndex (and, as the second user of the
same shuffle mechanism, typhon.trees.RangeTree; and typhon.utils.common.split_units through
which radius strings pass) is executed on generated hostile inputs; every answer is decided
by the independent model vt.models.geoindex_model (dense longdouble distance matrix, literal
Earth radius 6 378 100 m - asserted equal to typhon.constants.earth_radius in every shard -,
own unit table, own number/unit parser).

Where each clause of the statement is decided
---------------------------------------------
(a) "returns exactly the pairs whose distance is at most r, chord for the default metric,
    great-circle arc for metric='haversine'"        -> judge_pairs(): model.Oracle.expect()
    gives the pairs that must be reported and the pairs inside the don't-care band
    |d - r| <= 1e-9 r + forward-error bound; must <= reported <= must + band.
    Pairs of points that are identical as passed must be reported for every r >= 0 (their
    distance is 0 in any arithmetic) - this is where '<' instead of '<=' shows.
(b) "each once"                                      -> judge_pairs(): no pair twice.
(c) "indices referring to the arrays as passed in"  -> judge_pairs() works on the indices of
    the arrays handed to typhon (also strided views and integer arrays); a result that is
    right only after mapping through the installed permutation is classified as
    'shuffle-index'.
(d) "with the distance of each pair in kilometres alongside" -> judge_distances(): length,
    alignment with the pair columns, value = model distance of that very pair in km
    (tolerance = derived forward-error bound, see ASSUMPTIONS).
(e) "does not depend on tree type, leaf size, random shuffling, unit spelling" -> every
    configuration of a family (same points, same radius) is compared with the one oracle
    answer of that family, so any dependence outside the band is a violation of (a) for at
    least one member; run_family() drives Ball/KD x leaf sizes 1..100 x shuffle off / native
    shuffle (harness-seeded numpy.random) / installed permutations x spellings of r.
    The shuffle is the schedule of this structure: numpy.random.shuffle is replaced during the
    constructor by a function that installs a harness-chosen permutation; for <= 6 build
    points ALL n! permutations are installed (evidence: perm.installed,
    perm.distinct, perm.exhaustive_families), beyond that identity, reversal, random ones and
    permutations that put a matching build point at tree position 0.
    Unit spelling: the string is produced from the model's table and the oracle radius is
    what the model's own parser reads from that string.
KD tree + haversine is refused by scikit-learn itself (ValueError in the constructor): recorded
as unsupported (note + counter), never a verdict.
RangeTree.query_radius (1-D) is judged the same way (keys 'rangetree-*'); split_units is
compared with the model's parser on every call made by to_kilometers and on direct calls.
"""
import itertools
import math
import traceback

from vt.core import rng_for

ID = "C06"
LEVEL = "exploration"
RULE = ("families = (build points, query points) from the classes random / cluster (metres to "
        "km) / duplicates / poles / date line / antipodes / sorted grid / equidistant line; per "
        "family radii from the classes exact-hit, just above/below a pair distance, between "
        "two distances, log-uniform 1 m .. half circumference, zero, nothing, everything; per "
        "radius the configurations metric x tree x leaf size x shuffle (off / native / installed "
        "permutation: all n! for n <= 6, sampled beyond) x spelling of r x container of the "
        "arrays x return_distance. non-trivial = at least one expected pair and not all pairs; "
        "distinct by (metric, tree, shuffle kind, point class, radius class, unit | radius, "
        "leaf, permutation, subsample of the coordinates)")
ASSUMPTIONS = [
    "oracle: chord = R |u_b - u_q|, arc = 2 R asin(sqrt(haversine)) in numpy.longdouble "
    "(eps 1.1e-19) on the coordinates as passed, R = 6378100 m literal; the two are cross-"
    "checked against each other (chord = 2 R sin(gamma/2)) in every family",
    "don't-care band for 'd <= r': 1e-9 r (DESIGN section 2) + 5e-8 m, the forward error of "
    "the implementation's double-precision cartesian coordinates (4 roundings at magnitude "
    "R: 4 ulp(R) per coordinate, sqrt(3)*2 of that per distance, plus 4 ulp(2R) for the ball "
    "tree's node bounds = 2.1e-8 m, rounded up); for the arc additionally R*8 eps*(1 + "
    "sqrt(h/(1-h))) because gamma = 2 asin(sqrt(h)) is ill-conditioned near the antipode",
    "distance column tolerance: the same absolute bound + 8 ulp relative",
    "identical coordinates (same doubles on both sides) have distance exactly 0 in the "
    "implementation as well and are decided without band",
    "unit table of the oracle: SI and the 1959 international yard (0.9144 m), mile = 1760 yd, "
    "foot = 1/3 yd; spellings cm/centimeter(s), m/meter(s), km/kilometer(s), mi/mile(s), "
    "yd/yds/yard(s), ft/foot/feet",
    "inputs are float64 or integer numpy arrays (float32 input would put the implementation's "
    "own conversion error above the band and is not generated); lat in [-90, 90], lon in "
    "[-180, 180]",
]
MIN_NONTRIVIAL = {"quick": 10000, "thorough": 300000}
REQUIRED_COUNTERS = {"geo.query.calls": 5000, "perm.installed": 2000,
                     "perm.exhaustive_families": 30, "range.query.calls": 200,
                     "split_units.calls": 300, "geo.distance.values": 5000,
                     "unit.spelled_radius": 300, "earth_radius.asserted": 16}
SHARD_TIMEOUT = {"quick": 600, "thorough": 5400}


def shards(tier, seed):
    q = tier == "quick"
    out = []
    for i in range(11):
        out.append({"kind": "perm", "seed": seed, "shard": i, "n": 48 if q else 1500})
    for i in range(4):
        out.append({"kind": "bulk", "seed": seed, "shard": i, "n": 26 if q else 800})
    out.append({"kind": "range", "seed": seed, "shard": 0, "n": 150 if q else 4000})
    return out


# --------------------------------------------------------------------------------------
# generators
# --------------------------------------------------------------------------------------
POINT_CLASSES = ["random", "cluster", "dups", "poles", "dateline", "antipodes", "grid", "line"]


def _sphere(rng):
    z = rng.uniform(-1, 1)
    return math.degrees(math.asin(z)), rng.uniform(-180, 180)


def _clip(lat, lon):
    lat = max(-90.0, min(90.0, lat))
    if lon > 180:
        lon -= 360
    if lon < -180:
        lon += 360
    return lat, lon


def gen_points(rng, cls, nb, nq):
    """-> (blat, blon, qlat, qlon) python float lists"""
    B, Q = [], []
    if cls == "random":
        B = [_sphere(rng) for _ in range(nb)]
        Q = [_sphere(rng) for _ in range(nq)]
    elif cls == "cluster":
        c = _sphere(rng)
        if abs(c[0]) > 80:
            c = (c[0] / 2, c[1])
        spread = rng.choice([1e-5, 1e-4, 1e-3, 1e-2, 0.1, 1.0, 8.0])   # degrees (1 m .. 900 km)
        B = [_clip(c[0] + rng.uniform(-spread, spread), c[1] + rng.uniform(-spread, spread))
             for _ in range(nb)]
        Q = [_clip(c[0] + rng.uniform(-spread, spread), c[1] + rng.uniform(-spread, spread))
             for _ in range(nq)]
    elif cls == "dups":
        base = [_sphere(rng) for _ in range(max(1, nb // 2))]
        B = [rng.choice(base) for _ in range(nb)]
        Q = [rng.choice(base) if rng.random() < 0.7 else _sphere(rng) for _ in range(nq)]
    elif cls == "poles":
        pool = [(90.0, rng.uniform(-180, 180)), (90.0, 0.0), (-90.0, rng.uniform(-180, 180)),
                (-90.0, 180.0), (89.9999, rng.uniform(-180, 180)), (-89.999, 10.0),
                (89.9999, -170.0), _sphere(rng)]
        B = [rng.choice(pool) for _ in range(nb)]
        Q = [rng.choice(pool) for _ in range(nq)]
    elif cls == "dateline":
        lat0 = rng.uniform(-70, 70)
        pool = [180.0, -180.0, 179.9999, -179.9999, 179.99, -179.99, 179.0, -179.0]
        B = [(lat0 + rng.choice([0, 0.001, -0.01, 0.5]), rng.choice(pool)) for _ in range(nb)]
        Q = [(lat0 + rng.choice([0, 0.001, -0.01, 0.5]), rng.choice(pool)) for _ in range(nq)]
    elif cls == "antipodes":
        B = [_sphere(rng) for _ in range(nb)]
        Q = []
        for _ in range(nq):
            la, lo = rng.choice(B)
            off = rng.choice([0.0, 0.0, 1e-7, 1e-4, 0.01, 1.0])
            Q.append(_clip(-la + off, lo + 180 if lo <= 0 else lo - 180))
    elif cls == "grid":
        # sorted, regular (SEVIRI-like); integral degrees where the grid fits into the domain
        side = max(1, int(math.ceil(math.sqrt(nb))))
        step = rng.choice([1, 2, 5])
        if side * step > 100:
            step = 100.0 / side
        la0, lo0 = rng.randint(-60, -45), rng.randint(-170, 60)
        B = [(float(la0 + step * (i // side)), float(lo0 + step * (i % side))) for i in range(nb)]
        Q = [(float(la0 + step * rng.randint(0, side)), float(lo0 + step * rng.randint(0, side)))
             if rng.random() < 0.5 else
             (la0 + step * rng.uniform(0, side), lo0 + step * rng.uniform(0, side))
             for _ in range(nq)]
    elif cls == "line":
        step = rng.choice([0.001, 0.01, 0.25, 1.0])
        if nb * step > 300:
            step = 300.0 / nb
        lo0 = rng.uniform(-175, 175 - nb * step)
        B = [(0.0, lo0 + step * i) for i in range(nb)]
        Q = [(0.0, lo0 + step * rng.randint(0, nb)) for _ in range(nq)]
    else:
        raise ValueError(cls)
    if cls not in ("grid", "line"):
        rng.shuffle(B)
    for la, lo in B + Q:
        assert -90 <= la <= 90 and -180 <= lo <= 180, (cls, la, lo)
    return [p[0] for p in B], [p[1] for p in B], [p[0] for p in Q], [p[1] for p in Q]


def gen_radii(rng, oracle, metric, k):
    """-> list of (radius class, r_km float)"""
    import numpy as np
    from vt.models import geoindex_model as gm
    d = np.sort(np.asarray(oracle.dist(metric), dtype=np.float64).ravel())
    out = []
    pos = d[d > 0]
    for _ in range(k):
        c = rng.choice(["hit", "above", "below", "between", "between", "log", "log", "zero",
                        "none", "all", "round"])
        if c in ("hit", "above", "below") and pos.size:
            x = float(rng.choice(pos.tolist()))
            r = {"hit": x, "above": x * (1 + 1e-6), "below": x * (1 - 1e-6)}[c]
        elif c == "between" and d.size >= 2:
            i = rng.randrange(d.size - 1)
            r = float(d[i] + d[i + 1]) / 2
            if r == 0:
                r = float(d[-1]) / 2 if d[-1] > 0 else 1.0
        elif c == "zero":
            r = 0
        elif c == "none" and pos.size:
            r = float(pos[0]) / 2
        elif c == "all":
            r = gm.HALF_CIRCUMFERENCE_KM
        elif c == "round":
            r = rng.choice([1, 5, 10, 50, 100, 500, 1000, 5000, 3.1, 0.5])
        else:
            c = "log"
            r = 10 ** rng.uniform(-3, math.log10(gm.HALF_CIRCUMFERENCE_KM))
        # the statement's radii end at half the circumference (beyond it the haversine
        # metric of the tree is no longer monotonic)
        if r > gm.HALF_CIRCUMFERENCE_KM:
            r = gm.HALF_CIRCUMFERENCE_KM
        out.append((c, r))
    return out


UNITS = ["cm", "centimeter", "centimeters", "m", "meter", "meters", "km", "kilometer",
         "kilometers", "mi", "mile", "miles", "yd", "yds", "yard", "yards", "ft", "foot", "feet"]


def spell(rng, r_km):
    """radius as given to typhon: number (km) or string with a unit"""
    from vt.models import geoindex_model as gm
    if r_km == 0:
        return rng.choice([0, 0.0])
    c = rng.random()
    if c < 0.4:
        if float(r_km).is_integer() and rng.random() < 0.5:
            return int(r_km)
        return float(r_km)
    if c < 0.45:
        return "%r" % float(r_km)          # string without unit = km
    return gm.spell_radius(r_km, rng.choice(UNITS), rng.randrange(7))


# --------------------------------------------------------------------------------------
# the schedule: which permutation numpy.random.shuffle produces
# --------------------------------------------------------------------------------------
class ShuffleSchedule:
    """Context manager: numpy.random.shuffle installs `perm` (or, perm None, the real shuffle
    runs under numpy.random.seed(np_seed))."""

    def __init__(self, perm=None, np_seed=None):
        self.perm = perm
        self.np_seed = np_seed
        self.calls = 0
        self.lengths = []

    def __enter__(self):
        import numpy as np
        self.np = np
        self.orig = np.random.shuffle
        if self.perm is None:
            if self.np_seed is not None:
                np.random.seed(self.np_seed)
            orig = self.orig

            def counting(x, *a, **k):
                self.calls += 1
                self.lengths.append(len(x))
                return orig(x, *a, **k)
            np.random.shuffle = counting
        else:
            perm = np.asarray(self.perm)

            def install(x, *a, **k):
                self.calls += 1
                self.lengths.append(len(x))
                if len(x) == len(perm):
                    x[...] = perm
            np.random.shuffle = install
        return self

    def __exit__(self, *exc):
        self.np.random.shuffle = self.orig
        return False


# --------------------------------------------------------------------------------------
# one execution of GeoIndex under the monitors
# --------------------------------------------------------------------------------------
def make_array(values, container):
    import numpy as np
    if container == "int":
        return np.asarray([int(v) for v in values], dtype=np.int64)
    a = np.asarray(values, dtype=np.float64)
    if container == "strided":
        wide = np.full(2 * len(values) + 1, 77.0)
        wide[1::2] = a
        return wide[1::2]
    if container == "fortran2d":
        wide = np.asfortranarray(np.tile(a[:, None], (1, 3)))
        return wide[:, 1]
    return a


class Family:
    """points + oracle + cache of expectations"""

    def __init__(self, blat, blon, qlat, qlon, cls="?"):
        from vt.models import geoindex_model as gm
        self.gm = gm
        self.blat, self.blon, self.qlat, self.qlon = blat, blon, qlat, qlon
        self.cls = cls
        self.oracle = gm.Oracle(blat, blon, qlat, qlon)
        self._exp = {}

    def expect(self, metric, r):
        key = (metric == "haversine", repr(r))
        if key not in self._exp:
            gm = self.gm
            import numpy as np
            r_km = gm.radius_km(r)
            must, may = self.oracle.expect(metric, r_km)
            mb, mq = np.nonzero(must)
            yb, yq = np.nonzero(may)
            self._exp[key] = {
                "r_km": r_km,
                "must": set(zip(mb.tolist(), mq.tolist())),
                "may": set(zip(yb.tolist(), yq.tolist())),
                "D": self.oracle.dist(metric),
                "tol": self.oracle.dist_tol(metric),
            }
        return self._exp[key]


def family_of(case):
    return Family(case["blat"], case["blon"], case["qlat"], case["qlon"], case.get("cls", "?"))


def effective_metric(case):
    return "haversine" if case.get("metric") == "haversine" else "minkowski"


def execute_geo(case):
    """Run the real code.  -> dict(status=..., ...)"""
    import numpy as np
    from typhon.geographical import GeoIndex
    cont = case.get("container", "plain")
    blat, blon = make_array(case["blat"], cont), make_array(case["blon"], cont)
    qlat, qlon = make_array(case["qlat"], cont), make_array(case["qlon"], cont)
    if case.get("self_query"):
        # the index is queried with the very array objects it was built from
        qlat, qlon = blat, blon
    kw = {}
    if case.get("metric") is not None:
        kw["metric"] = case["metric"]
    if case.get("tree") is not None:
        kw["tree_class"] = case["tree"]
    if case.get("leaf") is not None:
        kw["leaf_size"] = case["leaf"]
    if not case.get("shuffle", True):
        kw["shuffle"] = False
    elif case.get("shuffle_explicit"):
        kw["shuffle"] = True
    sched = ShuffleSchedule(case.get("perm"), case.get("np_seed"))
    out = {"sched": sched}
    try:
        with sched:
            gi = GeoIndex(blat, blon, **kw)
    except Exception as exc:
        out.update(status="ctor-exception", exc=exc, trace=traceback.format_exc()[-900:])
        return out
    out["shuffler"] = None if gi.shuffler is None else np.asarray(gi.shuffler).tolist()
    if len(case["blat"]) % 3 == 1:
        # call history across two objects: a second index over as many other points is built (with
        # numpy's own shuffle) before the first one is queried
        try:
            n_b = len(case["blat"])
            other_rng = np.random.default_rng(n_b)
            GeoIndex(other_rng.uniform(-60, 60, n_b), other_rng.uniform(-170, 170, n_b), **kw)
            out["sibling"] = True
        except Exception:
            pass
    if cont == "plain" and not case.get("self_query") and isinstance(blat, np.ndarray) \
            and blat.flags.writeable and len(case["blat"]) % 2 == 1:
        # call history: the build arrays are the caller's read buffer and are refilled right after the
        # index was built - the index answers for the points it was built from
        out["refilled"] = True
        blat[...] = 0.5 * blat[::-1].copy()
        blon[...] = 0.5 * blon[::-1].copy()
    qkw = {}
    if case.get("rd") is False:
        qkw["return_distance"] = False
    try:
        res = gi.query(qlat, qlon, case["r"], **qkw) if not case.get("r_kw") else \
            gi.query(qlat, qlon, r=case["r"], **qkw)
    except Exception as exc:
        out.update(status="query-exception", exc=exc, trace=traceback.format_exc()[-900:])
        return out
    out.update(status="ok", result=res)
    if cont == "plain" and not case.get("self_query") and len(case["qlat"]) >= 2 \
            and len(case["qlat"]) <= 300 and len(case["qlat"]) % 3 == 0:
        # call history on caller-owned query buffers (vt/monitors/history.py): same index object, same
        # array objects, contents reversed in place between the calls
        from vt.monitors import history
        r = case["r"]
        out["history"] = history.reuse_check(
            lambda a, b: gi.query(a, b, r=r, **qkw),
            (np.array(case["qlat"], dtype=float), np.array(case["qlon"], dtype=float)))
        if len(case["qlat"]) >= 4:
            # the same index asked from several threads at once, every call with as many query points
            # (vt/monitors/concurrency.py): the variants are the query points rolled along their axis
            from vt.monitors import concurrency
            ql, qo = np.array(case["qlat"], dtype=float), np.array(case["qlon"], dtype=float)
            out["concurrent"] = concurrency.concurrent_check(
                [(gi.query, (np.roll(ql, k), np.roll(qo, k)), dict(qkw, r=r)) for k in range(4)],
                threads=4, rounds=2)
    if len(case["qlat"]) >= 2 and len(case["qlat"]) % 5 == 2 and hasattr(gi, "tree"):
        # fault at a particular point: the tree's radius search runs out of memory once (MemoryError on its
        # first call, normal afterwards). Either the fault reaches the caller or the answer is the
        # un-faulted one.
        real_tree = gi.tree

        class OnceOutOfMemory:
            fired = 0

            def query_radius(self, *a, **kw):
                if not OnceOutOfMemory.fired:
                    OnceOutOfMemory.fired = 1
                    raise MemoryError("harness: injected into the tree's radius search")
                return real_tree.query_radius(*a, **kw)

            def __getattr__(self, name):
                return getattr(real_tree, name)
        gi.tree = OnceOutOfMemory()
        try:
            res2 = gi.query(qlat, qlon, case["r"], **qkw)
            rd = case.get("rd") is not False
            r1, d1, p1 = unpack_result(res, rd)
            r2, d2, p2 = unpack_result(res2, rd)
            if p1 or p2 or r1 is None or r2 is None:
                out["fault"] = ("n/a", None)
            else:
                o1, o2 = sorted(range(len(r1)), key=lambda k: r1[k]), sorted(range(len(r2)), key=lambda k: r2[k])
                same = [r1[k] for k in o1] == [r2[k] for k in o2] and (
                    d1 is None or np.allclose(np.asarray(d1)[o1], np.asarray(d2)[o2], rtol=1e-12, atol=0))
                out["fault"] = ("same", None) if same else \
                    ("differs", {"pairs_without_fault": len(r1), "pairs_after_the_fault": len(r2),
                                 "fault_fired": OnceOutOfMemory.fired})
        except MemoryError:
            out["fault"] = ("reached-caller", None)
        except Exception as exc:
            out["fault"] = ("other-exception", {"exception": repr(exc)})
        finally:
            gi.tree = real_tree
        if not OnceOutOfMemory.fired:
            out["fault"] = ("not-reached", None)
    return out


def unpack_result(res, rd):
    """-> (rows, dist, problem) ; rows = list of (build, query) ints, dist = ndarray | None"""
    import numpy as np
    if rd:
        if not (isinstance(res, tuple) and len(res) == 2):
            return None, None, "query did not return (pairs, distances): %r" % (type(res),)
        pairs, dist = res
    else:
        pairs, dist = res, None
    pairs = np.asarray(pairs)
    if pairs.size == 0:
        return [], (None if dist is None else np.asarray(dist)), None
    if pairs.ndim != 2 or pairs.shape[0] != 2:
        return None, None, "pairs has shape %r, expected (2, N)" % (pairs.shape,)
    if not np.all(pairs == np.floor(pairs)):
        return None, None, "pairs are not integral"
    rows = list(zip(pairs[0].astype(np.int64).tolist(), pairs[1].astype(np.int64).tolist()))
    return rows, (None if dist is None else np.asarray(dist)), None


def judge_pairs(rows, exp):
    got = set(rows)
    prob = {}
    if len(got) != len(rows):
        seen = set()
        prob["duplicated"] = sorted({p for p in rows if p in seen or seen.add(p)})[:5]
    missing = exp["must"] - got
    extra = got - exp["must"] - exp["may"]
    if missing:
        prob["missing"] = sorted(missing)[:5]
        prob["n_missing"] = len(missing)
    if extra:
        prob["extra"] = sorted(extra)[:5]
        prob["n_extra"] = len(extra)
    return prob


def zero_pair_mechanism(exp, shuffler, rows):
    """Classifier of 'pairs-any-zero-pair': the raw tree answer is the single pair
    (tree position 0, query 0), so that `pairs.any()` is False although a pair exists; query
    then takes the 'no pairs' exit: it returns that raw pair - build index not translated -
    with the pair array in place of the distances, or (later revision) nothing at all."""
    if len(exp["must"]) != 1 or exp["may"]:
        return False        # band pairs would make the raw answer ambiguous
    (b, q), = exp["must"]
    pos0 = shuffler[0] if shuffler is not None else 0
    return q == 0 and b == pos0 and list(rows) in ([(0, 0)], [])


def _fits_radius(fam, metric, rows, r_alt):
    import numpy as np
    must, may = fam.oracle.expect(metric, r_alt)
    alt = {"must": set(zip(*[x.tolist() for x in np.nonzero(must)])),
           "may": set(zip(*[x.tolist() for x in np.nonzero(may)]))}
    return not judge_pairs(rows, alt)


def classify_pairs(case, fam, exp, rows, shuffler, prob):
    """Name the mechanism behind a wrong pair set (best effort; the generic name is
    'pair-set')."""
    gm = fam.gm
    metric = effective_metric(case)
    num = unit = None
    if isinstance(case["r"], str):
        try:
            num, unit = gm.parse_quantity(case["r"])
        except ValueError:
            pass
    # 'cm-unit': one centimetre taken as 1e-6 km (instead of 1e-5 km)
    if unit and gm.UNIT_FAMILY.get(unit) == "cm" and \
            _fits_radius(fam, metric, rows, gm.LD(num) / gm.LD(10 ** 6)):
        return "cm-unit"
    if case.get("rd") is not False and zero_pair_mechanism(exp, shuffler, rows):
        return "pairs-any-zero-pair"      # (the exit without distances never tests .any())
    if shuffler is not None and "duplicated" not in prob:
        # right after translating the build index through the permutation?
        try:
            tr = [(shuffler[b], q) for b, q in rows]
        except (IndexError, TypeError):
            tr = None
        if tr is not None and not judge_pairs(tr, exp):
            if case.get("rd") is False:
                return "no-distance-index-untranslated"
            return "shuffle-index-untranslated"
        inv = {p: i for i, p in enumerate(shuffler)}
        # the tree-space answer (positions) of the oracle, mapped in wrong ways
        tree_must = {(inv[b], q) for b, q in exp["must"]}
        n = len(shuffler)
        wrong_maps = {
            # the inverse permutation applied instead of the permutation
            "shuffle-index-inverse": {(inv[p], q) for p, q in tree_must},
            # the query row translated instead of the build row
            "shuffle-index-wrong-row": {(p, shuffler[q] if q < n else -1) for p, q in tree_must},
        }
        if not exp["may"]:
            for name, wrong in wrong_maps.items():
                if wrong == set(rows) and wrong != exp["must"]:
                    return name
    if unit and rows:
        # the radius the (non-empty) result would be right for, among "number x other factor"
        for fac_name, (p, q) in [("x1e-6", (1, 10 ** 6)), ("x1e-4", (1, 10 ** 4)),
                                 ("x1e-2", (1, 100))] + list(gm.KM_PER_UNIT.items()):
            r_alt = gm.LD(num) * gm.LD(p) / gm.LD(q)
            if r_alt != exp["r_km"] and _fits_radius(fam, metric, rows, r_alt):
                return "radius-unit"
    return "pair-set"


def judge_distances(rows, dist, exp):
    """-> None or dict(problem)"""
    import numpy as np
    LD = np.longdouble
    if dist is None:
        return {"why": "no distance array"}
    if not rows:
        if dist.size != 0:
            return {"why": "no pairs but %d distances" % dist.size}
        return None
    if dist.ndim != 1 or dist.shape[0] != len(rows):
        return {"why": "distance array of shape %r next to %d pairs" % (dist.shape, len(rows)),
                "shape": list(dist.shape)}
    pb = np.array([p[0] for p in rows])
    pq = np.array([p[1] for p in rows])
    want = exp["D"][pb, pq]
    tol = exp["tol"][pb, pq]
    err = np.abs(dist.astype(LD) - want)
    bad = np.nonzero(~(err <= tol))[0]
    if bad.size == 0:
        return None
    i = int(bad[0])
    return {"why": "distance of pair differs from its distance in km", "pair": list(rows[i]),
            "got": float(dist[i]), "want_km": float(want[i]), "tol_km": float(tol[i]),
            "n_bad": int(bad.size), "n": len(rows),
            "_got": dist, "_want": want}


def classify_distance(case, fam, exp, rows, shuffler, prob):
    import numpy as np
    gm = fam.gm
    if zero_pair_mechanism(exp, shuffler, rows) and prob.get("shape") == [2, 1]:
        return "pairs-any-zero-pair"      # the (2, 1) pair array returned as distances
    got, want = prob.get("_got"), prob.get("_want")
    if got is None:
        return "distance-column"
    got = got.astype(np.longdouble)
    nz = want > 1e-6        # pairs farther apart than 1 mm carry the scale information
    if nz.any():
        ratio = got[nz] / want[nz]
        if np.all(np.abs(ratio * gm.R_KM * 1000 - 1) < 1e-6) and \
                effective_metric(case) == "haversine":
            # got = gamma / 1000 : radians scaled by 1/1000 instead of by R/1000
            return "haversine-not-km"
        if np.all(np.abs(ratio / 1000 - 1) < 1e-6):
            return "distance-metres"
    if np.allclose(np.sort(got.astype(float)), np.sort(want.astype(float)), rtol=1e-9, atol=1e-9):
        return "distance-misaligned"
    return "distance-column"


def check_geo(rec, case, fam=None):
    """One constructor + one query under the monitors.  -> list of keys."""
    fam = fam or family_of(case)
    metric = effective_metric(case)
    rd = case.get("rd") is not False
    out = execute_geo(case)
    sched = out["sched"]
    rec.ev()
    rec.count("geo.query.calls")
    keys = []

    def viol(key, detail):
        keys.append(key)
        rec.violation(key, case, detail)

    if out.get("sibling"):
        rec.count("geo.sibling_index_built_before_query")
    if out.get("refilled"):
        rec.count("geo.build_arrays_refilled_after_construction")
    if out.get("concurrent"):
        verdict, detail = out["concurrent"]
        rec.count("geo.concurrent_" + verdict.replace("/", ""))
        if verdict == "race":
            viol("query-stale-state", dict(detail, where="queries on one index from 4 threads at once"))
    if out.get("fault"):
        verdict, detail = out["fault"]
        rec.count("fault.radius_search_memoryerror." + verdict.replace("/", ""))
        if verdict in ("differs", "other-exception"):
            viol("query-after-fault", dict(detail, where="MemoryError injected once into the tree's radius search"))
    if out.get("history"):
        verdict, detail = out["history"]
        rec.count("history.reuse_" + verdict.replace("/", ""))
        if verdict == "stale":
            viol("query-stale-state", detail)
    if out["status"] == "ctor-exception":
        msg = repr(out["exc"])
        if case.get("tree") == "KD" and metric == "haversine" and isinstance(out["exc"], ValueError) \
                and "KDTree" in msg:
            rec.count("unsupported.kd_haversine")
            rec.note("KD tree with metric='haversine' is rejected by scikit-learn itself (%s): "
                     "recorded as unsupported, not a verdict" % msg[:120])
            return keys
        viol("geo-exception", {"where": "constructor", "exception": msg, "trace": out["trace"]})
        return keys
    shuffled = case.get("shuffle", True)
    if shuffled:
        if sched.calls != 1 or sched.lengths != [len(case["blat"])]:
            rec.count("shuffle.patch_missed")
            rec.inconc("numpy.random.shuffle was called %r times with lengths %r during the "
                       "constructor - the schedule hook no longer fits" % (sched.calls, sched.lengths))
            return keys
        shuffler = out["shuffler"]
        if shuffler is None or sorted(shuffler) != list(range(len(case["blat"]))):
            viol("shuffle-not-a-permutation", {"shuffler": shuffler})
            return keys
        if case.get("perm") is not None:
            if shuffler != list(case["perm"]):
                # the implementation post-processed what the shuffle produced: judge with the
                # permutation it really used, but do not claim the schedule was installed
                rec.count("perm.altered_by_implementation")
            else:
                rec.count("perm.installed")
        else:
            rec.count("perm.native")
        if len(shuffler) <= 8:
            rec.setadd("perm.distinct", "%d:%s" % (len(shuffler), "".join(map(str, shuffler))))
    else:
        shuffler = None
        if out["shuffler"] is not None or sched.calls:
            viol("shuffle-off-ignored", {"shuffler": out["shuffler"], "calls": sched.calls})
    exp = fam.expect(metric, case["r"])
    if isinstance(case["r"], str):
        rec.count("unit.spelled_radius")
        rec.setadd("unit.spellings", fam.gm.parse_quantity(case["r"])[1] or "(none)")
    if out["status"] == "query-exception":
        viol("geo-exception", {"where": "query", "exception": repr(out["exc"]), "trace": out["trace"]})
        return keys
    rows, dist, problem = unpack_result(out["result"], rd)
    if problem:
        viol("result-shape", {"why": problem})
        return keys
    rec.count("geo.pairs.reported", len(rows))
    base = {"expected_pairs": sorted(exp["must"])[:6], "n_expected": len(exp["must"]),
            "n_band": len(exp["may"]), "got_pairs": sorted(rows)[:6], "n_got": len(rows),
            "r_km": float(exp["r_km"]), "shuffler": shuffler if shuffler is None or len(shuffler) <= 12
            else shuffler[:12]}
    prob = judge_pairs(rows, exp)
    if prob:
        key = classify_pairs(case, fam, exp, rows, shuffler, prob)
        viol(key, dict(base, **prob))
    if rd:
        nb, nq = len(case["blat"]), len(case["qlat"])
        ok_rows = all(0 <= b < nb and 0 <= q < nq for b, q in rows)
        if ok_rows:
            dprob = judge_distances(rows, dist, exp)
            rec.count("geo.distance.values", len(rows))
            if dprob:
                key = classify_distance(case, fam, exp, rows, shuffler, dprob)
                dprob = {k: v for k, v in dprob.items() if not k.startswith("_")}
                if key not in keys:
                    viol(key, dict(base, **dprob))
    if exp["may"]:
        rec.count("band.cases")
        rec.count("band.pairs", len(exp["may"]))
        inband_reported = len(set(rows) & exp["may"])
        rec.count("band.pairs_reported", inband_reported)
    if not keys:
        n_all = len(case["blat"]) * len(case["qlat"])
        if 0 < len(exp["must"]) < n_all:
            unit = fam.gm.parse_quantity(case["r"])[1] if isinstance(case["r"], str) else "number"
            kind = "off" if not shuffled else ("native" if case.get("perm") is None else "installed")
            sig = [metric, case.get("tree") or "Ball", kind, case.get("cls", "?"),
                   case.get("rcls", "?"), unit]
            content = [case["r"], case.get("leaf"), case.get("perm") if case.get("perm") is None
                       or len(case["perm"]) <= 8 else case["perm"][:8] + [len(case["perm"])],
                       case.get("np_seed"), case.get("container"), rd,
                       case["blat"][:4], case["blon"][:4], case["qlat"][:3], case["qlon"][:3],
                       len(case["blat"]), len(case["qlat"])]
            rec.nontriv(sig, content)
    return keys


# --------------------------------------------------------------------------------------
# shrinking
# --------------------------------------------------------------------------------------
class _Quiet:
    def __init__(self):
        self.viols = []

    def violation(self, key, case, detail):
        self.viols.append((key, case, detail))

    def __getattr__(self, name):
        return lambda *a, **k: None


def _sub_build(case, keep):
    keep = list(keep)
    c = dict(case, blat=[case["blat"][i] for i in keep], blon=[case["blon"][i] for i in keep])
    if case.get("perm") is not None:
        pos = {old: new for new, old in enumerate(keep)}
        c["perm"] = [pos[p] for p in case["perm"] if p in pos]
    return c


def _sub_query(case, keep):
    keep = list(keep)
    return dict(case, qlat=[case["qlat"][i] for i in keep], qlon=[case["qlon"][i] for i in keep])


def shrink_geo(case, key, budget=160):
    def fails(c):
        nonlocal budget
        if budget <= 0:
            return False
        budget -= 1
        if not c["blat"] or not c["qlat"]:
            return False
        q = _Quiet()
        try:
            return key in check_geo(q, c)
        except Exception:
            return False

    cur = case
    for field, sub in (("qlat", _sub_query), ("blat", _sub_build)):
        chunk = max(1, len(cur[field]) // 2)
        while True:
            i = 0
            while i < len(cur[field]) and len(cur[field]) > 1 and budget > 0:
                keep = [j for j in range(len(cur[field])) if not (i <= j < i + chunk)]
                if keep and fails(sub(cur, keep)):
                    cur = sub(cur, keep)
                else:
                    i += chunk
            if chunk == 1 or budget <= 0:
                break
            chunk = max(1, chunk // 2)
    # simpler configuration where possible
    for k, v in (("container", "plain"), ("leaf", None), ("tree", None)):
        if cur.get(k) != v:
            cand = dict(cur)
            cand[k] = v
            if fails(cand):
                cur = cand
    return dict(cur, shrunk=True)


class Deferred:
    def __init__(self, rec):
        self._rec = rec
        self.viols = []

    def violation(self, key, case, detail):
        self.viols.append((key, case, detail))

    def __getattr__(self, name):
        return getattr(self._rec, name)


_SEEN = {}


def run_geo_case(rec, case, fam=None):
    d = Deferred(rec)
    keys = check_geo(d, case, fam)
    for key in dict.fromkeys(keys):
        _SEEN[key] = _SEEN.get(key, 0) + 1
        if _SEEN[key] > 4:
            # the recorder keeps three cases per mechanism: count the rest without shrinking
            rec.violation(key, case, [v[2] for v in d.viols if v[0] == key][0])
            continue
        small = case if case.get("shrunk") else shrink_geo(case, key)
        q = _Quiet()
        check_geo(q, small)
        hit = [v for v in q.viols if v[0] == key]
        if hit:
            rec.violation(key, small, hit[0][2])
        else:       # shrinking lost it (should not happen): report the original
            orig = [v for v in d.viols if v[0] == key][0]
            rec.violation(key, case, orig[2])
    return keys


# --------------------------------------------------------------------------------------
# RangeTree and split_units
# --------------------------------------------------------------------------------------
def check_range(rec, case):
    import numpy as np
    from typhon.trees import RangeTree
    from vt.models import geoindex_model as gm
    dtype = np.int64 if case.get("dtype") == "int" else np.float64
    b = np.asarray(case["b"], dtype=dtype)
    q = np.asarray(case["q"], dtype=dtype)
    kw = {}
    if not case.get("shuffle", True):
        kw["shuffle"] = False
    if case.get("tree") is not None:
        kw["tree_class"] = case["tree"]
    sched = ShuffleSchedule(case.get("perm"), case.get("np_seed"))
    rec.ev()
    rec.count("range.query.calls")
    keys = []

    def viol(key, detail):
        keys.append(key)
        rec.violation(key, case, detail)
    must, may = gm.range_expect(case["b"], case["q"], case["r"])
    must_s = set(zip(*[x.tolist() for x in np.nonzero(must)]))
    may_s = set(zip(*[x.tolist() for x in np.nonzero(may)]))
    try:
        with sched:
            t = RangeTree(b, **kw)
        if case.get("shuffle", True) and case.get("perm") is not None:
            if sched.calls != 1 or np.asarray(t.shuffler).tolist() != list(case["perm"]):
                rec.count("shuffle.patch_missed")
                rec.inconc("RangeTree: schedule hook no longer fits")
                return keys
            rec.count("range.perm.installed")
        res = t.query_radius(q, case["r"])
    except Exception as exc:
        key = "rangetree-exception"
        if not must_s and not may_s and case.get("shuffle", True) and isinstance(exc, IndexError):
            key = "rangetree-empty-indexerror"
        viol(key, {"exception": repr(exc), "trace": traceback.format_exc()[-700:],
                   "n_expected": len(must_s)})
        return keys
    res = np.asarray(res)
    if res.size == 0:
        rows = []
    elif res.ndim != 2 or res.shape[0] != 2:
        viol("rangetree-result-shape", {"shape": list(res.shape)})
        return keys
    else:
        rows = list(zip(res[0].astype(np.int64).tolist(), res[1].astype(np.int64).tolist()))
    prob = judge_pairs(rows, {"must": must_s, "may": may_s})
    if prob:
        key = "rangetree-pair-set"
        sh = None if t.shuffler is None else np.asarray(t.shuffler).tolist()
        if sh is not None:
            try:
                if not judge_pairs([(sh[bb], qq) for bb, qq in rows], {"must": must_s, "may": may_s}):
                    key = "rangetree-shuffle-index"
            except IndexError:
                pass
        viol(key, dict(prob, expected=sorted(must_s)[:6], got=sorted(rows)[:6], shuffler=sh))
    elif 0 < len(must_s) < len(case["b"]) * len(case["q"]):
        rec.nontriv(["range", case.get("tree") or "Ball", bool(case.get("shuffle", True)),
                     case.get("dtype", "float")],
                    [case["r"], case.get("perm"), case["b"][:5], case["q"][:3], len(case["b"])])
    return keys


def shrink_range(case, key, budget=80):
    cur = case
    for field in ("q", "b"):
        i = 0
        while i < len(cur[field]) and len(cur[field]) > 1 and budget > 0:
            keep = [j for j in range(len(cur[field])) if j != i]
            cand = dict(cur)
            cand[field] = [cur[field][j] for j in keep]
            if field == "b" and cur.get("perm") is not None:
                pos = {old: new for new, old in enumerate(keep)}
                cand["perm"] = [pos[p] for p in cur["perm"] if p in pos]
            budget -= 1
            if key in check_range(_Quiet(), cand):
                cur = cand
            else:
                i += 1
    return dict(cur, shrunk=True)


def run_range_case(rec, case):
    d = Deferred(rec)
    keys = check_range(d, case)
    for key in dict.fromkeys(keys):
        small = case if case.get("shrunk") else shrink_range(case, key)
        q = _Quiet()
        check_range(q, small)
        hit = [v for v in q.viols if v[0] == key] or [v for v in d.viols if v[0] == key]
        rec.violation(key, small if q.viols else case, hit[0][2])
    return keys


def check_split(rec, case):
    """direct call of typhon.utils.common.split_units on '<number><sep><unit>'"""
    from typhon.utils.common import split_units
    from vt.models import geoindex_model as gm
    text = case["text"]
    rec.ev()
    rec.count("split_units.calls")
    want = gm.parse_quantity(text)
    try:
        got = split_units(text)
    except Exception as exc:
        rec.violation("split-units", case, {"exception": repr(exc)})
        return ["split-units"]
    ok = (isinstance(got, tuple) and len(got) == 2 and float(got[0]) == want[0]
          and got[1] == want[1])
    if not ok:
        rec.violation("split-units", case, {"got": repr(got), "want": repr(want)})
        return ["split-units"]
    return []


class SplitMonitor:
    """wraps the split_units reference used by to_kilometers: every radius string that passes
    through a query is compared with the model's parser."""

    def __init__(self, rec):
        self.rec = rec

    def __enter__(self):
        import typhon.geographical as tg
        from vt.models import geoindex_model as gm
        self.tg = tg
        self.orig = tg.split_units
        rec, orig = self.rec, self.orig

        def wrapped(value):
            got = orig(value)
            rec.count("split_units.calls")
            rec.count("split_units.calls_inside_query")
            try:
                want = gm.parse_quantity(value)
            except ValueError:
                return got
            if not (float(got[0]) == want[0] and got[1] == want[1]):
                rec.violation("split-units", {"kind": "split", "text": value},
                              {"got": repr(got), "want": repr(want), "where": "to_kilometers"})
            return got
        tg.split_units = wrapped
        return self

    def __exit__(self, *exc):
        self.tg.split_units = self.orig
        return False


# --------------------------------------------------------------------------------------
# drivers
# --------------------------------------------------------------------------------------
def assert_earth_radius(rec):
    from typhon.constants import earth_radius
    from vt.models import geoindex_model as gm
    rec.count("earth_radius.asserted")
    if float(earth_radius) != gm.R_M:
        rec.violation("earth-radius", {"kind": "earth-radius"},
                      {"typhon.constants.earth_radius": float(earth_radius), "model": gm.R_M})


def config_for(rng, n_build, allow_haversine=True):
    metric = rng.choice([None, None, "minkowski", "haversine", "haversine"]
                        if allow_haversine else [None, "minkowski"])
    tree = rng.choice([None, "Ball", "KD"]) if metric != "haversine" else \
        rng.choice([None, "Ball", "Ball", "Ball", "KD"])
    leaf = rng.choice([None, 1, 2, 3, 7, 40, 100])
    return {"metric": metric, "tree": tree, "leaf": leaf,
            "container": rng.choice(["plain", "plain", "strided", "fortran2d"]),
            "rd": rng.random() >= 0.12}


def sampled_perms(rng, n, exp, k):
    """identity, reversal, random ones, and permutations that put a matching build point at
    tree position 0 (perm[0] = matching build index)."""
    ident = list(range(n))
    out = [ident, ident[::-1]]
    matching = sorted({b for b, _ in exp["must"]})
    for b in rng.sample(matching, min(len(matching), 3)):
        rest = [i for i in ident if i != b]
        rng.shuffle(rest)
        out.append([b] + rest)
    # the single match of query 0 at position 0, if there is one
    q0 = [b for b, q in exp["must"] if q == 0]
    if len(q0) == 1:
        rest = [i for i in ident if i != q0[0]]
        rng.shuffle(rest)
        out.append([q0[0]] + rest)
    while len(out) < k:
        p = ident[:]
        rng.shuffle(p)
        out.append(p)
    return out[:max(k, 2)]


def run_family(rec, rng, fam, base, radii, exhaustive, perms_per_radius=8):
    """Drive one family: for every radius all configurations."""
    n = len(fam.blat)
    worst = fam.oracle.self_check()
    rec.maxi("model.chord_vs_arc_km", worst)
    if worst > 1e-9:
        rec.inconc("model self check failed: chord and arc disagree by %g km" % worst)
        return
    if exhaustive:
        rec.count("perm.exhaustive_families")
        rec.count("perm.exhaustive_families.n%d" % n)
    for rcls, r_km in radii:
        cfg0 = config_for(rng, n)
        # integer container only for integral coordinates
        if all(float(v).is_integer() for v in fam.blat + fam.blon + fam.qlat + fam.qlon) \
                and rng.random() < 0.5:
            cfg0["container"] = "int"
        variants = []
        r_written = spell(rng, r_km)
        # schedule dimension
        exp = fam.expect(cfg0["metric"], r_written)
        if exhaustive:
            perms = [list(p) for p in itertools.permutations(range(n))]
        else:
            perms = sampled_perms(rng, n, exp, perms_per_radius)
        for i, p in enumerate(perms):
            cfg = cfg0 if (exhaustive and i % 7) else dict(config_for(rng, n), metric=cfg0["metric"],
                                                           container=cfg0["container"])
            variants.append(dict(cfg, shuffle=True, perm=p, r=r_written))
        # configuration dimension on the same written radius
        variants.append(dict(cfg0, shuffle=False, r=r_written))
        variants.append(dict(cfg0, shuffle=True, perm=None, np_seed=rng.randrange(2 ** 31),
                             r=r_written, shuffle_explicit=True))
        for tree in ("Ball", "KD"):
            variants.append(dict(cfg0, tree=tree, leaf=rng.choice([1, 2, 5, 30, 100]),
                                 shuffle=rng.random() < 0.5, r=r_written,
                                 np_seed=rng.randrange(2 ** 31)))
        # spelling dimension: same radius in other units / as a number
        for _ in range(3):
            variants.append(dict(cfg0, r=spell(rng, r_km), shuffle=rng.random() < 0.7,
                                 np_seed=rng.randrange(2 ** 31), r_kw=True))
        # the other metric on the same points
        other = "haversine" if cfg0["metric"] != "haversine" else None
        variants.append(dict(cfg0, metric=other, tree=None, r=r_written, shuffle=True,
                             np_seed=rng.randrange(2 ** 31)))
        for v in variants:
            case = dict(base, rcls=rcls, **v)
            for k in ("perm", "np_seed", "leaf", "tree", "metric"):
                case.setdefault(k, None)
            run_geo_case(rec, case, fam)


def witnesses():
    """Fixed regression witnesses of the defects found while building this check (no special
    treatment: if one fails it is a violation)."""
    pts = {"blat": [0.0, 10.0, 20.0], "blon": [0.0, 10.0, 20.0]}
    return [
        dict(pts, kind="geo", cls="witness", qlat=[0.0], qlon=[0.0], r=1, shuffle=False),
        dict(pts, kind="geo", cls="witness", qlat=[10.0], qlon=[10.0], r=1, shuffle=True,
             perm=[1, 0, 2]),
        dict(pts, kind="geo", cls="witness", qlat=[0.0, 10.1], qlon=[0.0, 10.0], r=100,
             metric="haversine", shuffle=False),
        dict(pts, kind="geo", cls="witness", qlat=[10.0001], qlon=[10.0], r="2000 cm",
             shuffle=False),
        dict(pts, kind="geo", cls="witness", qlat=[10.0, 20.0], qlon=[10.0, 20.0], r=1,
             shuffle=True, perm=[2, 0, 1], rd=False),
    ]


def run_perm(spec, rec):
    rng = rng_for(spec["seed"], "c06-perm", spec["shard"])
    assert_earth_radius(rec)
    with SplitMonitor(rec):
        if spec["shard"] == 0:
            for case in witnesses():
                run_geo_case(rec, case)
                rec.count("witnesses")
        sizes = [1, 2, 2, 3, 3, 3, 4, 4, 4, 5, 5, 6]
        for i in range(spec["n"]):
            n = sizes[(i + spec["shard"]) % len(sizes)]
            cls = POINT_CLASSES[(i * 5 + spec["shard"]) % len(POINT_CLASSES)]
            nq = rng.choice([1, 1, 2, 3])
            blat, blon, qlat, qlon = gen_points(rng, cls, n, nq)
            fam = Family(blat, blon, qlat, qlon, cls)
            base = {"kind": "geo", "cls": cls, "blat": blat, "blon": blon, "qlat": qlat,
                    "qlon": qlon}
            metric = rng.choice([None, "haversine"])
            k = 3 if n <= 4 else (2 if n == 5 else 1)
            radii = gen_radii(rng, fam.oracle, metric, k)
            if cls == "dups":
                radii[0] = ("zero", 0)
            if i < 2:
                rec.sample(dict(base, radii=[[c, float(r)] for c, r in radii]))
            run_family(rec, rng, fam, base, radii, exhaustive=True)


def run_bulk(spec, rec):
    rng = rng_for(spec["seed"], "c06-bulk", spec["shard"])
    assert_earth_radius(rec)
    with SplitMonitor(rec):
        for i in range(spec["n"]):
            big = (i % 5 == 4)
            if big:
                n = rng.choice([1000, 2500, 5000])
                nq = rng.choice([5, 20])
            else:
                n = rng.choice([7, 8, 12, 20, 33, 60, 150, 400])
                nq = rng.choice([1, 2, 5, 12, 40])
            many_q = (i % 40 == 3)
            if many_q:
                # thousands of query points against a small index (sizes around powers of two)
                n = rng.choice([3, 12, 40])
                nq = rng.choice([2049, 3000, 4097, 5000])
                big = True
            cls = POINT_CLASSES[(i * 3 + spec["shard"]) % len(POINT_CLASSES)]
            blat, blon, qlat, qlon = gen_points(rng, cls, n, nq)
            self_query = (i % 6 == 1) and not many_q and not big
            if self_query:
                qlat, qlon = list(blat), list(blon)
            fam = Family(blat, blon, qlat, qlon, cls)
            base = {"kind": "geo", "cls": cls, "blat": blat, "blon": blon, "qlat": qlat,
                    "qlon": qlon}
            if self_query:
                base["self_query"] = True
                rec.count("geo.self_query_families")
            if many_q:
                rec.count("geo.many_query_families")
            metric = rng.choice([None, "haversine"])
            radii = gen_radii(rng, fam.oracle, metric, 2 if big else 4)
            if big:
                # keep the python pair list of the implementation below ~2e5 entries
                import numpy as np
                d = np.sort(np.asarray(fam.oracle.dist(metric), dtype=float).ravel())
                cap = float(d[min(d.size - 1, 150000)])
                radii = [(c, r if r <= cap else cap * 0.999) for c, r in radii]
            if many_q:
                radii = radii[:1]
            run_family(rec, rng, fam, base, radii, exhaustive=False,
                       perms_per_radius=1 if many_q else 4 if big else 8)
            rec.maxi("geo.build_points", n)


def gen_range_case(rng):
    n = rng.choice([1, 2, 3, 3, 4, 5, 6, 9, 30, 200])
    nq = rng.choice([1, 2, 5])
    dtype = rng.choice(["float", "float", "int"])
    span = rng.choice([5, 100, 10 ** 6, 1.5e9])
    if dtype == "int":
        b = [rng.randint(-int(span), int(span)) for _ in range(n)]
        q = [rng.choice(b) + rng.randint(-3, 3) if rng.random() < 0.7 else
             rng.randint(-int(span), int(span)) for _ in range(nq)]
        r = rng.choice([0, 1, 2, 3, 10, int(span) // 3 + 1, 2.5])
    else:
        b = [rng.uniform(-span, span) for _ in range(n)]
        if rng.random() < 0.3:
            b = [rng.choice(b) for _ in range(n)]
        q = [rng.choice(b) + rng.choice([0, 0.5, -1.25, span / 7]) for _ in range(nq)]
        r = rng.choice([0, 0.5, 1.0, span / 10, span / 2, 3 * span])
    shuffle = rng.random() < 0.8
    perm = None
    if shuffle and rng.random() < 0.8:
        perm = list(range(n))
        rng.shuffle(perm)
    return {"kind": "range", "b": b, "q": q, "r": r, "dtype": dtype, "shuffle": shuffle,
            "perm": perm, "np_seed": rng.randrange(2 ** 31),
            "tree": rng.choice([None, "Ball", "KD"])}


def gen_split_case(rng):
    from vt.models import geoindex_model as gm
    num = rng.choice([5, 5000, 3.1, 0.25, 1e-3, 12345.678, 2.5e7, 7e-5, 1e21, 0.1 + 0.2])
    num = rng.choice([num, int(num) if float(num).is_integer() and num < 1e15 else num])
    fmt = rng.choice(["%r", "%s", "%.3f", "%.4e", "%.17g", "+%r", " %r", "%r "])
    try:
        numtxt = fmt % num
    except TypeError:
        numtxt = repr(num)
    unit = rng.choice(UNITS + ["", "GB", "frobnitzem", "K", "hPa"])
    sep = rng.choice(["", " ", "  ", "\t"])
    return {"kind": "split", "text": numtxt + sep + unit + rng.choice(["", " "])}


def run_range(spec, rec):
    rng = rng_for(spec["seed"], "c06-range", spec["shard"])
    assert_earth_radius(rec)
    # all permutations of small range trees
    for n in (1, 2, 3, 4):
        b = [float(rng.randint(0, 6)) for _ in range(n)]
        for p in itertools.permutations(range(n)):
            for r in (0, 1, 2.5):
                run_range_case(rec, {"kind": "range", "b": b, "q": [b[0], b[-1] + 1.0], "r": r,
                                     "dtype": "float", "shuffle": True, "perm": list(p),
                                     "tree": None})
    for i in range(spec["n"] * 6):
        run_range_case(rec, gen_range_case(rng))
    for i in range(spec["n"] * 10):
        case = gen_split_case(rng)
        try:
            check_split(rec, case)
        except ValueError:
            rec.count("split_units.model_cannot_parse")
    # the geo witnesses of the spelled radii through the real to_kilometers, every unit once
    with SplitMonitor(rec):
        for unit in UNITS:
            from vt.models import geoindex_model as gm
            blat, blon, qlat, qlon = gen_points(rng, "cluster", 5, 2)
            fam = Family(blat, blon, qlat, qlon, "cluster")
            base = {"kind": "geo", "cls": "cluster", "blat": blat, "blon": blon, "qlat": qlat,
                    "qlon": qlon}
            for rcls, r_km in gen_radii(rng, fam.oracle, None, 3):
                if r_km == 0:
                    continue
                case = dict(base, rcls=rcls, r=gm.spell_radius(r_km, unit, rng.randrange(7)),
                            shuffle=False, metric=None, tree=None, leaf=None, perm=None,
                            np_seed=None)
                run_geo_case(rec, case, fam)


def run_shard(spec, rec):
    if spec["kind"] == "perm":
        return run_perm(spec, rec)
    if spec["kind"] == "bulk":
        return run_bulk(spec, rec)
    return run_range(spec, rec)


def replay(case, rec):
    kind = case.get("kind")
    if kind == "geo":
        with SplitMonitor(rec):
            check_geo(rec, case)
    elif kind == "range":
        check_range(rec, case)
    elif kind == "split":
        check_split(rec, case)
    elif kind == "earth-radius":
        assert_earth_radius(rec)
    else:
        rec.inconc("unknown case kind %r" % (kind,))


def evidence_extra(counters, sets):
    perms = sets.get("perm.distinct", set())
    by_n = {}
    for p in perms:
        n = p.split(":")[0]
        by_n[n] = by_n.get(n, 0) + 1
    return {"exhaustive_parts": "all n! permutations of the shuffle installed for every family "
                                "with n <= 6 build points (%d families)"
                                % counters.get("perm.exhaustive_families", 0),
            "distinct_permutations_installed_by_n": by_n,
            "level_note": "KD tree + haversine metric is rejected by scikit-learn and not covered"}
