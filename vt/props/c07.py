"""C07 - geodesy: coordinate conversions invert each other, distances are true metrics.

Technique: runtime monitoring.  The real typhon.geodesy functions are executed on generated
hostile inputs; verdicts come from (i) icontract post-conditions installed on the real functions
(so calls made *inside* typhon - geodetic2geocentric -> geodetic2cart -> cart2geocentric,
tunnel_distance -> geocentric2cart, cart2geodetic(sphere) -> cart2geocentric - are observed too)
and (ii) a relational driver for the multi-call identities.  The oracle is
vt.models.geodesy_model (textbook closed forms in numpy.longdouble, no typhon import); ellipsoid
parameters are read from typhon.geodesy.ellipsoidmodels() at run time.

Where each clause of the statement is decided
  "geodetic <-> cartesian <-> geocentric are mutually inverse to 1 cm / 1e-7 deg"
      seq_conv : geodetic->cart->geodetic [roundtrip-geodetic-cart-geodetic], cart->geodetic->cart
                 [roundtrip-cart-geodetic-cart], cart->geocentric->cart and geocentric->cart->
                 geocentric [roundtrip-cart-geocentric], geodetic->geocentric->geodetic and back
                 [roundtrip-geodetic-geocentric];  seq_cart: the same starting from cartesian points
                 (incl. the geocentric-latitude = 1 rad class);  post-conditions: forward maps equal
                 the closed form [geodetic2cart-closed-form, geocentric2cart-closed-form], inverse maps
                 pushed through the model's forward map reproduce the input
                 [cart2geodetic-inverse, cart2geocentric-inverse]
  "the direct and the composed routes agree"          seq_conv [composed-vs-direct]
  "points on the ellipsoid have the radius given by ellipsoid_r_geodetic / _geocentric"
      seq_radius [surface-radius-geodetic, surface-radius-geocentric]; post-condition
      [ellipsoid-r-closed-form]
  "poslos conversions return the original zenith and azimuth angles"
      seq_los [poslos-angles, poslos-position]; post-conditions [poslos-forward-closed-form,
      poslos-angle-range]
  great_circle_distance / tunnel_distance
      "symmetric"  seq_pair [gcd-symmetry, tunnel-symmetry]
      "zero exactly for coincident points"  seq_pair [gcd-identity, tunnel-identity]
      "bounded by half the circumference / the diameter"  post-conditions + seq_pair
                   [gcd-bound, tunnel-bound]
      "triangle inequality"  seq_triple [gcd-triangle, tunnel-triangle]
      "invariant under a common shift in longitude"  seq_pair [gcd-lonshift, tunnel-lonshift]
      "chord = 2 R sin(arc / 2)"  seq_pair [chord-arc-identity]
  "scalar and array arguments of any broadcastable shape"
      every sequence is driven with python scalars, 0-d arrays, size 1-3 arrays, 1-d, 2-d and
      mixed broadcast shapes [*-shape keys, geodesy-exception]

Tolerances: conversions use the statement's own 1 cm (lengths, 3-D position error) and 1e-7 deg
(angles, longitudes modulo 360).  LOS angles: 1e-7 deg plus the rounding bound of the documented
acos formulation (condition 1/sin za, 1/sin^2 za for the azimuth; see seq_los).  Distances: the
relational facts are checked up to the forward rounding bound of the documented haversine / chord
formula in float64 (geodesy_model.arc_bound / chord_bound); "zero for coincident points" is exact.
"""
import os
import random
import traceback

import numpy as np

from vt.core import np_rng_for, Recorder
from vt.models import geodesy_model as M
from vt.monitors import concurrency, history

ID = "C07"
LEVEL = "exploration"
RULE = ("positions drawn per ellipsoid (all six of ellipsoidmodels) from hostile classes: latitude "
        "uniform in [-88,88] / special {0,+-1e-9,+-45,+-88,...} / 80-88 / 86-88 / geocentric latitude "
        "= 1 rad; longitude uniform / special {+-180,0,+-90,+-(180-1e-9)}; height uniform in "
        "[-10 km,1000 km] / special {0,-1e4,1e6,+-1e-3}; call shapes: python scalars, 0-d, size 1-3, "
        "1-d, 2-d, mixed broadcast; LOS angles za in [1e-3,180-1e-3], aa in [-180,180] incl. 0/90/180; "
        "point pairs/triples: random, coincident, 1e-9..1e-6 deg apart, antipodal, >179 deg, meridian, "
        "parallel, date line, polar, collinear.  evaluations = array ELEMENTS (one position / pair / "
        "triple pushed through one monitored sequence of real typhon calls), not calls.  non-trivial = "
        "eccentric ellipsoid or |lat| > 80 or separation < 1e-6 deg or > 179 deg; distinct by (coarse "
        "class signature, inputs rounded to 1e-9); at most a few thousand non-trivial elements are "
        "registered per shard (subsample), so distinct_nontrivial is a lower bound")
ASSUMPTIONS = [
    "oracle: prime-vertical-radius closed form geodetic->ECEF, spherical->ECEF, semi-axes forms of the "
    "ellipsoid radii, ENU line-of-sight vector, atan2 central angle - all in numpy.longdouble (64-bit "
    "mantissa); inverse conversions are judged by pushing typhon's answer through the model's forward map",
    "ellipsoid = (semi-major axis, eccentricity) as documented; read from ellipsoidmodels() at run time",
    "tolerance conversions: 1 cm on lengths / 3-D position, 1e-7 deg on angles (longitude modulo 360) - "
    "the statement's own numbers",
    "tolerance LOS angles: 1e-7 deg + 2*min(dc/|sin|, sqrt(2 dc)) with dc = u(170 + 6 tan|lat|) for za and "
    "dc/sin(za) + |cos aa cos za| dc/sin^2(za) for aa: forward error of acos(dr), acos(r dlat / sin za) "
    "in float64 (statement gives no number for 'returns the original angles')",
    "tolerance distances: symmetric / triangle / shift / chord identities up to the float64 forward-error "
    "bound of the haversine (u(2S+8)/max(cos(arc/2), sqrt(.)) rad) and of the 3-D chord (R u (2 sqrt3 (6+S)+8)); "
    "zero for identical coordinates is exact; bounds allow 4 ulp",
    "libm sin/cos/asin/acos/atan2/sqrt of numpy are accurate to 1 ulp",
    "domain: |lat| <= 88, heights -10 km .. 1000 km above the ellipsoid, LOS >= 1e-3 deg away from "
    "zenith/nadir; the optional lat0/lon0/za0/aa0/ppc arguments (singular-case helpers) are not exercised",
]
MIN_NONTRIVIAL = {"quick": 4000, "thorough": 12000}
REQUIRED_COUNTERS = {
    "post.geodetic2cart.calls": 100, "post.cart2geodetic.calls": 100,
    "post.cart2geocentric.calls": 100, "post.geocentric2cart.calls": 100,
    "post.ellipsoid_r_geodetic.calls": 20, "post.ellipsoid_r_geocentric.calls": 20,
    "post.geocentricposlos2cart.calls": 20, "post.cartposlos2geocentric.calls": 20,
    "post.great_circle_distance.calls": 100, "post.tunnel_distance.calls": 100,
    "seq.conv.elements": 10000, "seq.cart.1rad.elements": 20, "seq.radius.elements": 1000,
    "seq.los.elements": 1000, "seq.pair.elements": 1000, "seq.triple.elements": 1000,
    "seq.conv.scalar_calls": 50,
}
SHARD_TIMEOUT = {"quick": 600, "thorough": 7200}

TOL_M = M.LD("0.01")
TOL_DEG = M.LD("1e-7")
U = M.LD(M.U)


def shards(tier, seed):
    q = tier == "quick"
    out = []
    for i in range(8):
        out.append({"kind": "conv", "seed": seed, "shard": i, "n": 12000 if q else 400000})
    for i in range(3):
        out.append({"kind": "los", "seed": seed, "shard": i, "n": 50000 if q else 1500000})
    for i in range(5):
        out.append({"kind": "dist", "seed": seed, "shard": i, "n": 50000 if q else 1500000})
    return out


# --------------------------------------------------------------------------------------
# plumbing
# --------------------------------------------------------------------------------------
class Breach(Exception):
    """Raised by a post-condition (icontract error=)."""

    def __init__(self, key, case, detail):
        Exception.__init__(self, key)
        self.key, self.case, self.detail = key, case, detail


class Abort(Exception):
    pass


_S = {"rec": None, "g": None, "ells": None, "orig": {}, "last": None, "R": None}


def _num(v):
    v = float(v)
    return v


def _first(bad):
    return int(np.flatnonzero(np.asarray(bad).ravel())[0])


def _elem(v, shape, i):
    return _num(np.broadcast_to(np.asarray(v, dtype=float), shape).flat[i])


def _detail_at(detail, shape, i):
    out = {}
    for k, v in detail.items():
        try:
            out[k] = float(np.broadcast_to(np.asarray(v), shape).flat[i])
        except Exception:
            out[k] = repr(v)
    return out


def _stash(key, func, args, ell, bad, detail):
    """Post-condition failed: remember the first failing element as a replayable case."""
    bad = np.asarray(bad)
    shape = bad.shape
    i = _first(bad)
    case = {"kind": "contract", "func": func,
            "args": {k: _elem(v, shape, i) for k, v in args.items()}}
    if ell is not None:
        case["ell"] = [float(ell[0]), float(ell[1])]
    _S["last"] = (key, case, dict(_detail_at(detail, shape, i), failing_elements=int(bad.sum()),
                                   call_shape=list(shape)))
    return False


def _breach():
    key, case, detail = _S["last"]
    return Breach(key, case, detail)


def _ell(ellipsoid):
    return _S["ells"]["WGS84"] if ellipsoid is None else ellipsoid


def _cnt(name, n):
    rec = _S["rec"]
    rec.count("post.%s.calls" % name)
    rec.count("post.%s.elements" % name, int(n))


def classify_inverse(ell, x, y, z, h_got, lat_got, lon_got, default):
    """Name the mechanism of a wrong cart2geodetic answer for ONE element: if the returned
    latitude is within the documented stop criterion (1e-10 rad) of the true one, the longitude is
    right and the height error is what that latitude error implies (h = p / cos(B) - N), it is the
    stop criterion."""
    try:
        if ell[1] == 0:
            return default
        h_t, lat_t = M.ecef_to_geodetic(ell[0], ell[1], x, y, z)
        dphi = abs(M.LD(lat_got) - lat_t) * M.D2R
        if not (dphi <= M.LD("1.001e-10")):
            return default
        lon_t = np.arctan2(M.LD(y), M.LD(x)) * M.R2D
        if not (M.angle_diff(lon_got, lon_t) <= M.LD("1e-9")):
            return default
        p = np.hypot(M.LD(x), M.LD(y))
        implied = p / np.cos(lat_t * M.D2R) * np.tan(abs(lat_t) * M.D2R) * dphi
        if abs(M.LD(h_got) - h_t) <= 1.1 * implied + M.LD("1e-6"):
            return "cart2geodetic-stop-criterion-height"
    except Exception:
        pass
    return default


# ---- post-conditions (named condition functions, error=_breach) --------------------------
def post_geodetic2cart(h, lat, lon, ellipsoid, result):
    ell = _ell(ellipsoid)
    err = M.dist3(result, M.geodetic_to_ecef(ell[0], ell[1], h, lat, lon))
    _cnt("geodetic2cart", err.size)
    _S["rec"].maxi("geodetic2cart.err_m", float(np.max(err)) if err.size else 0.0)
    bad = ~(err <= TOL_M)
    if bad.any():
        return _stash("geodetic2cart-closed-form", "geodetic2cart",
                      {"h": h, "lat": lat, "lon": lon}, ell, bad, {"err_m": err})
    return True


def post_cart2geodetic(x, y, z, ellipsoid, result):
    ell = _ell(ellipsoid)
    err = M.dist3(M.geodetic_to_ecef(ell[0], ell[1], *result), (x, y, z))
    _cnt("cart2geodetic", err.size)
    _S["rec"].maxi("cart2geodetic.err_m", float(np.nanmax(err)) if err.size else 0.0)
    bad = ~(err <= TOL_M)
    if bad.any():
        shape = bad.shape
        i = _first(bad)
        key = classify_inverse(ell, _elem(x, shape, i), _elem(y, shape, i), _elem(z, shape, i),
                               _elem(result[0], shape, i), _elem(result[1], shape, i),
                               _elem(result[2], shape, i), "cart2geodetic-inverse")
        return _stash(key, "cart2geodetic", {"x": x, "y": y, "z": z}, ell, bad,
                      {"err_m": err, "h": result[0], "lat": result[1], "lon": result[2]})
    return True


def post_cart2geocentric(x, y, z, lat0, result):
    if lat0 is not None:
        return True
    err = M.dist3(M.spherical_to_ecef(*result), (x, y, z))
    _cnt("cart2geocentric", err.size)
    bad = ~(err <= TOL_M)
    if bad.any():
        return _stash("cart2geocentric-inverse", "cart2geocentric", {"x": x, "y": y, "z": z},
                      None, bad, {"err_m": err, "r": result[0], "lat": result[1], "lon": result[2]})
    return True


def post_geocentric2cart(r, lat, lon, result):
    err = M.dist3(result, M.spherical_to_ecef(r, lat, lon))
    _cnt("geocentric2cart", err.size)
    bad = ~(err <= TOL_M)
    if bad.any():
        return _stash("geocentric2cart-closed-form", "geocentric2cart",
                      {"r": r, "lat": lat, "lon": lon}, None, bad, {"err_m": err})
    return True


def post_ellipsoid_r_geodetic(ellipsoid, lat, result):
    err = np.abs(M.ld(result) - M.r_surface_geodetic(ellipsoid[0], ellipsoid[1], lat))
    _cnt("ellipsoid_r_geodetic", err.size)
    bad = ~(err <= TOL_M) | (np.shape(result) != np.shape(lat))
    if np.any(bad):
        return _stash("ellipsoid-r-closed-form", "ellipsoid_r_geodetic", {"lat": lat}, ellipsoid,
                      np.broadcast_to(bad, err.shape), {"err_m": err})
    return True


def post_ellipsoid_r_geocentric(ellipsoid, lat, result):
    err = np.abs(M.ld(result) - M.r_surface_geocentric(ellipsoid[0], ellipsoid[1], lat))
    _cnt("ellipsoid_r_geocentric", err.size)
    bad = ~(err <= TOL_M) | (np.shape(result) != np.shape(lat))
    if np.any(bad):
        return _stash("ellipsoid-r-closed-form", "ellipsoid_r_geocentric", {"lat": lat}, ellipsoid,
                      np.broadcast_to(bad, err.shape), {"err_m": err})
    return True


def post_geocentricposlos2cart(r, lat, lon, za, aa, result):
    x, y, z, dx, dy, dz = result
    perr = M.dist3((x, y, z), M.spherical_to_ecef(r, lat, lon))
    ref = M.los_vector(lat, lon, za, aa)
    derr = np.maximum.reduce([np.abs(M.ld(a) - b) for a, b in zip((dx, dy, dz), ref)])
    _cnt("geocentricposlos2cart", derr.size)
    # three products of three factors each carrying <= 4u (trig of a converted angle): <= 48u
    bad = ~(perr <= TOL_M) | ~(derr <= 64 * U)
    if bad.any():
        return _stash("poslos-forward-closed-form", "geocentricposlos2cart",
                      {"r": r, "lat": lat, "lon": lon, "za": za, "aa": aa}, None, bad,
                      {"pos_err_m": perr, "los_err": derr})
    return True


def post_cartposlos2geocentric(x, y, z, dx, dy, dz, ppc, lat0, result):
    if ppc is not None or lat0 is not None:
        return True
    r, lat, lon, za, aa = result
    _cnt("cartposlos2geocentric", np.size(za))
    bad = ~((za >= 0) & (za <= 180) & (aa >= -180) & (aa <= 180))
    if bad.any():
        return _stash("poslos-angle-range", "cartposlos2geocentric",
                      {"x": x, "y": y, "z": z, "dx": dx, "dy": dy, "dz": dz}, None, bad,
                      {"za": za, "aa": aa})
    return True


def post_great_circle_distance(lat1, lon1, lat2, lon2, r, result):
    d = np.asarray(result, dtype=float)
    _cnt("great_circle_distance", d.size)
    top = 180.0 if r is None else np.pi * np.asarray(r, dtype=float)
    same = (np.asarray(lat1) == np.asarray(lat2)) & (np.asarray(lon1) == np.asarray(lon2))
    bad = ~((d >= 0) & (d <= top * (1 + 8 * M.U))) | (same & (d != 0))
    if np.any(bad):
        args = {"lat1": lat1, "lon1": lon1, "lat2": lat2, "lon2": lon2}
        if r is not None:
            args["r"] = r
        bad = np.broadcast_to(bad, np.broadcast(bad, d).shape)
        key = "gcd-identity" if np.any(same & (d != 0)) and not np.any(~((d >= 0) & (d <= top * (1 + 8 * M.U)))) \
            else "gcd-bound"
        return _stash(key, "great_circle_distance", args, None, bad, {"distance": d})
    return True


def post_tunnel_distance(lat1, lon1, lat2, lon2, result):
    d = np.asarray(result, dtype=float)
    _cnt("tunnel_distance", d.size)
    top = 2 * _S["R"]
    bad = ~((d >= 0) & (d <= top * (1 + 64 * M.U)))
    if np.any(bad):
        try:
            full = np.broadcast_to(bad, np.broadcast(bad, lat1, lon1, lat2, lon2).shape)
            return _stash("tunnel-bound", "tunnel_distance",
                          {"lat1": lat1, "lon1": lon1, "lat2": lat2, "lon2": lon2}, None, full,
                          {"distance": d})
        except Exception:
            _S["last"] = ("tunnel-bound", {"kind": "contract", "func": "tunnel_distance", "args": {}},
                          {"note": "result not broadcastable against the arguments"})
            return False
    return True


POSTS = {
    "geodetic2cart": post_geodetic2cart, "cart2geodetic": post_cart2geodetic,
    "cart2geocentric": post_cart2geocentric, "geocentric2cart": post_geocentric2cart,
    "ellipsoid_r_geodetic": post_ellipsoid_r_geodetic,
    "ellipsoid_r_geocentric": post_ellipsoid_r_geocentric,
    "geocentricposlos2cart": post_geocentricposlos2cart,
    "cartposlos2geocentric": post_cartposlos2geocentric,
    "great_circle_distance": post_great_circle_distance, "tunnel_distance": post_tunnel_distance,
}


def install(rec):
    """Arm the post-conditions on the real module attributes (idempotent per process)."""
    import warnings
    import icontract
    import typhon.geodesy as g
    from typhon import constants
    warnings.filterwarnings("ignore")
    np.seterr(all="ignore")
    _S["rec"] = rec
    if _S["g"] is None:
        em = g.ellipsoidmodels()
        _S["ells"] = {name: tuple(em[name]) for name in em.models}
        _S["R"] = float(constants.earth_radius)
        for name, cond in POSTS.items():
            if os.environ.get("VT_SELFTEST_NO_POST"):   # self-test only: relational driver on its own
                break
            orig = getattr(g, name)
            _S["orig"][name] = orig
            setattr(g, name, icontract.ensure(cond, error=_breach)(orig))
        _S["g"] = g
    return g


# --------------------------------------------------------------------------------------
# sequences: one monitored chain of real calls on a batch; return a list of failures
# --------------------------------------------------------------------------------------
class Fails(list):
    def add(self, key, idx, detail, case=None):
        self.append({"key": key, "idx": idx, "detail": detail, "case": case})

    def check(self, key, bad, detail, classify=None):
        bad = np.asarray(bad)
        if bad.any():
            i = _first(bad)
            if classify is not None:
                key = classify(i, bad.shape) or key
            self.add(key, i, dict(_detail_at(detail, bad.shape, i),
                                  failing_elements=int(bad.sum()), batch_shape=list(bad.shape)))


def call(F, fname, *a, **kw):
    """Call the (contract-armed) real function; a breach or an exception ends the sequence."""
    before = [v.copy() if isinstance(v, np.ndarray) else None for v in a]
    try:
        out = getattr(_S["g"], fname)(*a, **kw)
        for k, (v, b) in enumerate(zip(a, before)):
            if b is not None and not np.array_equal(v, b, equal_nan=True):
                F.add("input-mutated", None, {"func": fname, "argument": k})
                raise Abort()
        _S["n_" + fname] = _S.get("n_" + fname, 0) + 1   # per function: every one of them is sampled
        if _S["n_" + fname] % 4 == 1:
            # (the un-armed function: a post-condition that fires inside the history would end it as
            # "not applicable" instead of letting the comparison with the fresh call decide)
            verdict, detail = history.reuse_check(_S["orig"].get(fname) or getattr(_S["g"], fname), a, kw)
            hk = "history.reuse_%s.%s" % (verdict.replace("/", ""), fname)
            _S.setdefault("hist", {})[hk] = _S.setdefault("hist", {}).get(hk, 0) + 1
            if verdict == "stale":
                F.add("stale-state", None, dict(detail, func=fname))
                raise Abort()
        big = any(isinstance(v, np.ndarray) and v.ndim >= 1 and v.shape[0] >= 64 for v in a)
        if big:
            _S["c_" + fname] = _S.get("c_" + fname, 0) + 1    # (own counter: the first eight calls with arrays of a process, then about a third)
        if big and (_S["c_" + fname] <= 8 or random.Random(_S["c_" + fname]).random() < 0.34):   # (a fixed period would alias with the
            # fixed order of ellipsoids / sequences)
            # calls of the same shapes from several threads at once (vt/monitors/concurrency.py); the
            # variants are the arguments rolled along their first axis (values stay in the domain)
            fn0 = _S["orig"].get(fname) or getattr(_S["g"], fname)
            calls = [(fn0, tuple(np.roll(v, k * 7, axis=0) if isinstance(v, np.ndarray) and v.ndim >= 1
                                 and v.shape[0] >= 64 else v for v in a), dict(kw)) for k in range(4)]
            verdict, detail = concurrency.concurrent_check(calls, threads=4, rounds=3,
                                                           yield_in=getattr(_S["g"], "__file__", None))
            ecc = any(isinstance(v, tuple) and len(v) == 2 and v[1] > 0 for v in a) or \
                (fname in ("cart2geodetic", "geodetic2cart") and not any(isinstance(v, tuple) for v in a))
            hk = "concurrent.%s.%s%s" % (verdict.replace("/", ""), fname, ".eccentric" if ecc else "")
            _S.setdefault("hist", {})[hk] = _S.setdefault("hist", {}).get(hk, 0) + 1
            if verdict == "race":
                F.add("concurrent-calls-interfere", None, dict(detail, func=fname))
                raise Abort()
        if _S["n_" + fname] % 4 == 2:
            # the same call with the documented parameter names, written in the opposite order
            verdict, detail = history.keyword_check(_S["orig"].get(fname) or getattr(_S["g"], fname), a, kw, out)
            hk = "keywords.%s.%s" % (verdict.replace("/", ""), fname)
            _S.setdefault("hist", {})[hk] = _S.setdefault("hist", {}).get(hk, 0) + 1
            if verdict in ("differs", "raises"):
                F.add("keyword-call-differs", None, dict(detail, func=fname))
                raise Abort()
        return out
    except Breach as b:
        F.add(b.key, None, dict(b.detail, inside=fname), case=b.case)
        raise Abort()
    except Exception as exc:
        F.add("geodesy-exception", None,
              {"func": fname, "exception": repr(exc), "trace": traceback.format_exc()[-700:]})
        raise Abort()


def cmp_sph(got, want):
    """(length, lat, lon) triples: 1 cm / 1e-7 deg / 1e-7 deg modulo 360."""
    dl = np.abs(M.ld(got[0]) - M.ld(want[0]))
    dlat = np.abs(M.ld(got[1]) - M.ld(want[1]))
    dlon = M.angle_diff(got[2], want[2])
    bad = ~((dl <= TOL_M) & (dlat <= TOL_DEG) & (dlon <= TOL_DEG))
    return bad, {"d_len_m": dl, "d_lat_deg": dlat, "d_lon_deg": dlon}


def cmp_cart(got, want):
    d = M.dist3(got, want)
    return ~(d <= TOL_M), {"pos_err_m": d}


def _cls(E, X, H, want=None, X2=None):
    """classifier for a failing element of an answer H = (h, lat, lon) to the cartesian point X.
    The stop-criterion mechanism is only named when it explains the observed discrepancy: the
    forward map that produced X from `want` (or X2 from H) must itself agree with the model."""
    def cls(i, shape):
        x, y, z = (_elem(v, shape, i) for v in X)
        h, lat, lon = (_elem(v, shape, i) for v in H)
        try:
            if want is not None:
                ref = M.geodetic_to_ecef(E[0], E[1], *(_elem(v, shape, i) for v in want))
                if not (M.dist3(ref, (x, y, z)) <= M.LD("1e-4")):
                    return None
            if X2 is not None:
                ref = M.geodetic_to_ecef(E[0], E[1], h, lat, lon)
                if not (M.dist3(ref, tuple(_elem(v, shape, i) for v in X2)) <= M.LD("1e-4")):
                    return None
        except Exception:
            return None
        return classify_inverse(E, x, y, z, h, lat, lon, None)
    return cls


def _cart_part(F, E, X, H2):
    """cart -> geodetic -> cart, cart -> geocentric -> cart -> geocentric for X (H2 = cart2geodetic(X))."""
    X2 = call(F, "geodetic2cart", *H2, E)
    F.check("roundtrip-cart-geodetic-cart", *cmp_cart(X2, X), classify=_cls(E, X, H2, X2=X2))
    G = call(F, "cart2geocentric", *X)
    X3 = call(F, "geocentric2cart", *G)
    F.check("roundtrip-cart-geocentric", *cmp_cart(X3, X))
    G2 = call(F, "cart2geocentric", *X3)
    F.check("roundtrip-cart-geocentric", *cmp_sph(G2, G))
    return G


def seq_conv(ell, A):
    F = Fails()
    E = _S["ells"][ell]
    h, lat, lon = A["h"], A["lat"], A["lon"]
    # the documented default (ellipsoid=None -> WGS84) is exercised on the small WGS84 calls
    Ea = () if (ell == "WGS84" and A.get("_tag") in ("scalar", "small")) else (E,)
    try:
        X = call(F, "geodetic2cart", h, lat, lon, *Ea)
        H2 = call(F, "cart2geodetic", *X, *Ea)
        F.check("roundtrip-geodetic-cart-geodetic", *cmp_sph(H2, (h, lat, lon)),
                classify=_cls(E, X, H2, want=(h, lat, lon)))
        G = _cart_part(F, E, X, H2)
        Gd = call(F, "geodetic2geocentric", h, lat, lon, *Ea)
        F.check("composed-vs-direct", *cmp_sph(Gd, G))
        Hd = call(F, "geocentric2geodetic", *G, *Ea)
        F.check("composed-vs-direct", *cmp_sph(Hd, H2))
        F.check("roundtrip-geodetic-geocentric", *cmp_sph(Hd, (h, lat, lon)),
                classify=_cls(E, X, Hd, want=(h, lat, lon)))
        # the spherical conversion with the arguments in their original (possibly different) shapes;
        # values are judged by the installed post-condition, exceptions by call()
        # (each output only has to broadcast against the others: z = r sin(lat) does not depend on lon)
        Xs = call(F, "geocentric2cart", np.asarray(E[0]) + h, lat, lon)
        Gdd = call(F, "geodetic2geocentric", *Hd, *Ea)
        F.check("roundtrip-geodetic-geocentric", *cmp_sph(Gdd, G), classify=_cls(E, X, Hd, want=(h, lat, lon)))
    except Abort:
        pass
    return F


def seq_cart(ell, A):
    F = Fails()
    E = _S["ells"][ell]
    X = (A["x"], A["y"], A["z"])
    try:
        try:
            H2 = _S["g"].cart2geodetic(*X, E)
        except Breach as b:
            F.add(b.key, None, dict(b.detail, inside="cart2geodetic"), case=b.case)
            raise Abort()
        except UnboundLocalError as exc:
            b0 = np.arctan2(np.asarray(X[2], dtype=float), np.hypot(X[0], X[1]))
            key = ("cart2geodetic-unbound-at-1rad" if E[1] > 0 and np.all(np.abs(b0 - 1.0) <= 1e-10)
                   else "geodesy-exception")
            F.add(key, 0, {"func": "cart2geodetic", "exception": repr(exc),
                           "geocentric_latitude_rad": float(np.ravel(b0)[0])})
            raise Abort()
        except Exception as exc:
            F.add("geodesy-exception", None, {"func": "cart2geodetic", "exception": repr(exc),
                                              "trace": traceback.format_exc()[-700:]})
            raise Abort()
        G = _cart_part(F, E, X, H2)
        Hd = call(F, "geocentric2geodetic", *G, E)
        F.check("composed-vs-direct", *cmp_sph(Hd, H2))
    except Abort:
        pass
    return F


def seq_radius(ell, A):
    F = Fails()
    E = _S["ells"][ell]
    lat, lon = A["lat"], A["lon"]
    zero = 0.0 if np.ndim(lat) == 0 and not isinstance(lat, np.ndarray) else np.zeros(np.shape(lat))
    try:
        X0 = call(F, "geodetic2cart", zero, lat, lon, E)
        rg = call(F, "ellipsoid_r_geodetic", E, lat)
        d = np.abs(M.norm3(X0) - M.ld(rg))
        F.check("surface-radius-geodetic", ~(d <= TOL_M), {"d_radius_m": d})
        G0 = call(F, "geodetic2geocentric", zero, lat, lon, E)
        rc = call(F, "ellipsoid_r_geocentric", E, G0[1])
        d = np.abs(M.ld(G0[0]) - M.ld(rc))
        F.check("surface-radius-geocentric", ~(d <= TOL_M), {"d_radius_m": d})
    except Abort:
        pass
    return F


def seq_los(ell, A):
    """geocentricposlos2cart -> cartposlos2geocentric returns (r, lat, lon, za, aa).
    Angle tolerance = 1e-7 deg + rounding bound of the documented formulation
        za = acos(dr), aa = +-acos(r dlat / sin za):
    dr and r*dlat are sums of three products of direction cosines; each factor carries <= 4u
    (trig of a converted angle), the LOS components <= 48u (+3u normalisation), the recovered
    latitude asin(z/r) 2u tan|lat| -> every product <= (56 + 2 tan|lat|) u, the sums
    dc = u (170 + 6 tan|lat|).  acos turns dc into 2 min(dc/|sin|, sqrt(2 dc)).  For aa the
    argument is divided by sin(za) (-> dc/sin za) and sin(za) itself inherits the error of za
    (-> |cos aa cos za| dc / sin^2 za)."""
    F = Fails()
    r, lat, lon, za, aa = A["r"], A["lat"], A["lon"], A["za"], A["aa"]
    try:
        try:
            C = _S["g"].geocentricposlos2cart(r, lat, lon, za, aa)
            S = _S["g"].cartposlos2geocentric(*C)
        except Breach as b:
            F.add(b.key, None, b.detail, case=b.case)
            raise Abort()
        except Exception as exc:
            # mechanism: the same elements as one flat 1-d batch go through -> it is the shape
            bc = np.broadcast(r, lat, lon, za, aa)
            key = "geodesy-exception"
            if bc.ndim >= 2:
                try:
                    flat = [np.broadcast_to(v, bc.shape).ravel() for v in (r, lat, lon, za, aa)]
                    _S["g"].cartposlos2geocentric(*_S["g"].geocentricposlos2cart(*flat))
                    key = "poslos-nd-shape"
                except Exception:
                    pass
            F.add(key, None, {"func": "poslos", "exception": repr(exc), "ndim": bc.ndim,
                              "trace": traceback.format_exc()[-700:]})
            raise Abort()
        shape = np.broadcast(r, lat, lon, za, aa).shape or (1,)
        if tuple(np.shape(S[3])) != tuple(shape):
            F.add("poslos-nd-shape", None, {"got": list(np.shape(S[3])), "want": list(shape)})
            raise Abort()
        F.check("poslos-position", *cmp_sph(S[:3], (r, lat, lon)))
        zr, ar, lr = M.ld(za) * M.D2R, M.ld(aa) * M.D2R, M.ld(lat) * M.D2R
        dc = U * (170 + 6 * np.tan(np.abs(lr)))
        sz = np.abs(np.sin(zr))
        tol_za = TOL_DEG + M.acos_bound(zr, dc) * M.R2D
        tol_aa = TOL_DEG + M.acos_bound(ar, dc / sz + np.abs(np.cos(ar) * np.cos(zr)) * dc / sz ** 2) * M.R2D
        eza = np.abs(M.ld(S[3]) - M.ld(za))
        eaa = M.angle_diff(S[4], aa)
        _S["rec"].maxi("los.za_err_deg", float(np.nanmax(eza)))
        _S["rec"].maxi("los.aa_err_over_tol", float(np.nanmax(eaa / tol_aa)))
        F.check("poslos-angles", ~((eza <= tol_za) & (eaa <= tol_aa)),
                {"za_err_deg": eza, "aa_err_deg": eaa, "tol_za_deg": tol_za, "tol_aa_deg": tol_aa,
                 "za_back": S[3], "aa_back": S[4]})
    except Abort:
        pass
    return F


def _tunnel(F, tag, lat1, lon1, lat2, lon2):
    """tunnel_distance with the shape expectations of the quantifier ('any broadcastable shape')."""
    want = np.broadcast(lat1, lon1, lat2, lon2).shape
    try:
        t = _S["g"].tunnel_distance(lat1, lon1, lat2, lon2)
    except Breach as b:
        if len(want) >= 2 or tag == "mixed":
            F.add("tunnel-distance-nd-shape", None, dict(b.detail, want_shape=list(want)))
        else:
            F.add(b.key, None, b.detail, case=b.case)
        raise Abort()
    except Exception as exc:
        key = "tunnel-distance-nd-shape" if (len(want) >= 2 or tag == "mixed") else "geodesy-exception"
        F.add(key, None, {"func": "tunnel_distance", "exception": repr(exc), "want_shape": list(want)})
        raise Abort()
    got = tuple(np.shape(t))
    if got != tuple(want) and not (want == () and got == (1,)):
        F.add("tunnel-distance-nd-shape", None, {"got_shape": list(got), "want_shape": list(want)})
        raise Abort()
    return np.reshape(t, want)


def seq_pair(ell, A):
    F = Fails()
    g, R = _S["g"], M.LD(_S["R"])
    la1, lo1, la2, lo2, s = A["lat1"], A["lon1"], A["lat2"], A["lon2"], A["shift"]
    tag = A.get("_tag", "1d")
    try:
        d12 = call(F, "great_circle_distance", la1, lo1, la2, lo2)
        d21 = call(F, "great_circle_distance", la2, lo2, la1, lo1)
        m12 = call(F, "great_circle_distance", la1, lo1, la2, lo2, r=float(R))
        ds = call(F, "great_circle_distance", la1, lo1 + s, la2, lo2 + s)
        ta = M.arc(la1, lo1, la2, lo2)
        b = M.arc_bound(la1, lo1, la2, lo2, ta)
        bs = M.arc_bound(la1, lo1 + s, la2, lo2 + s, ta)
        same = (np.asarray(la1) == np.asarray(la2)) & (np.asarray(lo1) == np.asarray(lo2))
        d12l, d21l, m12l, dsl = (M.ld(v) for v in (d12, d21, m12, ds))
        F.check("gcd-bound", ~((d12l >= 0) & (d12l <= 180 * (1 + 4 * U)) & (m12l >= 0)
                               & (m12l <= M.PI * R * (1 + 4 * U))), {"deg": d12, "m": m12})
        F.check("gcd-identity", same & ((d12l != 0) | (m12l != 0) | (d21l != 0)), {"deg": d12, "m": m12})
        F.check("gcd-symmetry", ~(np.abs(d12l - d21l) <= 2 * b * M.R2D + 4 * U * d12l),
                {"d12": d12, "d21": d21})
        F.check("gcd-lonshift", ~(np.abs(dsl - d12l) <= (b + bs) * M.R2D + 4 * U * d12l),
                {"d": d12, "d_shifted": ds, "bound_deg": (b + bs) * M.R2D})
        t12 = _tunnel(F, tag, la1, lo1, la2, lo2)
        t21 = _tunnel(F, tag, la2, lo2, la1, lo1)
        ts = _tunnel(F, tag, la1, lo1 + s, la2, lo2 + s)
        cb = M.chord_bound(R, la1, lo1, la2, lo2)
        cbs = M.chord_bound(R, la1, lo1 + s, la2, lo2 + s)
        t12l, t21l, tsl = M.ld(t12), M.ld(t21), M.ld(ts)
        F.check("tunnel-bound", ~((t12l >= 0) & (t12l <= 2 * R + cb)), {"chord_m": t12})
        F.check("tunnel-identity", same & ((t12l != 0) | (t21l != 0)), {"chord_m": t12})
        F.check("tunnel-symmetry", ~(np.abs(t12l - t21l) <= 2 * cb), {"t12": t12, "t21": t21})
        F.check("tunnel-lonshift", ~(np.abs(tsl - t12l) <= cb + cbs),
                {"t": t12, "t_shifted": ts, "bound_m": cb + cbs})
        slack = cb + R * np.cos(ta / 2) * b + R * b * b / 4 + 4 * U * t12l
        e1 = np.abs(t12l - 2 * R * np.sin(d12l * M.D2R / 2))
        e2 = np.abs(t12l - 2 * R * np.sin(m12l / (2 * R)))
        _S["rec"].maxi("chord.err_over_bound", float(np.nanmax(np.maximum(e1, e2) / slack)))
        F.check("chord-arc-identity", ~((e1 <= slack) & (e2 <= slack)),
                {"chord_m": t12, "arc_deg": d12, "arc_m": m12, "mismatch_m": np.maximum(e1, e2),
                 "bound_m": slack})
    except Abort:
        pass
    return F


def seq_triple(ell, A):
    F = Fails()
    R = M.LD(_S["R"])
    P = [(A["lat%d" % k], A["lon%d" % k]) for k in (1, 2, 3)]
    tag = A.get("_tag", "1d")
    try:
        pairs = [(0, 1), (1, 2), (0, 2)]
        d = [M.ld(call(F, "great_circle_distance", *P[i], *P[j])) * M.D2R for i, j in pairs]
        ta = [M.arc(*P[i], *P[j]) for i, j in pairs]
        b = [M.arc_bound(*P[i], *P[j], t) for (i, j), t in zip(pairs, ta)]
        sb = b[0] + b[1] + b[2]
        bad = ~((d[2] <= d[0] + d[1] + sb) & (d[0] <= d[1] + d[2] + sb) & (d[1] <= d[0] + d[2] + sb))
        F.check("gcd-triangle", bad, {"ab_rad": d[0], "bc_rad": d[1], "ac_rad": d[2], "bound_rad": sb})
        t = [M.ld(_tunnel(F, tag, *P[i], *P[j])) for i, j in pairs]
        cb = sum(M.chord_bound(R, *P[i], *P[j]) for i, j in pairs)
        bad = ~((t[2] <= t[0] + t[1] + cb) & (t[0] <= t[1] + t[2] + cb) & (t[1] <= t[0] + t[2] + cb))
        F.check("tunnel-triangle", bad, {"ab_m": t[0], "bc_m": t[1], "ac_m": t[2], "bound_m": cb})
    except Abort:
        pass
    return F


SEQ = {"conv": seq_conv, "cart": seq_cart, "radius": seq_radius, "los": seq_los,
       "pair": seq_pair, "triple": seq_triple}


# --------------------------------------------------------------------------------------
# driver: evaluation accounting, shrinking, non-trivial registration
# --------------------------------------------------------------------------------------
def _names(A):
    return [k for k in A if not k.startswith("_")]


def _size(A):
    return int(np.broadcast(*[np.asarray(A[k]) for k in _names(A)]).size)


def build(args, tag):
    out = {}
    for k, v in args.items():
        if isinstance(v, list):
            out[k] = np.asarray(v, dtype=float)
            if tag == "1d-intr" and k == "r":
                out[k] = np.round(out[k]).astype(np.int64)
        elif tag == "0d":
            out[k] = np.array(float(v))
        else:
            out[k] = float(v)
    out["_tag"] = tag
    return out


def _listed(A):
    return {k: (np.asarray(A[k]).tolist() if isinstance(A[k], np.ndarray) else float(A[k]))
            for k in _names(A)}


def _probe(kind, ell, args, tag, key):
    """Does the sequence still fail with this key on the reduced input?"""
    real = _S["rec"]
    _S["rec"] = Recorder(ID, {})
    try:
        return any(f["key"] == key for f in SEQ[kind](ell, build(args, tag)))
    except Exception:
        return False
    finally:
        _S["rec"] = real


def shrink(kind, ell, A, tag, f):
    names = _names(A)
    shape = np.broadcast(*[np.asarray(A[k]) for k in names]).shape
    size = int(np.prod(shape)) if shape else 1
    base = {"kind": kind, "ell": ell}
    if size > 1 and tag not in ("2d", "mixed"):
        for i in ([f["idx"]] if f["idx"] is not None else []) + [0]:
            single = {k: _elem(A[k], shape, i) for k in names}
            for t in (("scalar",) if tag == "scalar" else ("one", "scalar")):
                args = single if t == "scalar" else {k: [v] for k, v in single.items()}
                if _probe(kind, ell, args, t, f["key"]):
                    return dict(base, tag=t, args=args)
    full = _listed(A)
    if size <= 300:
        return dict(base, tag=tag, args=full)
    i = f["idx"] or 0
    flat = {k: np.broadcast_to(np.asarray(A[k], dtype=float), shape).ravel() for k in names}
    for w in (8, 64, 256):
        lo = max(0, i - w // 2)
        args = {k: flat[k][lo:lo + w].tolist() for k in names}
        if _probe(kind, ell, args, "1d", f["key"]):
            return dict(base, tag="1d", args=args)
    return dict(base, tag="1d", not_minimal="fails only inside the full batch of %d elements" % size,
                args={k: flat[k][max(0, i - 4):i + 4].tolist() for k in names})


class Ctx:
    def __init__(self, rec, spec):
        self.rec, self.spec = rec, spec
        self.budget = 3000 if spec.get("n", 0) < 100000 else 6000
        self.samples = 0


def drive(ctx, kind, ell, A, tag, nt_sig=None, nt_mask=None, counter=None):
    rec = ctx.rec
    A = dict(A, _tag=tag)
    n = _size(A)
    rec.ev(n)
    rec.count("seq.%s.elements" % (counter or kind), n)
    rec.count("seq.%s.shape.%s" % (kind, tag))
    if tag == "scalar":
        rec.count("seq.%s.scalar_calls" % kind)
    if ctx.samples < 2 and n <= 3:
        ctx.samples += 1
        rec.sample({"kind": kind, "ell": ell, "tag": tag, "args": _listed(A)})
    try:
        F = SEQ[kind](ell, A)
    except Exception as exc:  # a fault of the harness itself is never a verdict
        rec.inconc("sequence %s crashed: %r %s" % (kind, exc, traceback.format_exc()[-600:]))
        return
    seen = set()
    for f in F:
        if f["key"] in seen:
            continue
        seen.add(f["key"])
        case = f["case"] if f["case"] is not None else shrink(kind, ell, A, tag, f)
        rec.violation(f["key"], case, f["detail"])
    if nt_mask is not None and ctx.budget > 0:
        names = _names(A)
        shape = np.broadcast(*[np.asarray(A[k]) for k in names]).shape
        idx = np.flatnonzero(np.broadcast_to(nt_mask, shape).ravel())[:min(120, ctx.budget)]
        cols = [np.broadcast_to(np.asarray(A[k], dtype=float), shape).ravel()[idx] for k in names]
        sig = np.broadcast_to(np.asarray(nt_sig, dtype=object), shape).ravel()[idx]
        for j in range(len(idx)):
            rec.nontriv([kind, tag, sig[j]], [ell] + [round(float(c[j]), 9) for c in cols])
        ctx.budget -= len(idx)


# --------------------------------------------------------------------------------------
# generators
# --------------------------------------------------------------------------------------
LAT_SPECIAL = np.array([0.0, 1e-9, -1e-9, 45.0, -45.0, 88.0, -88.0, 1e-5, -1e-5, 87.9999999,
                        -87.9999999, 30.0, -60.0, 80.0, -80.0, 86.5, -87.25])
LON_SPECIAL = np.array([180.0, -180.0, 0.0, 90.0, -90.0, 179.999999999, -179.999999999, 1e-9, -1e-9,
                        135.0, -45.0, 179.9999, -179.9999])
H_SPECIAL = np.array([0.0, -1e4, 1e6, 1e-3, -1e-3, 5e5, -9999.99, 999999.99])
LAT_CLS = np.array(["lat-any", "lat-special", "lat-80-88", "lat-86-88"], dtype=object)


def gen_geodetic(rng, n, p_lat=(0.4, 0.15, 0.2, 0.25)):
    k = rng.choice(4, n, p=p_lat)
    sign = rng.choice([-1.0, 1.0], n)
    lat = np.select([k == 0, k == 1, k == 2, k == 3],
                    [rng.uniform(-88, 88, n), rng.choice(LAT_SPECIAL, n),
                     sign * rng.uniform(80, 88, n), sign * rng.uniform(86, 88, n)])
    lon = np.where(rng.random(n) < 0.8, rng.uniform(-180, 180, n), rng.choice(LON_SPECIAL, n))
    h = np.where(rng.random(n) < 0.8, rng.uniform(-1e4, 1e6, n), rng.choice(H_SPECIAL, n))
    return h, lat, lon, LAT_CLS[k]


def _ecc_sig(ell, cls):
    kind = "eccentric" if _S["ells"][ell][1] > 0 else "sphere"
    return np.array([kind + "|" + c for c in np.atleast_1d(cls)], dtype=object).reshape(np.shape(cls))


def _nt_conv(ell, lat):
    return np.abs(np.asarray(lat, dtype=float)) > 80 if _S["ells"][ell][1] == 0 \
        else np.ones(np.shape(lat), dtype=bool)


def run_conv(ctx, rng, n):
    small = max(40, n // 100)
    for ell, E in _S["ells"].items():
        # -- large batches in three shapes -------------------------------------------------
        h, lat, lon, cls = gen_geodetic(rng, n)
        drive(ctx, "conv", ell, {"h": h, "lat": lat, "lon": lon}, "1d", _ecc_sig(ell, cls), _nt_conv(ell, lat))
        m = max(8, n // 4)
        h, lat, lon, cls = gen_geodetic(rng, m - m % 4)
        drive(ctx, "conv", ell, {"h": h.reshape(4, -1), "lat": lat.reshape(4, -1), "lon": lon.reshape(4, -1)},
              "2d", _ecc_sig(ell, cls).reshape(4, -1), _nt_conv(ell, lat).reshape(4, -1))
        q = max(4, n // 32)
        hq, latq, lonq, cls = gen_geodetic(rng, q)
        drive(ctx, "conv", ell, {"h": hq[:8].reshape(-1, 1), "lat": latq.reshape(1, -1), "lon": lonq},
              "bcast", _ecc_sig(ell, cls).reshape(1, -1), _nt_conv(ell, latq).reshape(1, -1))
        # a column of latitudes against a row of longitudes and a scalar height: (k,1) x (q,)
        drive(ctx, "conv", ell, {"h": float(hq[0]), "lat": latq[:5].reshape(-1, 1), "lon": lonq},
              "bcast", _ecc_sig(ell, cls[:5]).reshape(-1, 1), _nt_conv(ell, latq[:5]).reshape(-1, 1))
        # -- many small calls: the iteration count of cart2geodetic depends on the batch --------
        for j in range(small):
            k = int(rng.choice([1, 1, 1, 2, 3]))
            h, lat, lon, cls = gen_geodetic(rng, k, p_lat=(0.2, 0.2, 0.2, 0.4))
            tag = ("scalar", "0d", "small")[j % 3]
            if tag == "small":
                A = {"h": h, "lat": lat, "lon": lon}
            elif tag == "0d":
                A = {"h": np.array(h[0]), "lat": np.array(lat[0]), "lon": np.array(lon[0])}
                cls, lat = cls[:1], lat[:1]
            else:
                A = {"h": float(h[0]), "lat": float(lat[0]), "lon": float(lon[0])}
                cls, lat = cls[:1], lat[:1]
            sig, nt = _ecc_sig(ell, cls), _nt_conv(ell, lat)
            if tag != "small":
                sig, nt = sig.reshape(()), nt.reshape(())
            drive(ctx, "conv", ell, A, tag, sig, nt)
        # -- cartesian points whose geocentric latitude is 1 rad (start value of the iteration) ----
        for j in range(max(6, small // 6)):
            k = int(rng.choice([1, 1, 2, 3]))
            r = E[0] + rng.uniform(0, 9e5, k)
            lonr = np.deg2rad(rng.uniform(-180, 180, k))
            s = rng.choice([-1.0, 1.0]) if j % 4 == 3 else 1.0   # -1 rad is an ordinary point
            x, y, z = r * np.cos(1.0) * np.cos(lonr), r * np.cos(1.0) * np.sin(lonr), s * r * np.sin(1.0)
            tag = ("scalar", "small", "0d")[j % 3]
            if tag == "scalar":
                A = {"x": float(x[0]), "y": float(y[0]), "z": float(z[0])}
            elif tag == "0d":
                A = {"x": np.array(x[0]), "y": np.array(y[0]), "z": np.array(z[0])}
            else:
                A = {"x": x, "y": y, "z": z}
            nt = np.full(np.shape(A["x"]), E[1] > 0)
            sig = np.full(np.shape(A["x"]), ("eccentric" if E[1] > 0 else "sphere") + "|geocentric-1rad",
                          dtype=object)
            drive(ctx, "cart", ell, A, tag, sig, nt, counter="cart.1rad")
        # a 1-rad point inside an ordinary batch
        h, lat, lon, cls = gen_geodetic(rng, 50)
        x, y, z = (np.asarray(v, dtype=float) for v in M.geodetic_to_ecef(E[0], E[1], h, lat, lon))
        rr = E[0] + 4e5
        x[7], y[7], z[7] = rr * np.cos(1.0), 0.0, rr * np.sin(1.0)
        drive(ctx, "cart", ell, {"x": x, "y": y, "z": z}, "1d", _ecc_sig(ell, cls), _nt_conv(ell, lat))
        # -- surface radii ------------------------------------------------------------------------
        h, lat, lon, cls = gen_geodetic(rng, max(8, n // 2))
        drive(ctx, "radius", ell, {"lat": lat, "lon": lon}, "1d", _ecc_sig(ell, cls), _nt_conv(ell, lat))
        for j in range(max(10, small // 4)):
            h, lat, lon, cls = gen_geodetic(rng, 1)
            drive(ctx, "radius", ell, {"lat": float(lat[0]), "lon": float(lon[0])}, "scalar",
                  _ecc_sig(ell, cls).reshape(()), _nt_conv(ell, lat).reshape(()))


ZA_SPECIAL = np.array([90.0, 45.0, 1e-3, 180 - 1e-3, 135.0, 1.0, 179.0, 0.01, 89.999999])
AA_SPECIAL = np.array([0.0, 90.0, -90.0, 180.0, -180.0, 1e-3, -1e-3, 179.999, -179.999, 45.0, 1e-7])


def gen_los(rng, n, a):
    h, lat, lon, cls = gen_geodetic(rng, n)
    lon = np.clip(lon, -180, 180)
    r = a + h
    kz = rng.choice(4, n, p=[0.6, 0.15, 0.1, 0.15])
    za = np.select([kz == 0, kz == 1, kz == 2, kz == 3],
                   [rng.uniform(1e-3, 180 - 1e-3, n), rng.uniform(1e-3, 1, n),
                    rng.uniform(179, 180 - 1e-3, n), rng.choice(ZA_SPECIAL, n)])
    aa = np.where(rng.random(n) < 0.75, rng.uniform(-180, 180, n), rng.choice(AA_SPECIAL, n))
    zc = np.array(["za-any", "za-near-zenith", "za-near-nadir", "za-special"], dtype=object)[kz]
    sig = np.array([c + "|" + z for c, z in zip(cls, zc)], dtype=object)
    return r, lat, lon, za, aa, sig


def run_los(ctx, rng, n):
    names = ("r", "lat", "lon", "za", "aa")
    small = max(30, n // 400)
    for ell, E in _S["ells"].items():
        r, lat, lon, za, aa, sig = gen_los(rng, max(6, n // 6), E[0])
        drive(ctx, "los", ell, dict(zip(names, (r, lat, lon, za, aa))), "1d", sig, np.abs(lat) > 80)
        r, lat, lon, za, aa, sig = gen_los(rng, max(6, n // 60), E[0])
        drive(ctx, "los", ell, {"r": float(r[0]), "lat": lat, "lon": float(lon[0]), "za": za,
                                "aa": float(aa[0])}, "bcast", sig, np.abs(lat) > 80)
        for j in range(small):
            r, lat, lon, za, aa, sig = gen_los(rng, 1, E[0])
            A = {k: float(v[0]) for k, v in zip(names, (r, lat, lon, za, aa))}
            drive(ctx, "los", ell, A, "scalar", sig.reshape(()), (np.abs(lat) > 80).reshape(()))
        # radii stored as integers (whole metres) - same values, other dtype
        r, lat, lon, za, aa, sig = gen_los(rng, max(6, n // 60), E[0])
        drive(ctx, "los", ell, dict(zip(names, (np.round(r).astype(np.int64), lat, lon, za, aa))),
              "1d-intr", sig, np.abs(lat) > 80)
        r, lat, lon, za, aa, sig = gen_los(rng, 4, E[0])
        A = {k: v.reshape(2, 2) for k, v in zip(names, (r, lat, lon, za, aa))}
        drive(ctx, "los", ell, A, "2d", sig.reshape(2, 2), (np.abs(lat) > 80).reshape(2, 2))


PAIR_CLS = ["random", "coincident", "near-1e-9", "near-1e-6", "antipodal", "gt179", "meridian",
            "parallel", "dateline", "polar", "alias-360"]


def gen_pairs(rng, n):
    k = rng.choice(len(PAIR_CLS), n, p=[0.2, 0.08, 0.1, 0.08, 0.1, 0.1, 0.07, 0.07, 0.07, 0.08, 0.05])
    lat1 = np.where(rng.random(n) < 0.85, rng.uniform(-90, 90, n),
                    rng.choice(np.array([0.0, 90.0, -90.0, 45.0, 1e-9, 89.999999, -88.0]), n))
    lon1 = np.where(rng.random(n) < 0.85, rng.uniform(-180, 180, n), rng.choice(LON_SPECIAL, n))
    lat2 = rng.uniform(-90, 90, n)
    lon2 = rng.uniform(-180, 180, n)
    e9 = rng.uniform(-1, 1, (2, n))

    def put(mask, la, lo):
        lat2[mask] = np.clip(la, -90, 90)[mask]
        lon2[mask] = lo[mask]
    put(k == 1, lat1, lon1)
    put(k == 2, lat1 + 1e-9 * e9[0], lon1 + 1e-9 * e9[1])
    put(k == 3, lat1 + 5e-7 * e9[0], lon1 + 5e-7 * e9[1])
    anti_lon = np.where(lon1 > 0, lon1 - 180, lon1 + 180)
    put(k == 4, -lat1, anti_lon)
    put(k == 5, -lat1 + 0.5 * e9[0], anti_lon + 0.5 * e9[1])
    put(k == 6, lat2, lon1)
    put(k == 7, lat1, lon2)
    m = k == 8
    lon1[m] = 180 - np.abs(1e-4 * e9[0][m]) * rng.choice([0.0, 1.0, 1e-5], m.sum())
    lon2[m] = -180 + np.abs(1e-4 * e9[1][m]) * rng.choice([0.0, 1.0, 1e-5], m.sum())
    m = k == 9
    lat1[m] = rng.choice([-1.0, 1.0], m.sum()) * rng.uniform(80, 90, m.sum())
    lat2[m] = np.where(rng.random(m.sum()) < 0.5, lat1[m], -lat1[m]) + 0.0
    m = k == 10
    lat2[m] = lat1[m]
    lon2[m] = np.where(lon1[m] > 0, lon1[m] - 360, lon1[m] + 360)
    shift = np.where(rng.random(n) < 0.7, rng.uniform(-360, 360, n),
                     rng.choice(np.array([180.0, -180.0, 360.0, -360.0, 1e-9, 90.0, 0.1]), n))
    return lat1, lon1, lat2, lon2, shift, np.array(PAIR_CLS, dtype=object)[k]


def _nt_pair(*P):
    """non-trivial: separation < 1e-6 deg or > 179 deg (any pair) or |lat| > 80 (any point)."""
    nt = np.zeros(np.broadcast(*P).shape, dtype=bool)
    for i in range(0, len(P), 2):
        nt |= np.abs(P[i]) > 80
        for j in range(i + 2, len(P), 2):
            sep = np.asarray(M.arc(P[i], P[i + 1], P[j], P[j + 1]) * M.R2D, dtype=float)
            nt |= (sep < 1e-6) | (sep > 179)
    return nt


TRI_CLS = ["random", "meridian-collinear", "equator-collinear", "b-equals-a", "cluster-1e-9",
           "cluster-1e-6", "antipodal-ac", "polar"]


def gen_triples(rng, n):
    k = rng.choice(len(TRI_CLS), n, p=[0.3, 0.12, 0.1, 0.08, 0.1, 0.1, 0.1, 0.1])
    la = [rng.uniform(-90, 90, n) for _ in range(3)]
    lo = [rng.uniform(-180, 180, n) for _ in range(3)]
    e = rng.uniform(-1, 1, (4, n))
    m = k == 1
    lo[1][m] = lo[0][m]
    lo[2][m] = lo[0][m]
    la[1][m] = (la[0][m] + (la[2][m] - la[0][m]) * rng.random(m.sum()))
    m = k == 2
    for q in range(3):
        la[q][m] = 0.0
    lo[1][m] = lo[0][m] + (lo[2][m] - lo[0][m]) * rng.random(m.sum())
    m = k == 3
    la[1][m], lo[1][m] = la[0][m], lo[0][m]
    for cls, sc in ((4, 1e-9), (5, 5e-7)):
        m = k == cls
        la[0][m] = np.clip(la[0][m], -89, 89)
        la[1][m], lo[1][m] = la[0][m] + sc * e[0][m], lo[0][m] + sc * e[1][m]
        la[2][m], lo[2][m] = la[0][m] + sc * e[2][m], lo[0][m] + sc * e[3][m]
    m = k == 6
    la[2][m] = -la[0][m]
    lo[2][m] = np.where(lo[0][m] > 0, lo[0][m] - 180, lo[0][m] + 180)
    m = k == 7
    for q in range(3):
        la[q][m] = rng.choice([-1.0, 1.0], m.sum()) * rng.uniform(80, 90, m.sum())
    return la, lo, np.array(TRI_CLS, dtype=object)[k]


def run_dist(ctx, rng, n):
    pn = ("lat1", "lon1", "lat2", "lon2", "shift")
    la1, lo1, la2, lo2, s, cls = gen_pairs(rng, n)
    drive(ctx, "pair", "earth", dict(zip(pn, (la1, lo1, la2, lo2, s))), "1d", cls, _nt_pair(la1, lo1, la2, lo2))
    la, lo, cls = gen_triples(rng, max(4, n // 2))
    A = {"lat1": la[0], "lon1": lo[0], "lat2": la[1], "lon2": lo[1], "lat3": la[2], "lon3": lo[2]}
    drive(ctx, "triple", "earth", A, "1d", cls, _nt_pair(la[0], lo[0], la[1], lo[1], la[2], lo[2]))
    for j in range(max(40, n // 400)):
        la1, lo1, la2, lo2, s, cls = gen_pairs(rng, 1)
        A = {k: float(v[0]) for k, v in zip(pn, (la1, lo1, la2, lo2, s))}
        drive(ctx, "pair", "earth", A, "scalar", cls.reshape(()), _nt_pair(la1, lo1, la2, lo2).reshape(()))
        la, lo, cls = gen_triples(rng, 1)
        A = {"lat1": float(la[0][0]), "lon1": float(lo[0][0]), "lat2": float(la[1][0]),
             "lon2": float(lo[1][0]), "lat3": float(la[2][0]), "lon3": float(lo[2][0])}
        drive(ctx, "triple", "earth", A, "scalar", cls.reshape(()),
              _nt_pair(la[0], lo[0], la[1], lo[1], la[2], lo[2]).reshape(()))
    # array against one fixed point (works through column_stack broadcasting)
    la1, lo1, la2, lo2, s, cls = gen_pairs(rng, max(4, n // 20))
    A = {"lat1": la1, "lon1": lo1, "lat2": float(la2[0]), "lon2": float(lo2[0]), "shift": float(s[0])}
    drive(ctx, "pair", "earth", A, "bcast1", cls, _nt_pair(la1, lo1, la2[0], lo2[0]))
    # 2-d arguments and scalar/array mixed inside one point
    la1, lo1, la2, lo2, s, cls = gen_pairs(rng, 4)
    A = {k: v.reshape(2, 2) for k, v in zip(pn, (la1, lo1, la2, lo2, s))}
    drive(ctx, "pair", "earth", A, "2d", cls.reshape(2, 2), _nt_pair(la1, lo1, la2, lo2).reshape(2, 2))
    la1, lo1, la2, lo2, s, cls = gen_pairs(rng, 2)
    A = {"lat1": float(la1[0]), "lon1": lo1, "lat2": la2, "lon2": lo2, "shift": float(s[0])}
    drive(ctx, "pair", "earth", A, "mixed", cls, _nt_pair(la1[0], lo1, la2, lo2))


def run_shard(spec, rec):
    install(rec)
    ctx = Ctx(rec, spec)
    rng = np_rng_for(spec["seed"], "c07-" + spec["kind"], spec["shard"])
    {"conv": run_conv, "los": run_los, "dist": run_dist}[spec["kind"]](ctx, rng, int(spec["n"]))
    for hk, v in sorted(_S.pop("hist", {}).items()):
        rec.count(hk, v)


def replay(case, rec):
    g = install(rec)
    if case.get("kind") == "contract":
        args = dict(case["args"])
        if "ell" in case:
            args["ellipsoid"] = tuple(case["ell"])
        try:
            getattr(g, case["func"])(**args)
        except Breach as b:
            rec.violation(b.key, case, b.detail)
        except Exception as exc:
            rec.violation("geodesy-exception", case, {"exception": repr(exc)})
        return
    A = build(case["args"], case.get("tag", "1d"))
    rec.ev(_size(A))
    seen = set()
    for f in SEQ[case["kind"]](case["ell"], A):
        if f["key"] not in seen:
            seen.add(f["key"])
            rec.violation(f["key"], case, f["detail"])
