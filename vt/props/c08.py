"""C08 - Planck radiance, brightness temperature, spectral units, Snell and Fresnel are consistent.

Technique: runtime monitoring.  The real typhon.physics.em functions run on generated hostile
inputs; verdicts come from (i) icontract post-conditions on the real functions (closed forms in
numpy.longdouble, vt.models.em_model; they also see the calls typhon makes itself: fresnel -> snell,
per...2per... -> frequency2wavelength etc.) and (ii) a relational driver for the multi-call identities.
Constants c, h, k are read from typhon.constants at run time (the statement is phrased in them).

Where each clause of the statement is decided   (x = h f / k T in [1e-6, 600])
  "radiance2planckTb(f, planck(f, T)) returns T"            seq_planck [planckTb-roundtrip];
        post-conditions [planck-closed-form], [planckTb-closed-form] (expm1 / log1p reference)
  "radiance2rayleighjeansTb inverts rayleighjeans"          seq_planck [rjTb-roundtrip] (both orders);
        post-conditions [rayleighjeans-closed-form], [rjTb-closed-form]
  "planck is positive"                                      post-condition [planck-not-positive]
  "increases with T"                                        seq_planck [planck-monotone-T]
  "never exceeds the Rayleigh-Jeans value"                  seq_planck [planck-exceeds-rj]
  "approaches it as h f / k T -> 0"                         seq_planck [planck-rj-limit]
        (B/RJ >= x/expm1(x) (1 - bound), and x/expm1(x) >= 1 - x/2)
  "planck_wavelength(c/f, T) = planck(f, T) f^2/c"          seq_planck [planck-wavelength-form]
  "planck_wavenumber(f/c, T) = c planck(f, T)"              seq_planck [planck-wavenumber-form]
  "per-unit converters map one form onto the other"         seq_spectrum [perconv-planck-forms];
        post-conditions [perconv-jacobian], [perconv-grid] (exact Jacobians f^2/c, c; grids reversed)
  "... and are inverse to each other"                       seq_spectrum [perconv-inverse]
  "frequency/wavelength/wavenumber converters mutually inverse"   seq_units [unitconv-inverse],
        [unitconv-cycle]; post-conditions [unitconv-closed-form]
  "snell: n1 sin(theta1) = n2 sin(theta2) (NaN beyond total reflection)"
        post-condition on snell [snell-identity], [snell-nan-rule] (real n2), [snell-liou-identity]
        (complex n2, Liou's effective index evaluated independently)
  "fresnel: |Rv|, |Rh| <= 1"                                post-condition [fresnel-modulus],
        [fresnel-nan-total-reflection]
  "|Rv| = |Rh| at normal incidence"                         seq_optics [fresnel-normal-incidence]
  "Rv = 0 at the Brewster angle"                            seq_optics [fresnel-brewster]
  "scalar, array, broadcast combinations; multi-dimensional spectra"   every sequence is driven with
        python scalars, 0-d, 1-d, (n,1)x(1,m) broadcasts; spectra of rank 1-3

Tolerances are forward-error bounds of the documented float64 formulae, derived in
vt/models/em_model.py (u = 2^-53, elementary functions 2 ulp): e.g. "returns T" is measured against
(1 - e^-x)/x (16u + g(x)(3x + 4)u) + u/x + 7u with g = e^x/(e^x - 1), i.e. ~5/x u at small x and
~25u for x >= 1.  Nothing was tuned on observed values; the observed error/bound ratios are reported
as max:* counters.
"""
import os
import traceback

import numpy as np

from vt.monitors import concurrency, history

from vt.core import np_rng_for, Recorder
from vt.models import em_model as M

ID = "C08"
LEVEL = "exploration"
RULE = ("(f, T) with f log-uniform in [1e8,1e15] Hz, T in [2,1e4] K conditioned on x = hf/kT in [1e-6,600], "
        "classes: joint-uniform / x in [1e-6,1e-4] / x in [100,600] / special values; T pairs T(1+d), d from one "
        "ulp to 1; spectra of rank 1-3 on sorted, unsorted and 2-point grids (Planck and random positive); "
        "unit grids over 30 decades; n1 in [1,3], n2 real in [0.5,10] or complex (Re in [0.5,10], Im in (0,10]), "
        "theta in [0,90] incl. 0, 90, the critical angle +- eps and the Brewster angle; call shapes: python "
        "scalars, 0-d, 1-d, (n,1)x(1,m).  evaluations = array ELEMENTS (one (f,T) point / spectrum sample / grid "
        "point / (n1,n2,theta) triple pushed through one monitored sequence of real calls), not calls.  "
        "non-trivial = x <= 1e-3 or x >= 50 (cancellation regimes), spectra of rank >= 2 or unsorted grids, complex "
        "n2, total reflection, within 1e-6 of the critical angle, Brewster angle, normal/grazing incidence; "
        "distinct by (class signature, inputs rounded to 12 significant digits); a few thousand non-trivial "
        "elements are registered per shard (subsample), so distinct_nontrivial is a lower bound")
ASSUMPTIONS = [
    "oracle: B = 2hf^3/c^2/expm1(x), Tb = hf/k/log1p(2hf^3/(c^2 r)), RJ = 2f^2kT/c^2, wavelength/wavenumber "
    "forms, Jacobians f^2/c and c, Snell, Liou's effective index, Fresnel - all in numpy.longdouble; c, h, k "
    "from typhon.constants",
    "error model: + - * / sqrt x**2 correctly rounded (1u, u = 2^-53); exp, log, pow, sin, cos, asin within 2 ulp",
    "tolerance Planck law: g(x)(a x + 4)u + 9u with g = e^x/(e^x-1), a = number of rounded operations in the "
    "exponent (3 for planck, 4 for the wavelength/wavenumber forms): the error of fl(exp(x) - 1), which is "
    "k*ulp*max(1, 1/x) with the argument term a*x kept",
    "tolerance 'returns T': (1-e^-x)/x * (16u + g(x)(3x+4)u) + u/x + 7u (propagation through log(y + 1))",
    "tolerance Rayleigh-Jeans pair: 5u per function (10u + 2u for the round trip)",
    "tolerance converters: Jacobian 4u, grids 2u, inverse pair 10u / 3u, unit converters 3u, three-cycle 4u",
    "tolerance Snell: u(3 n1 s1 + 3.2 n1 + 3.4 n2) + 2u max(n1,n2) absolute on n2 sin(theta2); NaN rule with a "
    "don't-care band |n1 s1/n2 - 1| <= (4 + 4 n1/n2)u; complex n2: 2u(s1(kappa+4) + 3.2 + 3.4 Nr) with the "
    "cancellation factor kappa of Liou's expression",
    "tolerance Fresnel: |R| <= 1 + 8u; | |Rv| - |Rh| | <= 8u at theta = 0; at the Brewster angle |Rv| <= "
    "|Rv_ref(theta_B as float64)| + 2(da+db)/(a+b) + 4u (derivation in em_model.fresnel_rv_tol)",
    "complex-typed n2 with zero imaginary part and mixed real/complex n2 arrays are not driven (the statement "
    "does not say which branch applies)",
]
MIN_NONTRIVIAL = {"quick": 4000, "thorough": 12000}
REQUIRED_COUNTERS = {
    "post.planck.calls": 100, "post.planck_wavelength.calls": 50, "post.planck_wavenumber.calls": 50,
    "post.rayleighjeans.calls": 50, "post.radiance2planckTb.calls": 100,
    "post.radiance2rayleighjeansTb.calls": 50, "post.snell.calls": 100, "post.fresnel.calls": 50,
    "post.perfrequency2perwavelength.calls": 20, "post.perwavelength2perfrequency.calls": 20,
    "post.perfrequency2perwavenumber.calls": 20, "post.perwavenumber2perfrequency.calls": 20,
    "post.frequency2wavelength.calls": 50, "post.wavenumber2wavelength.calls": 20,
    "seq.planck.elements": 10000, "seq.spectrum.elements": 10000, "seq.units.elements": 10000,
    "seq.optics.elements": 10000, "seq.planck.smallx": 1000, "seq.planck.largex": 1000,
    "seq.optics.total_reflection": 100, "seq.optics.brewster": 100, "seq.optics.complex": 1000,
}
SHARD_TIMEOUT = {"quick": 600, "thorough": 7200}
U = M.U
XMIN, XMAX = M.LD("1e-6"), M.LD(600)


def shards(tier, seed):
    q = tier == "quick"
    out = []
    for i in range(6):
        out.append({"kind": "planck", "seed": seed, "shard": i, "n": 60000 if q else 3000000})
    for i in range(4):
        out.append({"kind": "conv", "seed": seed, "shard": i, "n": 60000 if q else 3000000})
    for i in range(6):
        out.append({"kind": "optics", "seed": seed, "shard": i, "n": 60000 if q else 3000000})
    return out


# --------------------------------------------------------------------------------------
# plumbing
# --------------------------------------------------------------------------------------
class Breach(Exception):
    def __init__(self, key, case, detail):
        Exception.__init__(self, key)
        self.key, self.case, self.detail = key, case, detail


class Abort(Exception):
    pass


_S = {"rec": None, "em": None, "C": None, "last": None}


def _first(bad):
    return int(np.flatnonzero(np.asarray(bad).ravel())[0])


def _enc(v):
    """one element -> JSON (complex as {"complex": [re, im]})"""
    if isinstance(v, (complex, np.complexfloating)):
        return {"complex": [float(v.real), float(v.imag)]}
    return float(v)


def _dec(v):
    if isinstance(v, dict) and "complex" in v:
        return complex(*v["complex"])
    if isinstance(v, list):
        if v and _has_complex(v):
            return np.array(_dec_list(v), dtype=complex)
        return np.asarray(v, dtype=float)
    return float(v)


def _has_complex(v):
    if isinstance(v, dict):
        return True
    if isinstance(v, list):
        return any(_has_complex(e) for e in v)
    return False


def _dec_list(v):
    if isinstance(v, list):
        return [_dec_list(e) for e in v]
    return _dec(v)


def _enc_any(v):
    a = np.asarray(v)
    if a.ndim == 0:
        return _enc(a[()])
    if np.iscomplexobj(a):
        return [_enc_any(e) for e in a]
    return a.astype(float).tolist()


def _elem(v, shape, i):
    return np.broadcast_to(np.asarray(v), shape).flat[i]


def _detail_at(detail, shape, i):
    out = {}
    for k, v in detail.items():
        try:
            e = np.broadcast_to(np.asarray(v), shape).flat[i]
            out[k] = _enc(e) if np.iscomplexobj(e) else float(e)
        except Exception:
            out[k] = repr(v)[:200]
    return out


def _stash(key, func, args, bad, detail):
    bad = np.asarray(bad)
    i = _first(bad)
    case = {"kind": "contract", "func": func,
            "args": {k: _enc(_elem(v, bad.shape, i)) for k, v in args.items()}}
    _S["last"] = (key, case, dict(_detail_at(detail, bad.shape, i), failing_elements=int(bad.sum()),
                                   call_shape=list(bad.shape)))
    return False


def _stash_raw(key, func, args, detail):
    _S["last"] = (key, {"kind": "contract", "func": func, "args": {k: _enc_any(v) for k, v in args.items()}},
                  detail)
    return False


def _breach():
    return Breach(*_S["last"])


def _cnt(name, n):
    _S["rec"].count("post.%s.calls" % name)
    _S["rec"].count("post.%s.elements" % name, int(n))


def _ratio(name, err, tol, dom=None):
    """record max(err / tol) over the judged elements (shows that the bound is not vacuous)"""
    r = np.asarray(err / tol, dtype=float)
    if dom is not None:
        r = r[np.broadcast_to(dom, r.shape)]
    if r.size and np.isfinite(r).any():
        _S["rec"].maxi(name + ".err_over_bound", float(np.nanmax(r)))


def _relerr(got, ref):
    """|got - ref| / |ref|, 0 where both agree exactly (0 against 0 from an underflow outside the domain)"""
    got, ref = np.broadcast_arrays(M.ld(got), M.ld(ref))
    with np.errstate(all="ignore"):
        return np.where(got == ref, M.LD(0), np.abs(got - ref) / np.abs(ref))


# ---- post-conditions -------------------------------------------------------------------
def _planck_post(name, key_form, xfun, ref_fun, rel_fun, v, T, result, vname):
    C = _S["C"]
    x = xfun(C, v, T)
    dom = (x >= XMIN) & (x <= XMAX)
    _cnt(name, np.size(x))
    if not np.any(dom):
        return True
    res = M.ld(result) + 0 * x
    bad = dom & ~((res > 0) & np.isfinite(res))
    if bad.any():
        return _stash("planck-not-positive", name, {vname: v, "T": T}, bad, {"x": x, "B": result})
    err, tol = _relerr(res, ref_fun(C, v, T)), rel_fun(x)
    _ratio(name, err, tol, dom)
    bad = dom & ~(err <= tol)
    if bad.any():
        return _stash(key_form, name, {vname: v, "T": T}, bad,
                      {"x": x, "B": result, "rel_err": err, "bound": tol})
    return True


def post_planck(f, T, result):
    return _planck_post("planck", "planck-closed-form", M.xval, M.planck, M.rel_planck, f, T, result, "f")


def post_planck_wavelength(l, T, result):
    return _planck_post("planck_wavelength", "planck-closed-form",
                        lambda C, l_, T_: C.h * C.c / (M.ld(l_) * C.k * M.ld(T_)),
                        M.planck_wavelength, M.rel_planck_wavelength, l, T, result, "l")


def post_planck_wavenumber(n, T, result):
    return _planck_post("planck_wavenumber", "planck-closed-form",
                        lambda C, n_, T_: C.h * C.c * M.ld(n_) / (C.k * M.ld(T_)),
                        M.planck_wavenumber, M.rel_planck_wavenumber, n, T, result, "n")


def post_rayleighjeans(f, T, result):
    err = _relerr(result, M.rayleighjeans(_S["C"], f, T))
    _cnt("rayleighjeans", err.size)
    bad = ~(err <= M.REL_RJ + U)
    if bad.any():
        return _stash("rayleighjeans-closed-form", "rayleighjeans", {"f": f, "T": T}, bad, {"rel_err": err})
    return True


def post_radiance2planckTb(f, r, result):
    C = _S["C"]
    ref = M.planck_tb(C, f, r)
    x = C.h * M.ld(f) / (C.k * ref)
    dom = (x >= XMIN) & (x <= XMAX) & (M.ld(r) > 0)
    _cnt("radiance2planckTb", np.size(x))
    if not np.any(dom):
        return True
    err, tol = _relerr(result, ref), M.rel_planck_tb(x, 0)
    _ratio("radiance2planckTb", err, tol, dom)
    bad = dom & ~(err <= tol)
    if bad.any():
        return _stash("planckTb-closed-form", "radiance2planckTb", {"f": f, "r": r}, bad,
                      {"x": x, "Tb": result, "rel_err": err, "bound": tol})
    return True


def post_radiance2rayleighjeansTb(f, r, result):
    err = _relerr(result, M.rj_tb(_S["C"], f, r))
    _cnt("radiance2rayleighjeansTb", err.size)
    bad = ~(err <= M.REL_RJ_TB + U)
    if bad.any():
        return _stash("rjTb-closed-form", "radiance2rayleighjeansTb", {"f": f, "r": r}, bad, {"rel_err": err})
    return True


def post_snell(n1, n2, theta1, result):
    shape = np.broadcast(n1, n2, theta1).shape
    _cnt("snell", int(np.prod(shape)) if shape else 1)
    args = {"n1": n1, "n2": n2, "theta1": theta1}
    if np.iscomplexobj(n1) or not np.all(np.isfinite(np.asarray(theta1, dtype=float))):
        return True
    if np.shape(result) != shape:
        return _stash_raw("snell-shape", "snell", args, {"got": list(np.shape(result)), "want": list(shape)})
    res = M.ld(np.real(result))
    if not np.iscomplexobj(n2):
        s, band = M.snell_real(n1, n2, theta1)
        beyond, inside = s > 1 + band, s < 1 - band
        isnan = np.isnan(res)
        bad = (beyond & ~isnan) | (inside & isnan)
        if bad.any():
            return _stash("snell-nan-rule", "snell", args, bad, {"n1_sin1_over_n2": s, "theta2": result})
        err = np.abs(M.ld(n2) * np.sin(res * M.D2R) - M.ld(n1) * np.sin(M.ld(theta1) * M.D2R))
        tol = M.snell_real_tol(n1, n2, theta1)
        _ratio("snell", err, tol, ~isnan)
        bad = ~isnan & ~((err <= tol) & (res >= 0) & (res <= 90))
        if bad.any():
            return _stash("snell-identity", "snell", args, bad, {"theta2": result, "mismatch": err, "bound": tol})
        return True
    if np.any(np.imag(n2) <= 0):
        return True       # complex-typed but not absorbing: not driven, not judged
    nr, kappa = M.liou_index(n1, n2, theta1)
    err = np.abs(nr * np.sin(res * M.D2R) - np.sin(M.ld(theta1) * M.D2R))
    tol = M.snell_complex_tol(nr, kappa, theta1)
    _ratio("snell.complex", err, tol)
    bad = ~((err <= tol) & (res >= 0) & (res <= 90)) | (np.abs(np.imag(result)) > 0)
    if bad.any():
        return _stash("snell-liou-identity", "snell", args, bad,
                      {"theta2": np.real(result), "mismatch": err, "bound": tol, "Nr": nr, "kappa": kappa})
    return True


def post_fresnel(n1, n2, theta1, result):
    Rv, Rh = result
    shape = np.broadcast(n1, n2, theta1).shape
    _cnt("fresnel", int(np.prod(shape)) if shape else 1)
    args = {"n1": n1, "n2": n2, "theta1": theta1}
    if np.iscomplexobj(n1) or (np.iscomplexobj(n2) and np.any(np.imag(n2) <= 0)):
        return True
    if np.shape(Rv) != shape or np.shape(Rh) != shape:
        return _stash_raw("fresnel-shape", "fresnel", args, {"got": list(np.shape(Rv)), "want": list(shape)})
    mv, mh = M.ld(np.abs(Rv)), M.ld(np.abs(Rh))
    isnan = np.isnan(mv) | np.isnan(mh)
    if not np.iscomplexobj(n2):
        s, band = M.snell_real(n1, n2, theta1)
        bad = isnan & (s > 1 + band)
        if bad.any():
            return _stash("fresnel-nan-total-reflection", "fresnel", args, bad,
                          {"n1_sin1_over_n2": s, "Rv": np.real(Rv), "Rh": np.real(Rh)})
        isnan = isnan & ~(s < 1 - band) & ~bad     # inside the band NaN is tolerated
    bad = ~isnan & ~((mv <= 1 + 8 * U) & (mh <= 1 + 8 * U))
    if bad.any():
        return _stash("fresnel-modulus", "fresnel", args, bad, {"abs_Rv": mv, "abs_Rh": mh})
    return True


def _unit_post(name, arg, result, ref):
    err = _relerr(result, ref)
    _cnt(name, err.size)
    bad = ~(err <= 2 * U) | (np.shape(result) != np.shape(arg))
    if np.any(bad):
        return _stash("unitconv-closed-form", name, {"x": arg}, np.broadcast_to(bad, err.shape),
                      {"rel_err": err, "got": result})
    return True


def post_frequency2wavelength(frequency, result):
    return _unit_post("frequency2wavelength", frequency, result, _S["C"].c / M.ld(frequency))


def post_frequency2wavenumber(frequency, result):
    return _unit_post("frequency2wavenumber", frequency, result, M.ld(frequency) / _S["C"].c)


def post_wavelength2frequency(wavelength, result):
    return _unit_post("wavelength2frequency", wavelength, result, _S["C"].c / M.ld(wavelength))


def post_wavelength2wavenumber(wavelength, result):
    return _unit_post("wavelength2wavenumber", wavelength, result, 1 / M.ld(wavelength))


def post_wavenumber2frequency(wavenumber, result):
    return _unit_post("wavenumber2frequency", wavenumber, result, _S["C"].c * M.ld(wavenumber))


def post_wavenumber2wavelength(wavenumber, result):
    return _unit_post("wavenumber2wavelength", wavenumber, result, 1 / M.ld(wavenumber))


def _perconv_post(name, q, grid, result, jac, new_grid, reverse):
    """values = q * Jacobian(grid) along axis 0 (reversed for the wavelength forms), grid converted
    (and reversed)."""
    out, g2 = result
    q, grid = np.asarray(q), np.asarray(grid)
    _cnt(name, q.size)
    args = {"q": q, "grid": grid}
    if np.shape(out) != q.shape or np.shape(g2) != grid.shape:
        return _stash_raw("perconv-shape", name, args, {"got": [list(np.shape(out)), list(np.shape(g2))],
                                                        "want": [list(q.shape), list(grid.shape)]})
    sl = slice(None, None, -1) if reverse else slice(None)
    gl = M.ld(grid)
    egrid = _relerr(g2, new_grid(gl)[sl])
    col = gl.reshape((-1,) + (1,) * (q.ndim - 1))
    evals = _relerr(out, (M.ld(q) * jac(col))[sl])
    _ratio(name, evals, 4 * U)
    if (~(egrid <= 2 * U)).any() or (~(evals <= 4 * U)).any():
        key = "perconv-grid" if (~(egrid <= 2 * U)).any() else "perconv-jacobian"
        if q.size > 300:            # keep the spectrum that holds the first failing sample
            j = np.unravel_index(_first(~(evals <= 4 * U)) if key == "perconv-jacobian" else 0, q.shape)
            args = {"q": q[(slice(None),) + tuple(j[1:])], "grid": grid}
        return _stash_raw(key, name, args, {"max_rel_err_values": float(np.nanmax(evals)),
                                            "max_rel_err_grid": float(np.nanmax(egrid)),
                                            "nan_values": int(np.isnan(evals).sum())})
    return True


def post_perfrequency2perwavelength(perhz, f_grid, result):
    c = _S["C"].c
    return _perconv_post("perfrequency2perwavelength", perhz, f_grid, result,
                         lambda f: f * f / c, lambda f: c / f, True)


def post_perwavelength2perfrequency(perm, lam_grid, result):
    c = _S["C"].c
    return _perconv_post("perwavelength2perfrequency", perm, lam_grid, result,
                         lambda l: l * l / c, lambda l: c / l, True)


def post_perfrequency2perwavenumber(perhz, f_grid, result):
    c = _S["C"].c
    return _perconv_post("perfrequency2perwavenumber", perhz, f_grid, result,
                         lambda f: c + 0 * f, lambda f: f / c, False)


def post_perwavenumber2perfrequency(perwn, wn_grid, result):
    c = _S["C"].c
    return _perconv_post("perwavenumber2perfrequency", perwn, wn_grid, result,
                         lambda n: 1 / c + 0 * n, lambda n: c * n, False)


POSTS = {k[5:]: v for k, v in list(globals().items()) if k.startswith("post_")}
PERCONV_ARGS = {"perfrequency2perwavelength": ("perhz", "f_grid"),
                "perwavelength2perfrequency": ("perm", "lam_grid"),
                "perfrequency2perwavenumber": ("perhz", "f_grid"),
                "perwavenumber2perfrequency": ("perwn", "wn_grid")}
UNIT_ARG = {"frequency2wavelength": "frequency", "frequency2wavenumber": "frequency",
            "wavelength2frequency": "wavelength", "wavelength2wavenumber": "wavelength",
            "wavenumber2frequency": "wavenumber", "wavenumber2wavelength": "wavenumber"}


def install(rec):
    import warnings
    import icontract
    from typhon.physics import em
    from typhon import constants
    warnings.filterwarnings("ignore")
    np.seterr(all="ignore")
    _S["rec"] = rec
    if _S["em"] is None:
        _S["C"] = M.Consts(constants.speed_of_light, constants.planck, constants.boltzmann)
        for name, cond in POSTS.items():
            if os.environ.get("VT_SELFTEST_NO_POST"):   # self-test only: relational driver on its own
                break
            _S.setdefault("orig", {})[name] = getattr(em, name)
            setattr(em, name, icontract.ensure(cond, error=_breach)(getattr(em, name)))
        _S["em"] = em
    return em


# --------------------------------------------------------------------------------------
# sequences
# --------------------------------------------------------------------------------------
class Fails(list):
    def add(self, key, idx, detail, case=None):
        self.append({"key": key, "idx": idx, "detail": detail, "case": case})

    def check(self, key, bad, detail):
        bad = np.asarray(bad)
        if bad.any():
            i = _first(bad)
            self.add(key, i, dict(_detail_at(detail, bad.shape, i), failing_elements=int(bad.sum()),
                                  batch_shape=list(bad.shape)))
            return i, bad.shape
        return None


def call(F, fname, *a):
    before = [v.copy() if isinstance(v, np.ndarray) else None for v in a]
    try:
        out = getattr(_S["em"], fname)(*a)
        for k, (v, b) in enumerate(zip(a, before)):
            if b is not None and not np.array_equal(v, b, equal_nan=True):
                F.add("input-mutated", None, {"func": fname, "argument": k})
                raise Abort()
        _S["n_" + fname] = _S.get("n_" + fname, 0) + 1   # per function: every one of them is sampled
        if _S["n_" + fname] % 4 == 1:
            # (the un-armed function: a post-condition that fires inside the history would end it as
            # "not applicable" instead of letting the comparison with the fresh call decide)
            verdict, detail = history.reuse_check(_S.get("orig", {}).get(fname) or getattr(_S["em"], fname), a)
            hk = "history.reuse_%s.%s" % (verdict.replace("/", ""), fname)
            _S.setdefault("hist", {})[hk] = _S.setdefault("hist", {}).get(hk, 0) + 1
            if verdict == "stale":
                F.add("stale-state", None, dict(detail, func=fname))
                raise Abort()
        if _S["n_" + fname] % 4 == 2:
            # the same call with the documented parameter names, written in the opposite order
            verdict, detail = history.keyword_check(_S.get("orig", {}).get(fname) or getattr(_S["em"], fname), a, None, out)
            hk = "keywords.%s.%s" % (verdict.replace("/", ""), fname)
            _S.setdefault("hist", {})[hk] = _S.setdefault("hist", {}).get(hk, 0) + 1
            if verdict in ("differs", "raises"):
                F.add("keyword-call-differs", None, dict(detail, func=fname))
                raise Abort()
        if _S["n_" + fname] % 4 == 3 and any(isinstance(v, np.ndarray) and v.ndim >= 1 and v.shape[0] >= 4
                                              for v in a):
            # calls of the same shapes from several threads at once (vt/monitors/concurrency.py); the
            # variants are the arguments rolled along their first axis (values stay in the domain)
            fn0 = _S.get("orig", {}).get(fname) or getattr(_S["em"], fname)
            calls = [(fn0, tuple(np.roll(v, k, axis=0) if isinstance(v, np.ndarray) and v.ndim >= 1
                                 and v.shape[0] >= 4 else v for v in a), {}) for k in range(4)]
            verdict, detail = concurrency.concurrent_check(calls, threads=4, rounds=2)
            hk = "concurrent.%s.%s" % (verdict.replace("/", ""), fname)
            _S.setdefault("hist", {})[hk] = _S.setdefault("hist", {}).get(hk, 0) + 1
            if verdict == "race":
                F.add("concurrent-calls-interfere", None, dict(detail, func=fname))
                raise Abort()
        return out
    except Breach as b:
        F.add(b.key, None, dict(b.detail, inside=fname), case=b.case)
        raise Abort()
    except Exception as exc:
        F.add("em-exception", None, {"func": fname, "exception": repr(exc),
                                     "trace": traceback.format_exc()[-700:]})
        raise Abort()


def seq_planck(A):
    F = Fails()
    C = _S["C"]
    f, T, d = A["f"], A["T"], A["d"]
    cf = float(C.c)
    try:
        x = M.xval(C, f, T)
        dom = (x >= XMIN) & (x <= XMAX)
        B = call(F, "planck", f, T)
        Bl_ = M.ld(B)
        rp = M.rel_planck(x)
        # -- brightness temperature returns T ---------------------------------------------------
        Tb = call(F, "radiance2planckTb", f, B)
        err, tol = _relerr(Tb, M.ld(T)), M.rel_planck_tb(x, rp)
        _ratio("planckTb.roundtrip", err, tol, dom)
        F.check("planckTb-roundtrip", dom & ~(err <= tol), {"x": x, "Tb": Tb, "rel_err": err, "bound": tol})
        # -- Rayleigh-Jeans pair, both orders ------------------------------------------------------
        RJ = call(F, "rayleighjeans", f, T)
        Trj = call(F, "radiance2rayleighjeansTb", f, RJ)
        err = _relerr(Trj, M.ld(T))
        F.check("rjTb-roundtrip", ~(err <= 12 * U), {"Trj": Trj, "rel_err": err})
        Tr = call(F, "radiance2rayleighjeansTb", f, B)
        Br = call(F, "rayleighjeans", f, Tr)
        err = _relerr(Br, Bl_)
        F.check("rjTb-roundtrip", dom & ~(err <= 12 * U), {"r": B, "r_back": Br, "rel_err": err})
        # -- planck <= RJ, -> RJ as x -> 0 ------------------------------------------------------------
        ratio = Bl_ / M.ld(RJ)
        F.check("planck-exceeds-rj", dom & ~(ratio <= 1 + rp + 6 * U), {"x": x, "B_over_RJ": ratio})
        lim = x / np.expm1(x)
        F.check("planck-rj-limit", dom & ~(ratio >= lim * (1 - rp - 6 * U)),
                {"x": x, "B_over_RJ": ratio, "x_over_expm1": lim})
        # -- increases with T -------------------------------------------------------------------
        T2 = np.asarray(T, dtype=float) * (1 + np.asarray(d, dtype=float))
        T2 = np.where(T2 > np.asarray(T, dtype=float), T2, np.nextafter(np.asarray(T, dtype=float), np.inf))
        if np.ndim(T) == 0 and np.ndim(d) == 0 and not isinstance(T, np.ndarray):
            T2 = float(T2)
        x2 = M.xval(C, f, T2)
        dom2 = dom & (x2 >= XMIN) & (x2 <= XMAX)
        B2 = call(F, "planck", f, T2)
        rho = M.planck(C, f, T2) / M.planck(C, f, T)
        r1, r2 = rp, M.rel_planck(x2)
        must_grow = rho * (1 - r2) > (1 + r1)
        B2l = M.ld(B2)
        bad = dom2 & (~(B2l >= Bl_ * (1 - r1 - r2)) | (must_grow & ~(B2l > Bl_)))
        _S["rec"].count("seq.planck.monotone.strict", int(np.sum(dom2 & must_grow)))
        F.check("planck-monotone-T", bad, {"x": x, "T2": T2, "B": B, "B2": B2, "true_ratio": rho})
        # -- the three spectral variables describe the same spectrum ---------------------------------
        fa = np.asarray(f, dtype=float)
        lam = cf / fa if isinstance(f, np.ndarray) else cf / float(f)
        Bw = call(F, "planck_wavelength", lam, T)
        fl = M.ld(f)
        err = _relerr(Bw, Bl_ * fl * fl / C.c)
        tol = M.rel_planck_wavelength(x) + rp + M.dlnB_dlnlam(x) * U + 2 * U
        _ratio("planck.wavelength_form", err, tol, dom)
        F.check("planck-wavelength-form", dom & ~(err <= tol), {"x": x, "B_lam": Bw, "rel_err": err, "bound": tol})
        nu = fa / cf if isinstance(f, np.ndarray) else float(f) / cf
        Bn = call(F, "planck_wavenumber", nu, T)
        err = _relerr(Bn, Bl_ * C.c)
        tol = M.rel_planck_wavenumber(x) + rp + M.dlnB_dlnnu(x) * U + 2 * U
        _ratio("planck.wavenumber_form", err, tol, dom)
        F.check("planck-wavenumber-form", dom & ~(err <= tol), {"x": x, "B_nu": Bn, "rel_err": err, "bound": tol})
        # -- one spectral position (python / numpy scalar) against an array of temperatures -------------
        if isinstance(T, np.ndarray) and T.ndim >= 1 and T.size >= 2 and isinstance(f, np.ndarray) and f.size:
            _S["rec"].count("seq.planck.scalar_position_array_T")
            xs = M.xval(C, float(fa.reshape(-1)[0]), T)
            doms = (xs >= XMIN) & (xs <= XMAX)
            for fname, pos, bound in (("planck", fa, M.rel_planck(xs)),
                                      ("planck_wavelength", np.asarray(lam), M.rel_planck_wavelength(xs)),
                                      ("planck_wavenumber", np.asarray(nu), M.rel_planck_wavenumber(xs))):
                p0 = float(pos.reshape(-1)[0])
                for sc in (p0, np.float64(p0)):
                    got = call(F, fname, sc, T)
                    full = call(F, fname, np.full(np.shape(T), p0), T)
                    ok_shape = np.shape(got) == np.shape(full)
                    err = _relerr(got, M.ld(full)) if ok_shape else np.array([np.inf])
                    # (two evaluations of the same formula: each within its rounding bound of the truth;
                    # python's and numpy's pow / exp may round differently)
                    F.check("planck-scalar-vs-array",
                            doms & ~(err <= 2 * bound + 4 * U) if ok_shape else np.array([True]),
                            {"func": fname, "got_shape": list(np.shape(got)), "want_shape": list(np.shape(full))})
        # -- whole-number positions / temperatures given as python ints (183 * 10**9 Hz, 250 K) ------------
        if isinstance(T, np.ndarray) and T.size >= 1 and isinstance(f, np.ndarray) and f.size:
            fi = int(round(float(fa.reshape(-1)[0])))
            Ti = int(round(float(np.asarray(T).reshape(-1)[0])))
            if fi >= 1 and Ti >= 1:
                _S["rec"].count("seq.planck.python_int_arguments")
                xi = M.xval(C, float(fi), float(Ti))
                if XMIN <= xi <= XMAX:
                    Bi = call(F, "planck", float(fi), float(Ti))
                    Ri = call(F, "rayleighjeans", float(fi), float(Ti))
                    for fname, a_int, a_flt in (("planck", (fi, Ti), (float(fi), float(Ti))),
                                                ("planck", (fi, float(Ti)), (float(fi), float(Ti))),
                                                ("rayleighjeans", (fi, Ti), (float(fi), float(Ti))),
                                                ("radiance2planckTb", (fi, Bi), (float(fi), Bi)),
                                                ("radiance2rayleighjeansTb", (fi, Ri), (float(fi), Ri))):
                        got = call(F, fname, *a_int)
                        ref = call(F, fname, *a_flt)
                        err = _relerr(np.asarray(got, dtype=float), M.ld(np.asarray(ref, dtype=float)))
                        F.check("planck-python-int", ~(np.asarray(err) <= 2 * M.rel_planck(np.asarray(xi)) + 16 * U),
                                {"func": fname, "f": fi, "T": Ti, "got": np.asarray(got, dtype=float),
                                 "as_float": np.asarray(ref, dtype=float)})
    except Abort:
        pass
    return F


def _col(g, ndim):
    return np.asarray(g).reshape((-1,) + (1,) * (ndim - 1))


def seq_spectrum(A):
    """A: grid (nf,), T (array of rank 0-2, Planck spectra perhz[nf, ...]), q (random positive spectrum of
    the same shape)."""
    F = Fails()
    C = _S["C"]
    f, T, q = np.asarray(A["grid"], dtype=float), np.asarray(A["T"], dtype=float), np.asarray(A["q"], dtype=float)
    try:
        nd = 1 + T.ndim
        fc = _col(f, nd)
        x = M.xval(C, fc, T[None, ...])
        dom = (x >= XMIN) & (x <= XMAX)
        perhz = call(F, "planck", fc, T[None, ...])
        rp = M.rel_planck(x)
        # per Hz -> per m maps planck onto planck_wavelength
        perm, lam = call(F, "perfrequency2perwavelength", perhz, f)
        want = call(F, "planck_wavelength", _col(lam, nd), T[None, ...])
        xr = x[::-1]
        err = _relerr(perm, M.ld(want))
        tol = M.rel_planck_wavelength(xr) + rp[::-1] + M.dlnB_dlnlam(xr) * U + 6 * U
        F.check("perconv-planck-forms", dom[::-1] & ~(err <= tol),
                {"x": xr, "per_m": perm, "planck_wavelength": want, "rel_err": err, "bound": tol})
        back, f2 = call(F, "perwavelength2perfrequency", perm, lam)
        e1, e2 = _relerr(back, M.ld(perhz)), _relerr(f2, M.ld(f))
        F.check("perconv-inverse", dom & ~(e1 <= 10 * U), {"rel_err_values": e1})
        F.check("perconv-inverse", ~(e2 <= 3 * U), {"rel_err_grid": e2})
        # per Hz -> per 1/m maps planck onto planck_wavenumber
        perwn, wn = call(F, "perfrequency2perwavenumber", perhz, f)
        want = call(F, "planck_wavenumber", _col(wn, nd), T[None, ...])
        err = _relerr(perwn, M.ld(want))
        tol = M.rel_planck_wavenumber(x) + rp + M.dlnB_dlnnu(x) * U + 6 * U
        F.check("perconv-planck-forms", dom & ~(err <= tol),
                {"x": x, "per_wn": perwn, "planck_wavenumber": want, "rel_err": err, "bound": tol})
        back, f3 = call(F, "perwavenumber2perfrequency", perwn, wn)
        e1, e2 = _relerr(back, M.ld(perhz)), _relerr(f3, M.ld(f))
        F.check("perconv-inverse", dom & ~(e1 <= 4 * U), {"rel_err_values": e1})
        F.check("perconv-inverse", ~(e2 <= 3 * U), {"rel_err_grid": e2})
        # arbitrary positive spectra, every converter first (the grid then plays its own role)
        for first, second, tv in (("perfrequency2perwavelength", "perwavelength2perfrequency", 10),
                                  ("perwavelength2perfrequency", "perfrequency2perwavelength", 10),
                                  ("perfrequency2perwavenumber", "perwavenumber2perfrequency", 4),
                                  ("perwavenumber2perfrequency", "perfrequency2perwavenumber", 4)):
            a, g1 = call(F, first, q, f)
            if q.ndim >= 3:
                # the same spectrum in Fortran order (e.g. the transpose of a (lat, lon, f) cube)
                aF, gF = call(F, first, np.asfortranarray(q), f)
                _S["rec"].count("seq.spectrum.fortran_order_3d")
                F.check("perconv-memory-order",
                        ~(_relerr(aF, M.ld(a)) <= 2 * U) if np.shape(aF) == np.shape(a) else np.array([True]),
                        {"func": first, "shape": list(np.shape(q))})
            b, g2 = call(F, second, a, g1)
            e1, e2 = _relerr(b, M.ld(q)), _relerr(g2, M.ld(f))
            _ratio("perconv.inverse", e1, tv * U)
            F.check("perconv-inverse", ~(e1 <= tv * U), {"rel_err_values": e1, "first": 0})
            F.check("perconv-inverse", ~(e2 <= 3 * U), {"rel_err_grid": e2})
    except Abort:
        pass
    return F


def seq_units(A):
    F = Fails()
    v = A["v"]
    vl = M.ld(v)
    try:
        pairs = (("frequency2wavelength", "wavelength2frequency"), ("wavelength2frequency", "frequency2wavelength"),
                 ("frequency2wavenumber", "wavenumber2frequency"), ("wavenumber2frequency", "frequency2wavenumber"),
                 ("wavelength2wavenumber", "wavenumber2wavelength"), ("wavenumber2wavelength", "wavelength2wavenumber"))
        for a, b in pairs:
            back = call(F, b, call(F, a, v))
            err = _relerr(back, vl)
            F.check("unitconv-inverse", ~(err <= 3 * U), {"v": v, "back": back, "rel_err": err})
        # the same grids given with an integer dtype (numpy int64 array / python int): same answer as for
        # the float spelling of the same numbers
        vi = np.asarray(v, dtype=float)
        if np.all(np.isfinite(vi)) and np.all(vi >= 1) and np.all(vi < 2.0 ** 52):
            vint = np.floor(vi).astype(np.int64)
            vint = vint if isinstance(v, np.ndarray) else int(vint)
            vflt = np.floor(vi) if isinstance(v, np.ndarray) else float(np.floor(vi))
            _S["rec"].count("seq.units.integer_dtype")
            for a, _ in pairs[::2] + pairs[1::2]:
                gi, gf = call(F, a, vint), call(F, a, vflt)
                err = _relerr(gi, M.ld(gf))
                F.check("unitconv-integer-input", ~(err <= 3 * U), {"v": vint, "got": gi, "float_input": gf})
        cyc = call(F, "wavenumber2frequency", call(F, "wavelength2wavenumber", call(F, "frequency2wavelength", v)))
        err = _relerr(cyc, vl)
        F.check("unitconv-cycle", ~(err <= 4 * U), {"v": v, "back": cyc, "rel_err": err})
        cyc = call(F, "wavelength2frequency", call(F, "wavenumber2wavelength", call(F, "frequency2wavenumber", v)))
        err = _relerr(cyc, vl)
        F.check("unitconv-cycle", ~(err <= 4 * U), {"v": v, "back": cyc, "rel_err": err})
    except Abort:
        pass
    return F


def _optics_case(n1, n2, th, i, shape, brewster=False):
    """explicit single-element case for a check made on a sub-batch"""
    args = {"n1": _enc(_elem(n1, shape, i)), "n2": _enc(_elem(n2, shape, i)),
            "theta": _enc(_elem(th, shape, i))}
    return {"kind": "optics", "tag": "scalar", "args": args, "theta_is_brewster": brewster}


def seq_optics(A):
    F = Fails()
    n1, n2, th = A["n1"], A["n2"], A["theta"]
    cplx = np.iscomplexobj(n2)
    try:
        call(F, "snell", n1, n2, th)
    except Abort:
        pass
    shape = np.broadcast(n1, n2, th).shape
    scalar = shape == () and not any(isinstance(v, np.ndarray) for v in (n1, n2, th))
    flat = [np.broadcast_to(np.asarray(v), shape).ravel() for v in (n1, n2, th)]

    def sub(mask):
        if scalar:
            return (n1, n2, th) if mask.all() else None
        if not mask.any():
            return None
        if mask.all():
            return n1, n2, th
        return tuple(v[mask] for v in flat)
    if cplx:
        tir = np.zeros(flat[0].shape, dtype=bool)
    else:
        s, band = M.snell_real(flat[0], flat[1], flat[2])
        tir = np.asarray(s > 1 + band)
    _S["rec"].count("seq.optics.total_reflection", int(tir.sum()))
    # total reflection: |Rv|, |Rh| <= 1 is demanded there as well (decided by the post-condition)
    a = sub(tir)
    if a is not None:
        try:
            call(F, "fresnel", *a)
        except Abort:
            pass
    a = sub(~tir)
    if a is None:
        return F
    m1, m2, t = a
    try:
        call(F, "fresnel", m1, m2, t)
        zero = 0.0 if scalar else np.zeros(np.shape(t))
        Rv0, Rh0 = call(F, "fresnel", m1, m2, zero)
        d = np.abs(M.ld(np.abs(Rv0)) - M.ld(np.abs(Rh0)))
        hit = F.check("fresnel-normal-incidence", ~(d <= 8 * U), {"abs_Rv": np.abs(Rv0), "abs_Rh": np.abs(Rh0)})
        if hit:
            F[-1]["case"] = _optics_case(m1, m2, zero, *hit)
        if not cplx:
            thb = np.degrees(np.arctan(np.asarray(m2, dtype=float) / np.asarray(m1, dtype=float)))
            if scalar:
                thb = float(thb)
            RvB, _ = call(F, "fresnel", m1, m2, thb)
            ref, _ = M.fresnel_ref(m1, m2, thb)
            tol = np.abs(ref) + M.fresnel_rv_tol(m1, m2, thb)
            _S["rec"].count("seq.optics.brewster", int(np.size(thb)))
            _ratio("fresnel.brewster", np.abs(M.ld(RvB)), tol)
            hit = F.check("fresnel-brewster", ~(np.abs(M.ld(RvB)) <= tol),
                          {"theta_B": thb, "Rv": RvB, "bound": tol, "n1": m1, "n2": m2})
            if hit:
                F[-1]["case"] = _optics_case(m1, m2, thb, *hit, brewster=True)
    except Abort:
        pass
    return F


SEQ = {"planck": seq_planck, "spectrum": seq_spectrum, "units": seq_units, "optics": seq_optics}


# --------------------------------------------------------------------------------------
# driver
# --------------------------------------------------------------------------------------
def _names(A):
    return [k for k in A if not k.startswith("_")]


def build(args, tag):
    out = {}
    for k, v in args.items():
        v = _dec(v)
        if tag == "0d" and not isinstance(v, np.ndarray):
            v = np.array(v)
        out[k] = v
    out["_tag"] = tag
    return out


def _listed(A):
    return {k: _enc_any(A[k]) for k in _names(A)}


def _probe(kind, args, tag, key):
    real = _S["rec"]
    _S["rec"] = Recorder(ID, {})
    try:
        return any(f["key"] == key for f in SEQ[kind](build(args, tag)))
    except Exception:
        return False
    finally:
        _S["rec"] = real


def _total(A):
    return int(sum(np.size(A[k]) for k in _names(A)))


def shrink(kind, A, tag, f):
    names = _names(A)
    base = {"kind": kind}
    if kind == "spectrum":
        g, T, q = (np.asarray(A[k], dtype=float) for k in ("grid", "T", "q"))
        if f["idx"] is not None and q.ndim > 1:
            j = np.unravel_index(min(f["idx"], q.size - 1), q.shape)
            cand = {"grid": g.tolist(), "T": float(T[j[1:]]), "q": q[(slice(None),) + j[1:]].tolist()}
            if _probe(kind, cand, "1d", f["key"]):
                return dict(base, tag="1d", args=cand)
        full = _listed(A)
        return dict(base, tag=tag, args=full) if _total(A) <= 400 else \
            dict(base, tag=tag, not_minimal="spectrum of %d samples" % q.size,
                 args={"grid": g[:8].tolist(), "T": np.ravel(T)[:2].tolist(), "q": np.ravel(q)[:8].tolist()})
    shape = np.broadcast(*[np.asarray(A[k]) for k in names]).shape
    size = int(np.prod(shape)) if shape else 1
    if size > 1:
        for i in ([f["idx"]] if f["idx"] is not None else []) + [0]:
            single = {k: _enc(_elem(A[k], shape, i)) for k in names}
            for t in (("scalar",) if tag == "scalar" else ("one", "scalar")):
                args = single if t == "scalar" else {k: [v] for k, v in single.items()}
                if _probe(kind, args, t, f["key"]):
                    return dict(base, tag=t, args=args)
    if _total(A) <= 400:
        return dict(base, tag=tag, args=_listed(A))
    i = f["idx"] or 0
    return dict(base, tag="1d", not_minimal="fails only inside the full batch of %d elements" % size,
                args={k: _enc_any(np.broadcast_to(np.asarray(A[k]), shape).ravel()[max(0, i - 2):i + 2])
                      for k in names})


class Ctx:
    def __init__(self, rec, spec):
        self.rec, self.spec = rec, spec
        self.budget = 3000 if spec.get("n", 0) < 500000 else 6000
        self.samples = 0


def drive(ctx, kind, A, tag, n, nt_sig=None, nt_mask=None, nt_cols=None):
    """n = number of elements pushed through the sequence; nt_cols = per-element identifying inputs"""
    rec = ctx.rec
    A = dict(A, _tag=tag)
    rec.ev(n)
    rec.count("seq.%s.elements" % kind, n)
    rec.count("seq.%s.shape.%s" % (kind, tag))
    if ctx.samples < 2 and _total(A) <= 6:
        ctx.samples += 1
        rec.sample({"kind": kind, "tag": tag, "args": _listed(A)})
    try:
        F = SEQ[kind](A)
    except Exception as exc:
        rec.inconc("sequence %s crashed: %r %s" % (kind, exc, traceback.format_exc()[-600:]))
        return
    seen = set()
    for f in F:
        if f["key"] in seen:
            continue
        seen.add(f["key"])
        case = f["case"] if f["case"] is not None else shrink(kind, A, tag, f)
        rec.violation(f["key"], case, f["detail"])
    if nt_mask is not None and ctx.budget > 0:
        mask = np.ravel(nt_mask)
        idx = np.flatnonzero(mask)[:min(150, ctx.budget)]
        sig = np.broadcast_to(np.asarray(nt_sig, dtype=object), np.shape(nt_mask)).ravel()
        cols = [np.broadcast_to(np.asarray(c), np.shape(nt_mask)).ravel() for c in nt_cols]
        for j in idx:
            rec.nontriv([kind, tag, sig[j]], [float("%.12g" % abs(c[j])) if not np.iscomplexobj(c[j])
                                              else [float("%.12g" % c[j].real), float("%.12g" % c[j].imag)]
                                              for c in cols])
        ctx.budget -= len(idx)


# --------------------------------------------------------------------------------------
# generators
# --------------------------------------------------------------------------------------
F_SPECIAL = np.array([1e8, 1e15, 183e9, 89e9, 3e12, 30e12])
T_SPECIAL = np.array([2.0, 1e4, 273.15, 300.0, 2.725, 5772.0])
D_CHOICES = np.array([0.0, 1e-15, 1e-12, 1e-9, 1e-6, 1e-3, 0.1, 1.0])   # 0 -> next float
X_CLS = np.array(["x-mid", "x-small", "x-large", "special"], dtype=object)


def gen_ft(rng, n):
    C = _S["C"]
    hk = float(C.h / C.k)
    k = rng.choice(4, n, p=[0.4, 0.25, 0.25, 0.1])
    f = 10 ** rng.uniform(8, 15, n)
    T = 10 ** rng.uniform(np.log10(2), 4, n)
    # small / large x: draw x, then a frequency for which T = hf/(kx) lies in [2, 1e4]
    for cls, (lo, hi) in ((1, (1e-6, 1e-4)), (2, (100.0, 600.0))):
        m = k == cls
        xx = 10 ** rng.uniform(np.log10(lo), np.log10(hi), m.sum())
        flo = np.maximum(1e8, 2.0 * xx / hk)
        fhi = np.minimum(1e15, 1e4 * xx / hk)
        ff = 10 ** (np.log10(flo) + rng.random(m.sum()) * (np.log10(fhi) - np.log10(flo)))
        f[m] = ff
        T[m] = np.clip(hk * ff / xx, 2.0, 1e4)
    m = k == 3
    f[m] = rng.choice(F_SPECIAL, m.sum())
    T[m] = rng.choice(T_SPECIAL, m.sum())
    x = np.asarray(M.xval(C, f, T), dtype=float)
    ok = (x >= 1.0000001e-6) & (x <= 599.9999)
    f, T, k, x = f[ok], T[ok], k[ok], x[ok]
    d = rng.choice(D_CHOICES, f.size)
    return f, T, d, X_CLS[k], x


def _nt_x(x):
    return (x <= 1e-3) | (x >= 50)


def run_planck(ctx, rng, n):
    rec = ctx.rec
    f, T, d, cls, x = gen_ft(rng, n)
    rec.count("seq.planck.smallx", int((x <= 1e-4).sum()))
    rec.count("seq.planck.largex", int((x >= 100).sum()))
    drive(ctx, "planck", {"f": f, "T": T, "d": d}, "1d", f.size, cls, _nt_x(x), (f, T))
    # broadcast (n,1) x (1,m)
    f, T, d, cls, x = gen_ft(rng, max(16, n // 40))
    m = min(24, T.size)
    xx = np.asarray(M.xval(_S["C"], f[:, None], T[None, :m]), dtype=float)
    drive(ctx, "planck", {"f": f[:, None], "T": T[None, :m], "d": float(d[0])}, "bcast", xx.size,
          "x-grid", _nt_x(xx) & (xx >= 1e-6) & (xx <= 600), (f[:, None] + 0 * xx, T[None, :m] + 0 * xx))
    # 1-d frequency grid (trailing axis) against a column of temperatures: (k,) x (m,1), incl. the
    # square case m == k in which leading- and trailing-axis alignment cannot be told apart by shape
    for square in (True, False):
        f, T, d, cls, x = gen_ft(rng, max(16, n // 40))
        k = min(12, f.size)
        m = k if square else min(7, T.size)
        fk, Tm = f[:k], T[:m, None]
        xx = np.asarray(M.xval(_S["C"], fk[None, :], Tm), dtype=float)
        drive(ctx, "planck", {"f": fk, "T": Tm, "d": float(d[0])}, "bcast-sq" if square else "bcast-row",
              xx.size, "x-grid", _nt_x(xx) & (xx >= 1e-6) & (xx <= 600),
              (fk[None, :] + 0 * xx, Tm + 0 * xx))
    # a result of more than 1e5 radiances (500 frequencies x 250 temperatures): same values as row by row
    if ctx.spec.get("shard", 0) % 4 == 0 and not _S.get("big_done"):
        _S["big_done"] = True
        f, T, d, cls, x = gen_ft(rng, 700)       # (the generator drops some draws)
        fb, Tb = f[:500, None], T[None, :250]
        if fb.shape[0] == 500 and Tb.shape[1] == 250:
            Fb = Fails()
            try:
                big = call(Fb, "planck", fb, Tb)
                rows = np.stack([np.asarray(call(Fb, "planck", float(fb[i, 0]), Tb[0])) for i in range(0, 500, 25)])
                ok = np.shape(big) == (500, 250)
                err = _relerr(np.asarray(big)[::25], M.ld(rows)) if ok else np.array([np.inf])
                xs = np.asarray(M.xval(_S["C"], fb[::25], Tb), dtype=float)
                Fb.check("planck-large-result", ((xs >= XMIN) & (xs <= XMAX) & ~(err <= 2 * M.rel_planck(xs) + 4 * U))
                         if ok else np.array([True]), {"shape": list(np.shape(big))})
            except Abort:
                pass
            rec.count("seq.planck.large_result_calls")
            for fl in Fb:
                rec.violation(fl["key"], {"kind": "planck", "tag": "big-500x250", "args": {}}, fl["detail"])
    # scalar temperature against a frequency array, scalars, 0-d
    f, T, d, cls, x = gen_ft(rng, max(16, n // 40))
    x1 = np.asarray(M.xval(_S["C"], f, T[0]), dtype=float)
    drive(ctx, "planck", {"f": f, "T": float(T[0]), "d": d}, "bcast1", f.size, "x-row",
          _nt_x(x1) & (x1 >= 1e-6) & (x1 <= 600), (f, T[0] + 0 * f))
    f, T, d, cls, x = gen_ft(rng, max(60, n // 300))
    for j in range(f.size):
        if j % 2:
            A, tag = {"f": float(f[j]), "T": float(T[j]), "d": float(d[j])}, "scalar"
        else:
            A, tag = {"f": np.array(f[j]), "T": np.array(T[j]), "d": np.array(d[j])}, "0d"
        drive(ctx, "planck", A, tag, 1, cls[j], _nt_x(x[j:j + 1]).reshape(()), (f[j], T[j]))


GRID_CLS = ["ascending", "descending", "unsorted", "two-point", "one-point"]


def run_conv(ctx, rng, n):
    C = _S["C"]
    hk = float(C.h / C.k)
    done = 0
    i = 0
    while done < n // 2:
        i += 1
        gc = GRID_CLS[int(rng.choice(5, p=[0.35, 0.15, 0.3, 0.1, 0.1]))]
        big = i % 25 == 0
        nf = {"two-point": 2, "one-point": 1}.get(gc, int(rng.choice([3, 5, 12, 40]) if not big else 200))
        rank = int(rng.choice([0, 1, 2], p=[0.3, 0.4, 0.3]))
        tshape = {0: (), 1: (int(rng.choice([1, 3, 7])) if not big else 40,),
                  2: (int(rng.choice([1, 2, 4])), int(rng.choice([1, 3, 5])) if not big else 25)}[rank]
        T = 10 ** rng.uniform(np.log10(2), 4, tshape)
        # frequencies for which x stays inside [1e-6, 600] for the middle temperature
        tm = float(np.exp(np.mean(np.log(T)))) if np.size(T) else 300.0
        lo, hi = max(1e8, 3e-6 * tm / hk), min(1e15, 200 * tm / hk)
        grid = 10 ** rng.uniform(np.log10(lo), np.log10(hi), nf)
        if gc == "ascending":
            grid = np.sort(grid)
        elif gc == "descending":
            grid = np.sort(grid)[::-1].copy()
        q = 10 ** rng.uniform(-20, 5, (nf,) + tshape)
        size = q.size
        nt = np.full(q.shape, (rank >= 1) or gc in ("unsorted", "descending"))
        sig = "rank%d|%s" % (rank + 1, gc)
        drive(ctx, "spectrum", {"grid": grid, "T": T, "q": q}, "nd" if rank else "1d", size, sig, nt,
              (_col(grid, q.ndim) + 0 * q, q))
        done += size
    # unit converters: grids over 30 decades, several shapes
    v = 10 ** rng.uniform(-14, 16, n // 2)
    sp = np.array([1e8, 1e15, 299792458.0, 1.0, 0.01, 100.0, 183e9, 5e-7])
    v[: sp.size] = sp
    drive(ctx, "units", {"v": v}, "1d", v.size, "decades", np.abs(np.log10(v) - 1) > 12, (v,))
    v2 = 10 ** rng.uniform(-14, 16, (8, max(2, n // 400)))
    drive(ctx, "units", {"v": v2}, "2d", v2.size, "decades", np.abs(np.log10(v2) - 1) > 12, (v2,))
    for j in range(max(40, n // 600)):
        val = float(10 ** rng.uniform(-14, 16))
        if j % 2:
            drive(ctx, "units", {"v": val}, "scalar", 1, "decades", np.array(abs(np.log10(val) - 1) > 12), (val,))
        else:
            drive(ctx, "units", {"v": np.array(val)}, "0d", 1, "decades", np.array(abs(np.log10(val) - 1) > 12),
                  (val,))


N1_SPECIAL = np.array([1.0, 1.5, 3.0, 1.33, 2.0])
N2_SPECIAL = np.array([0.5, 1.0, 10.0, 1.5, 1.33, 3.0, 0.6])
TH_SPECIAL = np.array([0.0, 90.0, 45.0, 1e-9, 89.999999, 30.0, 60.0, 1e-3])
TH_CLS = np.array(["theta-any", "theta-special", "theta-critical", "theta-brewster"], dtype=object)


def gen_optics(rng, n, cplx):
    n1 = np.where(rng.random(n) < 0.8, rng.uniform(1, 3, n), rng.choice(N1_SPECIAL, n))
    n2 = np.where(rng.random(n) < 0.75, rng.uniform(0.5, 10, n), rng.choice(N2_SPECIAL, n))
    eq = rng.random(n) < 0.05
    n2[eq] = n1[eq]
    low = rng.random(n) < 0.35                      # optically thinner second medium
    n2[low] = n1[low] * rng.uniform(0.17, 1.0, low.sum())
    n2 = np.clip(n2, 0.5, 10)
    k = rng.choice(4, n, p=[0.45, 0.2, 0.25, 0.1])
    th = rng.uniform(0, 90, n)
    m = k == 1
    th[m] = rng.choice(TH_SPECIAL, m.sum())
    m = (k == 2) & (n2 < n1)
    crit = np.degrees(np.arcsin(n2[m] / n1[m]))
    th[m] = np.clip(crit + rng.choice([0.0, 1e-13, -1e-13, 1e-12, -1e-12, 1e-9, -1e-9, 1e-6, -1e-6, 1e-3, -1e-3,
                                       0.5, 5.0], m.sum()), 0, 90)
    m = k == 3
    th[m] = np.degrees(np.arctan(n2[m] / n1[m]))
    sig = TH_CLS[k]
    if cplx:
        im = 10 ** rng.uniform(-6, 1, n)
        n2 = n2 + 1j * im
        sig = np.array(["complex|" + s for s in sig], dtype=object)
    return n1, n2, th, sig


def _nt_optics(n1, n2, th):
    if np.iscomplexobj(n2):
        return np.ones(np.broadcast(n1, n2, th).shape, dtype=bool)
    s = np.asarray(M.snell_real(n1, n2, th)[0], dtype=float)
    return (s > 1) | (np.abs(s - 1) < 1e-6) | (np.asarray(th) == 0) | (np.asarray(th) == 90) + 0 * s.astype(bool)


def run_optics(ctx, rng, n):
    rec = ctx.rec
    for cplx in (False, True):
        m = n // 2
        n1, n2, th, sig = gen_optics(rng, m, cplx)
        if cplx:
            rec.count("seq.optics.complex", m)
        drive(ctx, "optics", {"n1": n1, "n2": n2, "theta": th}, "1d", m, sig, _nt_optics(n1, n2, th), (n1, n2, th))
        # scalar n1, array n2, (k,1) angles
        n1, n2, th, sig = gen_optics(rng, max(8, n // 200), cplx)
        tk = th[:6].reshape(-1, 1)
        full = np.broadcast(n1[0], n2[None, :], tk).shape
        if cplx:
            rec.count("seq.optics.complex", int(np.prod(full)))
        drive(ctx, "optics", {"n1": float(n1[0]), "n2": n2[None, :], "theta": tk}, "bcast", int(np.prod(full)),
              "complex|grid" if cplx else "grid", _nt_optics(n1[0], n2[None, :], tk),
              (n1[0] + np.zeros(full), n2[None, :] + np.zeros(full), tk + np.zeros(full)))
        n1, n2, th, sig = gen_optics(rng, max(60, n // 400), cplx)
        for j in range(n1.size):
            A = {"n1": float(n1[j]), "n2": complex(n2[j]) if cplx else float(n2[j]), "theta": float(th[j])}
            if cplx:
                rec.count("seq.optics.complex")
            drive(ctx, "optics", A, "scalar", 1, sig[j], _nt_optics(n1[j], n2[j], th[j]).reshape(()),
                  (n1[j], n2[j], th[j]))


def run_shard(spec, rec):
    install(rec)
    ctx = Ctx(rec, spec)
    rng = np_rng_for(spec["seed"], "c08-" + spec["kind"], spec["shard"])
    {"planck": run_planck, "conv": run_conv, "optics": run_optics}[spec["kind"]](ctx, rng, int(spec["n"]))
    for hk, v in sorted(_S.pop("hist", {}).items()):
        rec.count(hk, v)


def replay(case, rec):
    em = install(rec)
    if case.get("kind") == "contract":
        name = case["func"]
        a = {k: _dec(v) for k, v in case["args"].items()}
        if name in UNIT_ARG:
            a = {UNIT_ARG[name]: a["x"]}
        elif name in PERCONV_ARGS:
            a = dict(zip(PERCONV_ARGS[name], (a["q"], a["grid"])))
        try:
            getattr(em, name)(**a)
        except Breach as b:
            rec.violation(b.key, case, b.detail)
        except Exception as exc:
            rec.violation("em-exception", case, {"exception": repr(exc)})
        return
    A = build(case["args"], case.get("tag", "1d"))
    rec.ev(1)
    seen = set()
    for f in SEQ[case["kind"]](A):
        if f["key"] not in seen:
            seen.add(f["key"])
            rec.violation(f["key"], case, f["detail"])
