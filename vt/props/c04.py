"""C04 - Collocator.collocate finds exactly the point pairs within distance and interval.

Clauses and where decided (check_call unless noted)
  * exactly the pairs with chord <= max_distance, |dt| < max_interval, both times in [start, end];
    each once; None when there is none                    brute-force oracle vt.models.colloc
  * points with NaN position ignored                       generator class 'nan'
  * stored interval = |dt| in s, stored distance = chord in km   check_call
  * same pair set for every bin_factor / magnitude_factor / leaf_size, either size ordering,
    thresholds as numbers or unit strings                  every call is compared with the one oracle
  * reused Collocator with any history of earlier calls    run_history (same data, swapped,
    perturbed below numpy.allclose's tolerance, 10x larger partner)
  * transposed when primary and secondary are swapped      swapped calls in run_history
  * small (direct) and large (temporally pre-binned, > 1e6 candidate pairs) paths   'big' shards
  * scan-line x scan-position grids                        class 'grid'
Structural invariant of C13 (valid pair indices, every stored point used) is evaluated on every
result as a post-condition (vt.monitors.collocmon).
"""
import traceback

import numpy as np

from vt.core import rng_for
from vt.models import colloc as M

ID = "C04"
LEVEL = "exploration"
RULE = ("point-set pairs from hostile classes (random, threshold-straddling clusters at r*(1+-{1e-6,1e-3}), "
        "|dt| exactly max_interval +-1 tick, duplicates, first-first-only, none, NaNs, poles, date line, "
        "single points, grids, temporal gaps, > 1e6 candidate pairs) x thresholds (numbers / unit strings) x "
        "windows x tuning parameters x call histories on one Collocator, each repeated under several numpy "
        "RNG seeds (the index shuffles its build points). non-trivial = >= 1 expected pair and >= 1 candidate "
        "pair within 10 % of a threshold; distinct by (class, path, options | generator seed + call)")
ASSUMPTIONS = [
    "oracle: all n*m pairs in numpy.longdouble, chord on a sphere of R = 6 378 100 m (asserted equal to "
    "typhon.constants.earth_radius), |dt| in integer nanoseconds",
    "distance don't-care band: |d - r| <= 1e-9 r + 1e-8 km - either answer accepted inside, exact outside",
    "points are identified by an 'id' variable carried in both datasets, never by index",
    "stored interval: exact for whole-second data, within the 1 s resolution of the stored unit otherwise; "
    "stored distance within 1e-6 km of the chord",
    "precondition of the statement: the shared dimension carries unique coordinate labels",
]
MIN_NONTRIVIAL = {"quick": 150, "thorough": 3000}
REQUIRED_COUNTERS = {"collocate.calls": 300, "collocate.binned_path": 4, "history.calls": 60,
                     "collocate.none_expected": 10, "collocate.swapped": 30}
SHARD_TIMEOUT = {"quick": 900, "thorough": 7200}

CLASSES = ["random", "threshold", "threshold", "dup", "first-first", "none", "nan", "single", "grid",
           "poles", "dateline", "subsecond", "dateline-split", "pole-split"]


def shards(tier, seed):
    q = tier == "quick"
    out = []
    for i in range(12):
        out.append({"kind": "small", "seed": seed, "shard": i, "n": 60 if q else 3000})
    for i in range(4):
        out.append({"kind": "big", "seed": seed, "shard": 12 + i, "n": 5 if q else 90})
    return out


# ---------------------------------------------------------------------------
def to_dataset(pts, layout, seed):
    """Build the xarray.Dataset handed to typhon."""
    import xarray as xr
    rng = np.random.default_rng(seed)
    n = pts["time"].size
    t = pts["time"].astype("datetime64[ns]")
    if layout["kind"] == "flat":
        dim = layout["dim"]
        if layout["labels"] == "int":
            labels = rng.permutation(n) * 3 + 7
        elif layout["labels"] == "str":
            labels = np.array(["p%05d" % k for k in rng.permutation(n)])
        else:
            labels = None
        ds = xr.Dataset({
            "time": (dim, t), "lat": (dim, pts["lat"]), "lon": (dim, pts["lon"]),
            "id": (dim, pts["id"]),
            "val": ((dim, "channel"), np.stack([pts["id"] * 1.0, pts["id"] * 2.0], axis=1)),
        })
        if labels is not None:
            ds = ds.assign_coords({dim: labels})
        return ds
    # grid: scan lines x scan positions, 1-d time per line
    w = layout["width"]
    assert n % w == 0
    lines = n // w
    ds = xr.Dataset({
        "time": ("scnline", t.reshape(lines, w)[:, 0]),
        "lat": (("scnline", "scnpos"), pts["lat"].reshape(lines, w)),
        "lon": (("scnline", "scnpos"), pts["lon"].reshape(lines, w)),
        "id": (("scnline", "scnpos"), pts["id"].reshape(lines, w)),
    })
    # unique labels on both grid dimensions (precondition of the statement: without labels
    # xarray selects positionally and typhon cannot address the points)
    ds = ds.assign_coords(scnline=rng.permutation(lines) * 2 + 11, scnpos=np.arange(w))
    return ds


def gen_spec(rng, big=False):
    cls = rng.choice(CLASSES) if not big else rng.choice(["random", "gaps", "threshold", "threshold", "threshold"])
    r = rng.choice([0.5, 5.0, 5.0, 50.0, 300.0, 1500.0, 2500.0] if rng.random() < 0.25 and not big
                   else [0.5, 5.0, 5.0, 50.0, 300.0])
    mi_s = rng.choice([1, 60, 300, 3600])
    tick = M.SEC
    g = {"cls": cls, "seed": rng.randrange(2 ** 31), "r_km": r, "mi_ns": mi_s * M.SEC, "tick_ns": tick,
         "region": "mid"}
    if cls == "subsecond":
        g["cls"] = "threshold"
        g["tick_ns"] = M.SEC // 1000
        g["mi_ns"] = rng.choice([500, 1500, 2000]) * (M.SEC // 1000)
    if cls != "subsecond" and not big and g["seed"] % 6 == 2:
        # thresholds of more than a day (25 hours, 3 days): the stored interval is the total, not a
        # component of it
        g["mi_ns"] = [90000, 259200][(g["seed"] // 6) % 2] * M.SEC
    if cls == "poles":
        g["cls"] = rng.choice(["random", "threshold"])
        g["region"] = rng.choice(["pole", "spole"])
    if cls == "dateline":
        g["cls"] = rng.choice(["random", "threshold"])
        g["region"] = "dateline"
    if cls in ("dateline-split", "pole-split"):
        # whole point sets on opposite sides of the date line / in opposite longitude sectors at a pole
        g["cls"] = "random"
        g["split"] = cls.split("-")[0]
        g["region"] = "dateline" if g["split"] == "dateline" else "pole"
        g["spread_km"] = rng.choice([0.4, 1.0, 2.0]) * r
        g["span_ns"] = g["mi_ns"]
    if big:
        g["n1"], g["n2"] = rng.choice([(1100, 1000), (1500, 700), (600, 2400), (3000, 400)])
        g["spread_km"] = 40 * r
        g["span_ns"] = 30 * g["mi_ns"]
    elif cls == "single":
        g["cls"] = "threshold"
        g["n1"], g["n2"] = rng.choice([(1, 1), (1, 7), (9, 1)])
    else:
        g["n1"] = rng.choice([1, 2, 3, 5, 12, 40, 150])
        g["n2"] = rng.choice([1, 2, 3, 5, 12, 40, 150, 400])
        if g.get("split"):
            g["n1"], g["n2"] = rng.choice([(1, 1), (3, 2), (12, 12), (40, 5)])
    if cls == "first-first":
        g["n1"], g["n2"] = max(2, g["n1"]), max(2, g["n2"])
        g["shuffle_rows"] = False
    layout1 = {"kind": "flat", "dim": rng.choice(["obs", "x", "scnline"]),
               "labels": rng.choice(["int", "str", "int"])}
    layout2 = {"kind": "flat", "dim": rng.choice(["obs", "y", "collocation"]),
               "labels": rng.choice(["int", "str"])}
    if cls == "grid":
        w = rng.choice([2, 3, 5])
        g["n1"] = max(w, g["n1"] // w * w)
        layout1 = {"kind": "grid", "width": w}
        g["grid_w"] = w
    # window
    win = rng.choice([None, None, "inside", "touch", "outside"])
    # the documented constructor option: "finding collocations can be parallelized in threads"
    thr = rng.choice([None, None, 2, 4] if not big else [None, 2, 4, 4])
    return {"kind": "colloc", "gen": g, "layout1": layout1, "layout2": layout2, "window": win,
            "threads": thr}


def window_of(spec, p, s):
    win = spec["window"]
    if win is None:
        return None, None
    ts = np.sort(np.concatenate([p["time"], s["time"]]))
    if win == "inside":
        return int(ts[len(ts) // 4]), int(ts[(3 * len(ts)) // 4])
    if win == "touch":
        return int(ts[len(ts) // 3]), int(ts[len(ts) // 3 + (len(ts) // 3)])
    return int(ts[-1] + 10 * M.SEC), int(ts[-1] + 3600 * M.SEC)


def unit_spelling(rng, r_km, mi_ns):
    """numbers or unit strings for the same thresholds."""
    d = rng.choice(["num", "km", "m"])
    if d == "num":
        rd = r_km
    elif d == "km":
        rd = "%r km" % r_km
    else:
        rd = "%r m" % (r_km * 1000.0)
    if mi_ns % M.SEC:
        ri = "%d ms" % (mi_ns // (M.SEC // 1000))
    else:
        sec = mi_ns // M.SEC
        t = rng.choice(["num", "s", "min"])
        if t == "num":
            ri = sec
        elif t == "s":
            ri = "%d s" % sec
        elif sec % 60 == 0:
            ri = "%d min" % (sec // 60)
        else:
            ri = "%d s" % sec
    return rd, ri


def extract_pairs(res, pname, sname):
    pairs = res["Collocations/pairs"].values
    idp = res[pname + "/id"].values
    ids = res[sname + "/id"].values
    return [(int(idp[a]), int(ids[b])) for a, b in zip(pairs[0], pairs[1])]


def check_call(rec, coll, case, p, s, call, tag="collocate", datasets=None):
    """One collocate() call on `coll` compared with the oracle. call: options dict."""
    from vt.monitors import collocmon
    g = case["gen"]
    swapped = call.get("swap", False)
    P, S = (s, p) if swapped else (p, s)
    L1, L2 = (case["layout2"], case["layout1"]) if swapped else (case["layout1"], case["layout2"])
    start_ns, end_ns = call.get("start_ns"), call.get("end_ns")
    mi_ns = None if call.get("spatial_only") else g["mi_ns"]
    r_km = g["r_km"]
    if call.get("zero") == "mi":        # a threshold of exactly zero is a threshold: no |dt| is smaller
        mi_ns = 0
    must, may, info = M.brute(P, S, mi_ns, r_km, start_ns, end_ns)
    if call.get("zero"):
        rec.count("collocate.zero_threshold_calls")
    if datasets is not None:
        dsP, dsS = datasets  # the caller keeps (and updates in place) its own dataset objects
    else:
        dsP = to_dataset(P, L1, g["seed"] + 1)
        dsS = to_dataset(S, L2, g["seed"] + 2)
    kw = dict(max_interval=None if call.get("spatial_only") else call["mi"], max_distance=call["r"], bin_factor=call.get("bin_factor", 1),
              magnitude_factor=call.get("magnitude_factor", 10), leaf_size=call.get("leaf_size", 40))
    if start_ns is not None:
        kw["start"] = np.datetime64(start_ns, "ns").astype("datetime64[us]").item()
        kw["end"] = np.datetime64(end_ns, "ns").astype("datetime64[us]").item()
    np.random.seed(call.get("npseed", 0))
    names = call.get("names")
    a1 = (names[0], dsP) if names else dsP
    a2 = (names[1], dsS) if names else dsS
    pname, sname = names if names else ("primary", "secondary")
    sub = dict(case, calls=[call])
    rec.ev()
    rec.count(tag + ".calls")
    if swapped:
        rec.count("collocate.swapped")
    if P["time"].size * S["time"].size > 1000000:
        rec.count("collocate.binned_path")
    if call.get("failed_first"):
        # call history: the same request fails first (a leaf size of 0 is refused while the search tree is
        # being built) and is then repeated with valid options on the same object
        rec.count("history.failed_build_then_retry")
        try:
            np.random.seed(call.get("npseed", 0))
            coll.collocate(a1, a2, **dict(kw, leaf_size=0))
            rec.count("history.failed_build_did_not_fail")
        except Exception:
            pass
        np.random.seed(call.get("npseed", 0))
    snap = [(d, {v: d[v].values.copy() for v in d.variables}) for d in (dsP, dsS)]
    try:
        res = coll.collocate(a1, a2, **kw)
    except Exception as exc:
        key = "collocate-exception"
        rec.violation(key, sub, {"exception": repr(exc), "trace": traceback.format_exc()[-1500:],
                                 "expected_pairs": len(must)})
        return
    # the caller's datasets must come back untouched (they are collocated again in histories and by
    # collocate_filesets, where one secondary serves several primaries)
    for d, before in snap:
        for v, arr in before.items():
            now = d[v].values if v in d.variables else None
            same = now is not None and now.shape == arr.shape and (
                np.array_equal(now, arr, equal_nan=True) if arr.dtype.kind in "fc"
                else np.array_equal(now, arr))
            if not same:
                rec.violation("collocate-mutates-input", sub, {"variable": str(v)})
                return
    rec.count("collocate.inputs_unchanged")
    if not must and not may:
        rec.count("collocate.none_expected")
    if res is None:
        if must:
            rec.violation("collocate-missing-pairs", sub,
                          {"why": "None returned although pairs exist", "n_expected": len(must),
                           "example": list(must)[:3], "info": [info[k] for k in list(must)[:3]]})
        return
    sv = collocmon.structure_violation(res)
    if sv:
        rec.violation("collocation-structure", sub, sv)
        return
    got = extract_pairs(res, pname, sname)
    gset = set(got)
    detail = None
    if len(got) != len(gset):
        detail = {"why": "a pair is reported twice", "n": len(got), "distinct": len(gset)}
    elif must - gset:
        miss = sorted(must - gset)[:3]
        detail = {"why": "qualifying pairs missing", "n_missing": len(must - gset), "n_expected": len(must),
                  "examples": miss, "dt_ns/chord_km": [info[k] for k in miss]}
    elif gset - must - may:
        extra = sorted(gset - must - may)[:3]
        detail = {"why": "pairs reported that do not qualify", "n_extra": len(gset - must - may),
                  "examples": extra}
        byid_p = {int(i): k for k, i in enumerate(P["id"])}
        byid_s = {int(i): k for k, i in enumerate(S["id"])}
        ex = []
        for a, b in extra:
            i, j = byid_p[a], byid_s[b]
            d = float(M.chord_matrix(P["lat"][i:i + 1], P["lon"][i:i + 1], S["lat"][j:j + 1],
                                     S["lon"][j:j + 1])[0, 0])
            ex.append({"dt_ns": int(abs(P["time"][i] - S["time"][j])), "chord_km": d,
                       "t_p": int(P["time"][i]), "t_s": int(S["time"][j])})
        detail["measured"] = ex
        detail["thresholds"] = {"mi_ns": g["mi_ns"], "r_km": g["r_km"], "start_ns": start_ns,
                                "end_ns": end_ns}
    if detail is None:
        # stored interval / distance belong to the pair
        iv = res["Collocations/interval"].values
        ds_ = res["Collocations/distance"].values
        try:
            iv_s = iv.astype("timedelta64[ns]").astype(np.int64) / 1e9
        except Exception:
            iv_s = np.asarray(iv, dtype=float)
        for k, key in enumerate(got):
            dt_ns, d_km = info[key]
            if dt_ns >= 86400 * M.SEC:
                rec.count("collocate.pairs_a_day_or_more_apart")
            whole = dt_ns % M.SEC == 0
            if (whole and iv_s[k] * M.SEC != dt_ns) or (not whole and abs(iv_s[k] - dt_ns / 1e9) >= 1.0):
                detail = {"why": "stored interval is not the pair's |dt|", "pair": key,
                          "stored_s": float(iv_s[k]), "dt_s": dt_ns / 1e9}
                break
            if abs(float(ds_[k]) - d_km) > 1e-6:
                detail = {"why": "stored distance is not the pair's distance in km", "pair": key,
                          "stored": float(ds_[k]), "chord_km": d_km}
                break
    if detail is not None:
        key = {"qualifying pairs missing": "collocate-missing-pairs",
               "pairs reported that do not qualify": "collocate-extra-pairs",
               "a pair is reported twice": "collocate-duplicate-pairs"}.get(detail["why"],
                                                                            "collocate-stored-values")
        rec.violation(key, sub, detail)
        return
    if must and M.near_threshold(info, g["mi_ns"], g["r_km"]):
        path = "binned" if P["time"].size * S["time"].size > 1000000 else "direct"
        rec.nontriv([tag, g["cls"], g.get("region"), g.get("split"), path, swapped, case["window"],
                     case["layout1"]["kind"], type(call["r"]).__name__, type(call["mi"]).__name__],
                    [g["seed"], call])
        rec.count("collocate.nontrivial")


def make_call(rng, case, p, s, **over):
    g = case["gen"]
    r, mi = unit_spelling(rng, g["r_km"], g["mi_ns"])
    call = {"r": r, "mi": mi, "bin_factor": rng.choice([1, 1, 2, 5]),
            "magnitude_factor": rng.choice([1, 10, 10, 1000]), "leaf_size": rng.choice([1, 2, 40, 40]),
            "npseed": rng.randrange(10 ** 6),
            "names": rng.choice([None, None, ["MHS", "AVHRR"]])}
    st, en = window_of(case, p, s)
    if st is not None:
        call["start_ns"], call["end_ns"] = st - st % 1000, en - en % 1000
    call.update(over)
    return call


def run_history(rec, rng, case):
    """One Collocator object driven through a sequence of calls."""
    from typhon.collocations import Collocator
    p, s = M.gen_case(case["gen"])
    coll = Collocator(threads=case.get("threads"))
    steps = case.get("history") or rng.choice([["inplace-update"], ["grid-reuse-then-magnitude"],
                        ["single-then-stack"], ["single-then-stack", "same"],
                        ["same", "same"], ["same", "swap", "same"], ["same", "perturb", "perturb2"],
                        ["same", "bigger", "same"], ["swap", "perturb", "swap", "same"],
                        ["same", "perturb-secondary", "same"]])
    p0, s0 = p, s
    for step in steps:
        if step == "inplace-update":
            # the caller owns two datasets and moves the positions of one of them *in place* between
            # calls (same array objects); spatial-only and full searches
            flat = {"kind": "flat", "dim": "obs", "labels": "int"}
            c1 = dict(case, layout1=flat, layout2=flat, window=None)
            clean = lambda d: {k: v[~(np.isnan(d["lat"]) | np.isnan(d["lon"]))] for k, v in d.items()}
            pp, ss = clean(p0), clean(s0)
            if pp["time"].size == 0 or ss["time"].size == 0:
                continue
            dsP, dsS = to_dataset(pp, flat, 1), to_dataset(ss, flat, 2)
            spatial = rng.random() < 0.6
            for k in range(3):
                call = make_call(rng, c1, pp, ss, spatial_only=spatial, inplace=k)
                call["step"] = step
                rec.count("history.calls")
                rec.count("history.inplace_calls")
                check_call(rec, coll, dict(c1, history=steps), pp, ss, call, tag="history",
                           datasets=(dsP, dsS))
                moved = M.perturb(pp if k % 2 == 0 else ss, rng.choice([9.0, 3000.0, 40000.0]),
                                  case["gen"]["seed"] + 30 + k)
                target, ds = (pp, dsP) if k % 2 == 0 else (ss, dsS)
                target["lat"][...] = moved["lat"]
                target["lon"][...] = moved["lon"]
                ds["lat"].values[...] = moved["lat"]
                ds["lon"].values[...] = moved["lon"]
            continue
        if step == "grid-reuse-then-magnitude":
            # consecutive pairs with an identical fixed grid on one side (legitimate index reuse),
            # directly followed by a pair whose sizes differ by more than the magnitude factor
            flat = {"kind": "flat", "dim": "obs", "labels": "int"}
            c1 = dict(case, layout1=flat, layout2=flat, window=None)
            gg = dict(case["gen"], n1=rng.choice([60, 120]), n2=rng.choice([20, 40]), cls="random",
                      split=None, grid_w=None)
            grid, sa = M.gen_case(gg)
            _, sb = M.gen_case(dict(gg, seed=gg["seed"] + 1))
            tiny, big = M.gen_case(dict(gg, seed=gg["seed"] + 2, n1=3, n2=rng.choice([50, 100])))
            for k, (a, b) in enumerate(((grid, sa), (grid, sb), (tiny, big), (grid, sa))):
                call = make_call(rng, c1, a, b, magnitude_factor=10, gridreuse=k)
                call["step"] = step
                rec.count("history.calls")
                check_call(rec, coll, dict(c1, history=steps), a, b, call, tag="history")
            continue
        if step == "single-then-stack":
            # call 1: both sets are one point (index built from a single point); call 2: a time series
            # of several points that all sit exactly at that position (a station)
            one_p = {k: v[:1].copy() for k, v in p0.items()}
            one_s = {k: v[:1].copy() for k, v in s0.items()}
            one_s["lat"][:] = one_p["lat"][0]
            one_s["lon"][:] = one_p["lon"][0]
            one_s["time"][:] = one_p["time"][0]
            flat = {"kind": "flat", "dim": "obs", "labels": "int"}
            c1 = dict(case, layout1=flat, layout2=flat, window=None)
            call = make_call(rng, c1, one_p, one_s, stack=1)
            call["step"] = step
            rec.count("history.calls")
            check_call(rec, coll, dict(c1, history=steps), one_p, one_s, call, tag="history")
            k = rng.choice([3, 6, 12])
            tick = case["gen"].get("tick_ns", M.SEC)
            st_p = {"time": one_p["time"][0] + np.arange(k, dtype=np.int64) * tick,
                    "lat": np.full(k, one_p["lat"][0]), "lon": np.full(k, one_p["lon"][0]),
                    "id": np.arange(k, dtype=np.int64) + 200000}
            st_s = {"time": one_p["time"][0] + np.arange(k - 1, dtype=np.int64) * tick,
                    "lat": np.full(k - 1, one_p["lat"][0]), "lon": np.full(k - 1, one_p["lon"][0]),
                    "id": np.arange(k - 1, dtype=np.int64) + 600000}
            call = make_call(rng, c1, st_p, st_s, stack=k)
            call["step"] = step
            rec.count("history.calls")
            check_call(rec, coll, dict(c1, history=steps), st_p, st_s, call, tag="history")
            continue
        if step == "same":
            call = make_call(rng, case, p0, s0)
            pp, ss = p0, s0
        elif step == "swap":
            call = make_call(rng, case, p0, s0, swap=True)
            pp, ss = p0, s0
        elif step in ("perturb", "perturb2"):
            # same shapes, positions moved by ~11 m (numpy.allclose: rtol 1e-5 of 20 deg = 2e-4 deg = 22 m)
            pp = M.perturb(p0, 11.0, case["gen"]["seed"] + (7 if step == "perturb" else 8))
            ss = s0
            call = make_call(rng, case, pp, ss, perturb=step)
        elif step == "perturb-secondary":
            pp = p0
            ss = M.perturb(s0, 9.0, case["gen"]["seed"] + 9)
            call = make_call(rng, case, pp, ss, perturb=step)
        else:  # a 10x larger partner: forces the index to be built from the other side
            g2 = dict(case["gen"], n2=max(12, case["gen"]["n1"] * 11), seed=case["gen"]["seed"] + 5,
                      cls="random")
            _, ss = M.gen_case(g2)
            pp = p0
            call = make_call(rng, case, pp, ss, bigger=True)
        if step in ("perturb", "perturb-secondary") or call.get("bigger"):
            call["failed_first"] = case["gen"]["seed"] % 2 == 0
        call["step"] = step
        rec.count("history.calls")
        check_call(rec, coll, dict(case, history=steps), pp, ss, call, tag="history")
    # every answer is also demanded from a fresh object (same oracle)
    check_call(rec, Collocator(threads=case.get("threads")), case, p0, s0, make_call(rng, case, p0, s0))


def run_single(rec, rng, case):
    from typhon.collocations import Collocator
    p, s = M.gen_case(case["gen"])
    coll = Collocator(threads=case.get("threads"))
    base = make_call(rng, case, p, s)
    # the same case under several numpy seeds (the index shuffles its build points) and tunings
    for k in range(3):
        call = dict(base, npseed=rng.randrange(10 ** 6))
        if k:
            call.update(make_call(rng, case, p, s))
        check_call(rec, Collocator(threads=case.get("threads")) if k % 2 else coll, case, p, s, call)
    check_call(rec, Collocator(threads=case.get("threads")), case, p, s, make_call(rng, case, p, s, swap=True))
    if p["time"].size * s["time"].size <= 40000 and case["gen"]["seed"] % 3 == 1:
        k = case["gen"]["seed"] // 3
        # (a zero max_distance is outside the domain: GeoIndex.query refuses it with ValueError)
        zc = dict(base, mi=[0, "0 s", "0 min", "0 h"][k % 4], zero="mi")
        check_call(rec, Collocator(threads=case.get("threads")), case, p, s, zc)
    if p["time"].size * s["time"].size <= 40000:
        # spatial-only search (max_interval=None)
        rec.count("collocate.spatial_only")
        check_call(rec, Collocator(threads=case.get("threads")), case, p, s, make_call(rng, case, p, s, spatial_only=True))


def run_shard(spec, rec):
    import typhon.constants
    if abs(float(typhon.constants.earth_radius) - 6378100.0) > 1e-6:
        rec.violation("earth-radius-changed", {"kind": "constant"},
                      {"earth_radius": float(typhon.constants.earth_radius)})
    rng = rng_for(spec["seed"], "c04", spec["shard"])
    for i in range(spec["n"]):
        case = gen_spec(rng, big=spec["kind"] == "big")
        if i < 1:
            rec.sample(case)
        try:
            if spec["kind"] == "big":
                run_single(rec, rng, case)
            elif rng.random() < 0.45:
                run_history(rec, rng, case)
            else:
                run_single(rec, rng, case)
        except Exception as exc:
            rec.inconc("harness error: %r %s" % (exc, traceback.format_exc()[-800:]))


def replay(case, rec):
    from typhon.collocations import Collocator
    p, s = M.gen_case(case["gen"])
    coll = Collocator(threads=case.get("threads"))
    for call in case.get("calls", []):
        pp, ss = p, s
        if call.get("stack") or "inplace" in call or "gridreuse" in call:
            run_history(rec, rng_for(0, "replay"), dict(case, calls=[]))
            return
        if call.get("perturb") in ("perturb", "perturb2"):
            pp = M.perturb(p, 11.0, case["gen"]["seed"] + (7 if call["perturb"] == "perturb" else 8))
            # replay the stale-index history: first the unperturbed call
            check_call(rec, coll, case, p, s, dict(call, perturb=None))
        elif call.get("perturb") == "perturb-secondary":
            ss = M.perturb(s, 9.0, case["gen"]["seed"] + 9)
            check_call(rec, coll, case, p, s, dict(call, perturb=None))
        elif call.get("bigger"):
            g2 = dict(case["gen"], n2=max(12, case["gen"]["n1"] * 11), seed=case["gen"]["seed"] + 5,
                      cls="random")
            _, ss = M.gen_case(g2)
        check_call(rec, coll, case, pp, ss, call)
