"""C11 - files written, moved, copied or deleted through a FileSet are conserved.

Model: dict path -> content id.  After EVERY step of a generated history the directory tree must equal
the model's key set and every file must read back (through the handler, with transparent
decompression) as the content the model holds.

Clauses and where decided
  * fileset[s:e] = data / write(): found again under exactly that period, reads back equal   step 'write'
    - user handler (pickle), read_args / write_args / post_reader applied                    histories
    - NetCDF4 (.nc/.h5) and CSV (.csv/.txt/.asc) chosen from the suffix, compression suffixes   format_cases
  * move(target): name = target template rendered from the file's own times and placeholder values
    (model renderer vt.models.template), content kept, converted through both handlers with convert,
    originals removed unless copy=True, no unselected file touched                           step 'move'
  * delete(): exactly the selected files; dry_run removes none                               step 'delete'
Monitors: os.walk snapshots + read-back after every step; audit-hook trace for write-set confinement
(thread workers); selections by period, explicit files= list and filters.
"""
import datetime as dt
import gzip
import os
import pickle
import shutil
import subprocess
import sys
import traceback
import warnings

from vt.core import rng_for, scratch_dir
from vt.models import template as T
from vt.monitors import audit

D = dt.timedelta
ID = "C11"
LEVEL = "exploration"
RULE = ("histories of 5-40 steps (write, overwrite, move, copy, convert, delete, dry-run delete, find, read) "
        "over <= 30 files on filesets whose templates change directory layout (sat/year/month/day vs "
        "year/doy vs flat vs year-month), end-field style and compression suffix (.gz .bz2 .xz .zip); "
        "selections by period, explicit file list and filters; pickle user handler for the histories, "
        "NetCDF4 and CSV default handlers in child processes. non-trivial = a history with >= 1 move "
        "between templates that differ in a time field or suffix and >= 1 partial selection; distinct by "
        "(template pair, operation mix | history seed)")
ASSUMPTIONS = [
    "oracle: dict path -> content; target names come from the harness' own template renderer",
    "a changed compression suffix is only combined with convert=True (a plain move keeps the bytes)",
    "NetCDF equality: xarray.testing.assert_equal (values and dims; integer variables may come back as "
    "float because the handler masks fill values - value equality is demanded, not dtype)",
    "CSV equality: column values after pandas' own text round trip; floats within 1e-14 relative because "
    "pandas.read_csv's default float parser is not correctly rounded (1 ulp)",
]
MIN_NONTRIVIAL = {"quick": 30, "thorough": 600}
REQUIRED_COUNTERS = {"step.parallel_convert": 8, "step.write": 100, "step.move": 40, "step.delete": 30, "step.copy": 10,
                     "step.convert": 10, "readback.files": 500, "format.netcdf": 4, "format.csv": 4}  # 2 shards x 3 cases each in quick
SHARD_TIMEOUT = {"quick": 900, "thorough": 7200}

TEMPLATES = {
    "smd": "{sat}/{year}/{month}/{day}/{hour}{minute}{second}-{end_hour}{end_minute}{end_second}.pkl",
    "doy": "{year}/{doy}/{sat}_{hour}{minute}{second}_{end_hour}{end_minute}{end_second}.pkl",
    "flat": "flat/{sat}_{year}{month}{day}T{hour}{minute}{second}_{end_year}{end_month}{end_day}T"
            "{end_hour}{end_minute}{end_second}.pkl",
    "ym": "{year}{month}/{sat}-{day}-{hour}{minute}{second}-{end_hour}{end_minute}{end_second}.pkl",
    "edoy": "{year}/{sat}/{year}{doy}_{hour}{minute}{second}-{end_year}{end_doy}_{end_hour}{end_minute}"
            "{end_second}.pkl",
}
SUFFIXES = ["", "", ".gz", ".xz", ".bz2", ".zip"]
SATS = ["n18", "n19", "metop"]


def shards(tier, seed):
    q = tier == "quick"
    out = [{"kind": "history", "seed": seed, "shard": i, "n": 8 if q else 400} for i in range(12)]
    out += [{"kind": "formats", "seed": seed, "shard": 12 + i, "n": 3 if q else 60} for i in range(4)]
    return out


# ---------------------------------------------------------------------------
# pickle user handler with read_args / write_args
# ---------------------------------------------------------------------------
def pkl_read(file_info, tag=None):
    with open(file_info.path, "rb") as fh:
        data = pickle.load(fh)
    if tag is not None:
        data = dict(data, read_tag=tag)
    return data


WRITE_DELAY = {"s": 0.0}


WRITE_FAIL = {"ids": set()}


class InjectedWriteFailure(OSError):
    """Raised by the harness' own writer for chosen files (a full disk, a refused connection)."""


def pkl_write(data, file_info, stamp=None):
    if WRITE_FAIL["ids"] and isinstance(data, dict) and data.get("id") in WRITE_FAIL["ids"]:
        raise InjectedWriteFailure("harness: writing this file fails")
    if stamp is not None:
        data = dict(data, write_stamp=stamp)
    with open(file_info.path, "wb") as fh:
        if WRITE_DELAY["s"]:
            # a slow writer (legitimate suspension point inside the user handler): widens the window
            # in which the parallel workers of move()/map() are inside their compress blocks together
            import time
            fh.write(b"")
            time.sleep(WRITE_DELAY["s"])
        pickle.dump(data, fh)
        if WRITE_DELAY["s"]:
            fh.flush()
            time.sleep(WRITE_DELAY["s"])


class PklIO:
    """A user handler given as bound methods: writer(data, file_info, **kwargs)."""

    def load(self, file_info, **kwargs):
        return pkl_read(file_info, **kwargs)

    def dump(self, data, file_info, **kwargs):
        return pkl_write(data, file_info, **kwargs)


BOUND = {"on": False}


# What each FileSet object was configured with, kept by the harness (the oracle never reads typhon's own
# read_args / write_args / post_reader attributes: a leak into them would corrupt model and answer alike)
CONFIG = {}


def configured(fs):
    return CONFIG.get(id(fs), {"tag": None, "stamp": None, "post": False})


def register(fs, like=None, **kw):
    if like is not None:
        CONFIG[id(fs)] = dict(configured(like))
    else:
        CONFIG[id(fs)] = {"tag": (kw.get("read_args") or {}).get("tag"),
                          "stamp": (kw.get("write_args") or {}).get("stamp"),
                          "post": kw.get("post_reader") is not None}
    return fs


def post_reader(file_info, data):
    # (records which file it was told about: the fileset's own file, not a decompressed temporary copy)
    return dict(data, post="seen", post_path=os.path.basename(file_info.path))


def convert_fn(data):
    return dict(data, converted=data.get("converted", 0) + 1)


def make_fs(root, tkey, suffix, name, **kw):
    from typhon.files import FileSet, FileHandler
    if BOUND["on"]:
        io = PklIO()
        handler = FileHandler(reader=io.load, writer=io.dump)
    else:
        handler = FileHandler(reader=pkl_read, writer=pkl_write)
    return register(FileSet(path=root + "/" + name + "/" + TEMPLATES[tkey] + suffix, name=name,
                            handler=handler, **kw), **kw)


def raw_read(path):
    """Harness-side reading of a stored file: decompress by suffix with the standard library."""
    import bz2
    import lzma
    import zipfile
    if path.endswith(".gz"):
        raw = gzip.open(path, "rb").read()
    elif path.endswith(".bz2"):
        raw = bz2.open(path, "rb").read()
    elif path.endswith(".xz"):
        raw = lzma.open(path, "rb").read()
    elif path.endswith(".zip"):
        with zipfile.ZipFile(path) as zf:
            raw = zf.read(zf.namelist()[0])
    else:
        raw = open(path, "rb").read()
    return pickle.loads(raw)


def listing(root):
    out = set()
    for d, _, files in os.walk(root):
        for f in files:
            out.add(os.path.join(d, f))
    return out


class History:
    def __init__(self, rec, rng, root, seed):
        self.rec, self.rng, self.root, self.seed = rec, rng, root, seed
        self.model = {}      # path -> content dict as stored on disk
        self.meta = {}       # path -> (fsname, t0, t1, sat)
        self.filesets = {}   # name -> (fs, tkey, suffix)
        self.steps = []
        self.next_id = 1
        self.flags = set()
        self.moved_away = {}  # fileset name -> [(t0, t1, sat)] of files that were really moved out

    def case(self):
        return {"kind": "history", "seed": self.seed, "steps": self.steps[-12:]}

    def add_fileset(self, name, tkey, suffix, **kw):
        fs = make_fs(self.root, tkey, suffix, name, **kw)
        self.filesets[name] = (fs, tkey, suffix)
        return fs

    def name_for(self, fsname, t0, t1, sat):
        fs, tkey, suffix = self.filesets[fsname]
        return "%s/%s/%s" % (self.root, fsname,
                             T.render(TEMPLATES[tkey] + suffix, t0, t1, {"sat": sat}))

    def files_of(self, fsname):
        return sorted(p for p, m in self.meta.items() if m[0] == fsname)

    def select(self, fsname, sel):
        """Model of the selection: list of paths in (t0, t1) order."""
        out = []
        for p in self.files_of(fsname):
            _, t0, t1, sat = self.meta[p]
            if sel["mode"] == "period" and not (t0 < sel["end"] and t1 >= sel["start"]):
                continue
            if sel["mode"] == "files" and p not in sel["files"]:
                continue
            f = sel.get("filters")
            if f:
                if "sat" in f and sat not in ([f["sat"]] if isinstance(f["sat"], str) else f["sat"]):
                    continue
                if "!sat" in f and sat in ([f["!sat"]] if isinstance(f["!sat"], str) else f["!sat"]):
                    continue
            out.append(p)
        out.sort(key=lambda p: (self.meta[p][1], self.meta[p][2], p))
        return out

    def sel_kwargs(self, fsname, sel):
        fs = self.filesets[fsname][0]
        kw = {}
        if sel["mode"] == "period":
            kw["start"], kw["end"] = sel["start"], sel["end"]
        elif sel["mode"] == "files":
            found = list(fs.find(no_files_error=False))
            kw["files"] = [f for f in found if f.path in sel["files"]]
        if sel.get("filters"):
            kw["filters"] = sel["filters"]
        return kw

    def gen_selection(self, fsname):
        rng = self.rng
        files = self.files_of(fsname)
        mode = rng.choice(["period", "period", "files", "all"])
        sel = {"mode": mode}
        if mode == "period" and files:
            ts = sorted(self.meta[p][1] for p in files) + sorted(self.meta[p][2] for p in files)
            a, b = sorted([rng.choice(ts), rng.choice(ts)])
            sel["start"], sel["end"] = a, b + D(seconds=rng.choice([0, 1, 3600]))
            if sel["end"] <= sel["start"]:
                sel["end"] = sel["start"] + D(seconds=1)
        elif mode == "period":
            sel["start"], sel["end"] = dt.datetime(2017, 1, 1), dt.datetime(2017, 1, 2)
        elif mode == "files":
            # (an empty explicit list selects nothing - it must not fall back to "everything")
            k = rng.randint(0, len(files))
            sel["files"] = rng.sample(files, k)
        if mode != "files" and rng.random() < 0.3:
            sel["filters"] = rng.choice([{"sat": "n18"}, {"sat": ["n18", "metop"]}, {"!sat": "n19"}])
        return sel

    # ------------------------------------------------------------------
    def verify(self, what, touched_allowed=None, trace=None):
        rec = self.rec
        have = listing(self.root)
        want = set(self.model)
        if have != want:
            rec.violation("tree-differs", self.case(),
                          {"after": what, "missing": sorted(os.path.relpath(p, self.root) for p in want - have)[:5],
                           "unexpected": sorted(os.path.relpath(p, self.root) for p in have - want)[:5]})
            return False
        for p in sorted(want):
            rec.count("readback.files")
            try:
                got = raw_read(p)
            except Exception as exc:
                rec.violation("content-differs", self.case(),
                              {"after": what, "file": os.path.relpath(p, self.root),
                               "why": "stored file cannot be read as its suffix says", "exception": repr(exc)})
                return False
            if got != self.model[p]:
                rec.violation("content-differs", self.case(),
                              {"after": what, "file": os.path.relpath(p, self.root), "got": got,
                               "want": self.model[p]})
                return False
        if trace is not None and touched_allowed is not None:
            extra = {p for p in trace.written() if p not in touched_allowed
                     and not any(p == os.path.dirname(q) or q.startswith(p + os.sep) for q in touched_allowed)}
            extra = {p for p in extra if not os.path.isdir(p) and "/tmp-compress/" not in p + "/"}
            if extra:
                rec.violation("write-set", self.case(),
                              {"after": what, "paths": sorted(os.path.relpath(p, self.root) for p in extra)[:5]})
                return False
            rec.count("audit.events", len(trace.events))
        return True

    # ------------------------------------------------------------------
    def step_write(self):
        rng = self.rng
        fsname = rng.choice(sorted(self.filesets))
        fs, tkey, suffix = self.filesets[fsname]
        existing = self.files_of(fsname)
        gone = [k for k in self.moved_away.get(fsname, []) if self.name_for(fsname, *k) not in self.model]
        if gone and rng.random() < 0.5:  # write again to a period whose file was moved away earlier
            t0, t1, sat = rng.choice(gone)
            self.flags.add("rewrite-moved-away")
            self.rec.count("step.rewrite_moved_away")
        elif existing and rng.random() < 0.25:  # overwrite
            _, t0, t1, sat = self.meta[rng.choice(existing)]
            self.flags.add("overwrite")
        else:
            day = dt.datetime(2017, rng.choice([2, 3, 12]), rng.choice([1, 28, 31]) if False else 1) + \
                D(days=rng.choice([0, 27, 58, 30, 364]))
            if rng.random() < 0.25:
                day = dt.datetime(rng.choice([2016, 2017, 2020]), 12, 31)   # New Year's Eve (2016, 2020: leap)
            t0 = day + D(seconds=rng.randrange(0, 86400))
            if day.month == 12 and day.day == 31 and rng.random() < 0.7:
                t0 = day + D(seconds=rng.randrange(70000, 86400))           # ... late: the file ends next year
            t1 = t0 + D(seconds=rng.choice([0, 1, 600, 3599, 86399 - (t0 - day).seconds % 86400
                                            if False else rng.randrange(0, 80000)]))
            if (t1 - t0) >= D(days=1):
                t1 = t0 + D(seconds=3600)
            sat = rng.choice(SATS)
        content = {"id": self.next_id, "payload": "x" * rng.choice([0, 10, 3000])}
        self.next_id += 1
        path = self.name_for(fsname, t0, t1, sat)
        via = rng.choice(["setitem", "write"])
        self.steps.append(["write", fsname, t0.isoformat(), t1.isoformat(), sat, via])
        stored = dict(content)
        if configured(fs)["stamp"]:
            stored["write_stamp"] = configured(fs)["stamp"]
        self.rec.ev()
        self.rec.count("step.write")
        allowed = {path}
        with audit.Trace([self.root]) as tr:
            try:
                if via == "setitem":
                    fs[t0:t1, {"sat": sat}] = content
                else:
                    name = fs.get_filename((t0, t1), fill={"sat": sat})
                    fs.write(content, name)
            except Exception as exc:
                self.rec.violation("operation-exception", self.case(),
                                   {"op": "write", "exception": repr(exc),
                                    "trace": traceback.format_exc()[-1200:]})
                return False
        self.model[path] = stored
        self.meta[path] = (fsname, t0, t1, sat)
        if not self.verify("write", allowed, tr):
            return False
        # found again under exactly that period and reads back equal (read_args / post_reader applied)
        found = [f.path for f in fs.find(t0, t0 + D(microseconds=1) if t1 == t0 else t1 + D(microseconds=1),
                                         no_files_error=False)]
        if path not in found:
            self.rec.violation("not-found-after-write", self.case(), {"path": os.path.relpath(path, self.root)})
            return False
        try:
            back = fs.read(path)
        except Exception as exc:
            self.rec.violation("operation-exception", self.case(), {"op": "read", "exception": repr(exc)})
            return False
        want = dict(stored)
        if configured(fs)["tag"]:
            want["read_tag"] = configured(fs)["tag"]
        if configured(fs)["post"]:
            want["post"] = "seen"
            want["post_path"] = os.path.basename(path)
        if back != want:
            self.rec.violation("content-differs", self.case(), {"after": "read()", "got": back, "want": want})
            return False
        return True

    def step_move(self):
        rng = self.rng
        names = sorted(self.filesets)
        src = rng.choice(names)
        fs, tkey, suffix = self.filesets[src]
        sel = self.gen_selection(src)
        chosen = self.select(src, sel)
        copy = rng.random() < 0.3
        # target: another template / suffix
        tname = "t%d" % len(self.filesets)
        tkey2 = rng.choice(sorted(TEMPLATES))
        convert = rng.choice([False, False, True, "fn"])
        suffix2 = rng.choice(SUFFIXES) if convert else suffix
        as_path = rng.random() < 0.4
        self.steps.append(["move", src, tname, tkey2, suffix2, str(convert), copy,
                           {k: (v if not isinstance(v, (dt.datetime, list)) else str(v)[:80])
                            for k, v in sel.items()}])
        self.rec.ev()
        self.rec.count("step.copy" if copy else "step.move")
        if convert:
            self.rec.count("step.convert")
        target_path = self.root + "/" + tname + "/" + TEMPLATES[tkey2] + suffix2
        if as_path:
            target = target_path
        else:
            target = make_fs(self.root, tkey2, suffix2, tname, worker_type="thread")
        self.filesets[tname] = (None, tkey2, suffix2)
        new_model, new_meta = dict(self.model), dict(self.meta)
        allowed = set()
        for p in chosen:
            _, t0, t1, sat = self.meta[p]
            q = self.name_for(tname, t0, t1, sat)
            content = dict(self.model[p])
            if convert:
                # read through the source handler (read_args/post_reader), write through the target's
                if configured(fs)["tag"]:
                    content["read_tag"] = configured(fs)["tag"]
                if configured(fs)["post"]:
                    content["post"] = "seen"
                    content["post_path"] = os.path.basename(p)
                if convert == "fn":
                    content = convert_fn(content)
                tw = {"stamp": configured(fs)["stamp"]} if as_path else {}
                if tw.get("stamp"):
                    content["write_stamp"] = tw["stamp"]
            new_model[q] = content
            new_meta[q] = (tname, t0, t1, sat)
            allowed.add(q)
            if not copy:
                del new_model[p]
                del new_meta[p]
                allowed.add(p)
                self.moved_away.setdefault(src, []).append((t0, t1, sat))
        kw = self.sel_kwargs(src, sel)
        with audit.Trace([self.root]) as tr:
            try:
                with warnings.catch_warnings():
                    warnings.simplefilter("ignore")
                    res = fs.move(target, convert=(convert_fn if convert == "fn" else convert), copy=copy,
                                  **kw)
            except Exception as exc:
                if type(exc).__name__ == "NoFilesError" and not chosen:
                    self.filesets[tname] = (res if False else make_fs(self.root, tkey2, suffix2, tname,
                                                                      worker_type="thread"), tkey2, suffix2)
                    return self.verify("move of an empty selection", set(), tr)
                self.rec.violation("operation-exception", self.case(),
                                   {"op": "move", "exception": repr(exc),
                                    "trace": traceback.format_exc()[-1500:]})
                return False
        self.model, self.meta = new_model, new_meta
        newfs = res
        if as_path:
            register(newfs, like=fs)      # typhon's own copy of the source, re-pointed to the target path
        newfs.worker_type = "thread"
        self.filesets[tname] = (newfs, tkey2, suffix2)
        if tkey2 != tkey or suffix2 != suffix:
            self.flags.add("template-change")
        if sel["mode"] != "all" and 0 < len(chosen) < len(self.files_of(src)) + len(chosen):
            self.flags.add("partial")
        return self.verify("move" if not copy else "copy", allowed, tr)

    def step_failed_convert_move(self):
        """A converting move/copy in which the target handler fails for one file: whatever else happens,
        no file's content may be lost - each selected file is afterwards still at its source (unchanged)
        or at its target (converted), and the file whose write failed is still at its source."""
        rng = self.rng
        cands = [n for n in sorted(self.filesets) if self.filesets[n][0] is not None and self.files_of(n)]
        if not cands:
            return True
        src = rng.choice(cands)
        fs, tkey, suffix = self.filesets[src]
        chosen = self.files_of(src)
        victim = rng.choice(chosen)
        copy = rng.random() < 0.3
        tname = "t%d" % len(self.filesets)
        tkey2 = rng.choice(sorted(TEMPLATES))
        suffix2 = rng.choice(SUFFIXES)
        self.steps.append(["failed-convert-move", src, tname, tkey2, suffix2, copy,
                           os.path.relpath(victim, self.root)])
        self.rec.ev()
        self.rec.count("step.failed_convert_move")
        target = make_fs(self.root, tkey2, suffix2, tname, worker_type="thread",
                         temp_dir=self.root + "/tmp-compress")
        self.filesets[tname] = (target, tkey2, suffix2)
        WRITE_FAIL["ids"] = {self.model[victim]["id"]}
        raised = None
        try:
            with warnings.catch_warnings():
                warnings.simplefilter("ignore")
                fs.move(target, convert=True, copy=copy)
        except Exception as exc:
            raised = exc
        finally:
            WRITE_FAIL["ids"] = set()
        have = listing(self.root)
        new_model, new_meta = dict(self.model), dict(self.meta)
        for p in chosen:
            _, t0, t1, sat = self.meta[p]
            q = self.name_for(tname, t0, t1, sat)
            content = dict(self.model[p])
            if configured(fs)["tag"]:
                content["read_tag"] = configured(fs)["tag"]
            if configured(fs)["post"]:
                content["post"] = "seen"
                content["post_path"] = os.path.basename(p)

            def holds(path, want):
                try:
                    return path in have and raw_read(path) == want
                except Exception:
                    return False
            at_source, at_target = holds(p, self.model[p]), holds(q, content)
            if not at_source and not at_target or (p == victim or copy) and not at_source:
                self.rec.violation("lost-in-failed-move", self.case(),
                                   {"file": os.path.relpath(p, self.root), "write_failed_for_this_file": p == victim,
                                    "copy": copy, "at_source": at_source, "at_target": at_target,
                                    "move_raised": repr(raised)})
                return False
            if at_target:
                new_model[q] = content
                new_meta[q] = (tname, t0, t1, sat)
            if not at_source:
                del new_model[p]
                del new_meta[p]
                self.moved_away.setdefault(src, []).append((t0, t1, sat))
        self.model, self.meta = new_model, new_meta
        return self.verify("converting move with a failing target writer")

    def step_parallel_convert(self):
        """Files with identical names in different directories (same time of day on several days),
        converted to a compressed target by parallel workers with a slow writer."""
        rng = self.rng
        name = "par%d" % len(self.filesets)
        suffix = rng.choice(["", ".gz"])
        fs = self.add_fileset(name, "smd", suffix, worker_type="thread", max_threads=4,
                              temp_dir=self.root + "/tmp-compress")
        sat = rng.choice(SATS)
        sec = rng.randrange(0, 80000)
        for k in range(rng.choice([4, 6])):
            t0 = dt.datetime(2017, 5, 1 + k) + D(seconds=sec)
            t1 = t0 + D(seconds=600)
            content = {"id": self.next_id, "payload": "p" * 2000}
            self.next_id += 1
            path = self.name_for(name, t0, t1, sat)
            fs[t0:t1, {"sat": sat}] = content
            self.model[path] = dict(content)
            self.meta[path] = (name, t0, t1, sat)
        if not self.verify("write (parallel set)"):
            return False
        tname = "t%d" % len(self.filesets)
        suffix2 = rng.choice([".gz", ".zip", ".xz", ".bz2"])
        self.steps.append(["parallel-convert", name, tname, suffix2])
        self.rec.ev()
        self.rec.count("step.parallel_convert")
        self.filesets[tname] = (None, "smd", suffix2)
        new_model, new_meta = dict(self.model), dict(self.meta)
        for p in self.files_of(name):
            _, t0, t1, s_ = self.meta[p]
            q = self.name_for(tname, t0, t1, s_)
            new_model[q] = dict(self.model[p])
            new_meta[q] = (tname, t0, t1, s_)
            del new_model[p]
            del new_meta[p]
        WRITE_DELAY["s"] = 0.004
        try:
            with warnings.catch_warnings():
                warnings.simplefilter("ignore")
                res = fs.move(self.root + "/" + tname + "/" + TEMPLATES["smd"] + suffix2, convert=True)
        except Exception as exc:
            self.rec.violation("operation-exception", self.case(),
                               {"op": "parallel convert", "exception": repr(exc),
                                "trace": traceback.format_exc()[-1200:]})
            return False
        finally:
            WRITE_DELAY["s"] = 0.0
        self.model, self.meta = new_model, new_meta
        res.worker_type = "thread"
        register(res, like=fs)
        self.filesets[tname] = (res, "smd", suffix2)
        self.flags.add("template-change")
        return self.verify("parallel convert")

    def step_recopy(self):
        """copy -> overwrite originals with same-size data -> copy again to the same target:
        the target must hold the new content."""
        rng = self.rng
        cands = [n for n in sorted(self.filesets) if len(self.files_of(n)) >= 2
                 and self.filesets[n][0] is not None]
        if not cands:
            return True
        src = rng.choice(cands)
        fs, tkey, suffix = self.filesets[src]
        tname = "t%d" % len(self.filesets)
        tkey2 = rng.choice(sorted(TEMPLATES))
        target = make_fs(self.root, tkey2, suffix, tname, worker_type="thread")
        self.filesets[tname] = (target, tkey2, suffix)
        self.steps.append(["recopy", src, tname, tkey2])
        self.rec.ev()
        self.rec.count("step.recopy")
        for round_ in (1, 2):
            try:
                with warnings.catch_warnings():
                    warnings.simplefilter("ignore")
                    fs.move(target, copy=True)
            except Exception as exc:
                self.rec.violation("operation-exception", self.case(),
                                   {"op": "copy (round %d)" % round_, "exception": repr(exc),
                                    "trace": traceback.format_exc()[-1000:]})
                return False
            for p in self.files_of(src):
                _, t0, t1, sat = self.meta[p]
                q = self.name_for(tname, t0, t1, sat)
                self.model[q] = dict(self.model[p])
                self.meta[q] = (tname, t0, t1, sat)
            if not self.verify("copy round %d to the same target" % round_):
                return False
            if round_ == 1:
                # overwrite some originals with content of exactly the same stored size
                for p in rng.sample(self.files_of(src), max(1, len(self.files_of(src)) // 2)):
                    _, t0, t1, sat = self.meta[p]
                    old = self.model[p]
                    content = {k: v for k, v in old.items() if k not in ("write_stamp",)}
                    content["payload"] = "z" * len(old.get("payload", "")) if old.get("payload") \
                        else old.get("payload", "")
                    content["id"] = int(str(old["id"])[::-1]) if len(str(int(str(old["id"])[::-1]))) == \
                        len(str(old["id"])) and str(old["id"])[::-1] != str(old["id"]) else old["id"]
                    if content == {k: v for k, v in old.items() if k != "write_stamp"}:
                        content["payload"] = "q" * max(1, len(old.get("payload", ""))) \
                            if old.get("payload") else "q"
                    fs[t0:t1, {"sat": sat}] = content
                    stored = dict(content)
                    if configured(fs)["stamp"]:
                        stored["write_stamp"] = configured(fs)["stamp"]
                    self.model[p] = stored
        return True

    def step_delete(self):
        rng = self.rng
        src = rng.choice(sorted(self.filesets))
        fs = self.filesets[src][0]
        sel = self.gen_selection(src)
        chosen = self.select(src, sel)
        dry = rng.random() < 0.3
        self.steps.append(["delete", src, dry, {k: str(v)[:80] for k, v in sel.items()}])
        self.rec.ev()
        self.rec.count("step.dry_delete" if dry else "step.delete")
        kw = self.sel_kwargs(src, sel)
        import contextlib
        import io
        with audit.Trace([self.root]) as tr:
            try:
                with contextlib.redirect_stdout(io.StringIO()):
                    fs.delete(dry_run=dry, **kw)
            except Exception as exc:
                if type(exc).__name__ == "NoFilesError" and not chosen:
                    return self.verify("delete of an empty selection", set(), tr)
                self.rec.violation("operation-exception", self.case(),
                                   {"op": "delete", "exception": repr(exc),
                                    "trace": traceback.format_exc()[-1200:]})
                return False
        allowed = set()
        if not dry:
            for p in chosen:
                del self.model[p]
                del self.meta[p]
                allowed.add(p)
            if chosen and self.files_of(src):
                self.flags.add("partial")
        return self.verify("dry-run delete" if dry else "delete", allowed, tr)

    def step_read(self):
        rng = self.rng
        src = rng.choice(sorted(self.filesets))
        fs = self.filesets[src][0]
        files = self.files_of(src)
        if not files:
            return True
        p = rng.choice(files)
        _, t0, t1, sat = self.meta[p]
        self.steps.append(["read", src, t0.isoformat()])
        self.rec.ev()
        self.rec.count("step.read")
        want = dict(self.model[p])
        if configured(fs)["tag"]:
            want["read_tag"] = configured(fs)["tag"]
        if configured(fs)["post"]:
            want["post"] = "seen"
            want["post_path"] = os.path.basename(p)
        if rng.random() < 0.5:
            # call history: one read with per-call arguments (they override the defaults for that call
            # only), then the plain reads below
            self.rec.count("step.read_with_per_call_args")
            try:
                once = fs.read(fs.get_info(p), tag="ONCE")
            except Exception as exc:
                self.rec.violation("operation-exception", self.case(), {"op": "read(tag=...)", "exception": repr(exc),
                                                                        "trace": traceback.format_exc()[-800:]})
                return False
            w1 = dict(want, read_tag="ONCE")
            if once != w1:
                self.rec.violation("content-differs", self.case(), {"after": "read(file, tag='ONCE')", "got": once,
                                                                    "want": w1})
                return False
            self.steps[-1].append("per-call-args-first")
        try:
            got = fs.collect(t0, t1 + D(seconds=1), filters={"sat": sat})
        except Exception as exc:
            self.rec.violation("operation-exception", self.case(), {"op": "collect", "exception": repr(exc),
                                                                    "trace": traceback.format_exc()[-800:]})
            return False
        sel = self.select(src, {"mode": "period", "start": t0, "end": t1 + D(seconds=1),
                                "filters": {"sat": sat}})
        wants = []
        for q in sel:
            w = dict(self.model[q])
            if configured(fs)["tag"]:
                w["read_tag"] = configured(fs)["tag"]
            if configured(fs)["post"]:
                w["post"] = "seen"
                w["post_path"] = os.path.basename(q)
            wants.append(w)
        if got != wants:
            self.rec.violation("content-differs", self.case(), {"after": "collect()", "got": got[:3],
                                                                "want": wants[:3]})
            return False
        return self.verify("read")


def run_history(rec, seed, hrng):
    root = scratch_dir("c11")
    os.makedirs(root + "/tmp-compress")
    h = History(rec, hrng, root, seed)
    CONFIG.clear()
    BOUND["on"] = hrng.random() < 0.3  # user handler built from bound methods in some histories
    try:
        kw = {}
        if hrng.random() < 0.4:
            kw["read_args"] = {"tag": "R"}
        if hrng.random() < 0.4:
            kw["write_args"] = {"stamp": "W"}
        if hrng.random() < 0.3:
            kw["post_reader"] = post_reader
        h.add_fileset("src", hrng.choice(sorted(TEMPLATES)), hrng.choice(SUFFIXES), worker_type="thread",
                      temp_dir=root + "/tmp-compress", **kw)
        nsteps = hrng.choice([5, 10, 20, 40])
        for _ in range(hrng.choice([3, 6, 12])):
            if not h.step_write():
                return
        if hrng.random() < 0.35:
            if not h.step_parallel_convert():
                return
        for _ in range(nsteps):
            r = hrng.random()
            if len(h.model) >= 30:
                ok = h.step_delete()
            elif r < 0.3:
                ok = h.step_write()
            elif r < 0.6:
                ok = h.step_move()
            elif r < 0.78:
                ok = h.step_delete()
            elif r < 0.86:
                ok = h.step_recopy()
            elif r < 0.9:
                ok = h.step_failed_convert_move()
            else:
                ok = h.step_read()
            if not ok:
                return
        if os.listdir(root + "/tmp-compress"):
            rec.violation("tree-differs", h.case(), {"after": "history", "why": "debris in temp_dir",
                                                     "left": os.listdir(root + "/tmp-compress")[:3]})
        if "template-change" in h.flags and "partial" in h.flags:
            rec.nontriv(["history", sorted(h.flags), len(h.filesets) > 3], seed)
    finally:
        shutil.rmtree(root, ignore_errors=True)


# ---------------------------------------------------------------------------
# NetCDF4 / CSV default handlers, in a child process
# ---------------------------------------------------------------------------
FORMAT_CHILD = r'''
import sys, json, datetime as dt, warnings, os
warnings.simplefilter("ignore")
import numpy as np, xarray as xr, pandas as pd
from typhon.files import FileSet
root, suffix, seed = sys.argv[1], sys.argv[2], int(sys.argv[3])
rng = np.random.default_rng(seed)
fs = FileSet(root + "/{year}/{doy}/{hour}{minute}{second}-{end_hour}{end_minute}{end_second}" + suffix)
out = {"violations": [], "writes": 0}
base = dt.datetime(2018, 1, 1)
for k in range(4):
    n = int(rng.integers(1, 30))
    t0 = base + dt.timedelta(hours=int(k * 5), seconds=int(rng.integers(0, 3000)))
    t1 = t0 + dt.timedelta(seconds=int(rng.integers(0, 9000)))
    times = (np.datetime64(t0, "ns") + rng.integers(0, 9000, n).astype("timedelta64[s]"))
    temp = rng.normal(size=n) * 30 + 250
    temp[rng.random(n) < 0.2] = np.nan
    if suffix.split(".")[1] in ("nc", "h5"):
        ds = xr.Dataset({"time": ("obs", times), "temp": ("obs", temp),
                         "count": ("obs", rng.integers(-5, 500, n).astype("int32")),
                         "flag": ("obs", rng.integers(0, 2, n).astype("int8")),
                         "big": ("obs", rng.integers(-2**40, 2**40, n)),
                         "f32": ("obs", rng.normal(size=n).astype("float32")),
                         "grp/bt": (("obs", "grp/channel"), rng.normal(size=(n, 3)) + 200.0),
                         "grp/sub/z": (("grp/sub/lev",), np.arange(4.0)),
                         "grp/sub/w": (("grp/channel",), np.arange(3.0) + k)})
        scaled = np.round(rng.uniform(200, 300, n), 2)
        ds["scaled"] = ("obs", scaled)
        ds["scaled"].encoding = {"scale_factor": 0.01, "add_offset": 250.0, "dtype": "int16",
                                 "_FillValue": -32768}
        ds.attrs["title"] = "harness"
    else:
        ds = xr.Dataset({"time": ("index", times), "temp": ("index", temp),
                         "count": ("index", rng.integers(-5, 500, n)),
                         "name": ("index", np.array(["s%d" % i for i in range(n)]))},
                        coords={"index": np.arange(n)})
    try:
        fs[t0:t1] = ds
        out["writes"] += 1
        found = [f.path for f in fs.find(t0, t1 + dt.timedelta(microseconds=1), no_files_error=False)]
        name = fs.get_filename((t0, t1))
        if name not in found:
            out["violations"].append({"why": "not found under its period", "name": name})
            continue
        back = fs.read(name)
        if suffix.split(".")[1] in ("nc", "h5"):
            try:
                want = ds.copy()
                xr.testing.assert_allclose(back[sorted(want.data_vars)], want[sorted(want.data_vars)],
                                           rtol=0, atol=0.0051 if True else 0)
                for v in want.data_vars:
                    if v == "scaled":
                        continue
                    a, b = back[v].values, want[v].values
                    if a.dtype.kind == "M":
                        ok = (a == b).all()
                    else:
                        ok = np.array_equal(np.asarray(a, dtype=float), np.asarray(b, dtype=float), equal_nan=True)
                    if not ok or back[v].dims != want[v].dims:
                        raise AssertionError("variable %s differs: %r vs %r" % (v, a[:3], b[:3]))
            except AssertionError as exc:
                out["violations"].append({"why": "NetCDF read-back differs", "detail": str(exc)[:400], "k": k})
        else:
            df1 = back.to_dataframe().reset_index(drop=True)
            ok = np.allclose(df1["temp"].values.astype(float), temp, rtol=1e-14, atol=0, equal_nan=True) and \
                (df1["count"].values == ds["count"].values).all() and \
                (pd.to_datetime(df1["time"]).values.astype("M8[ns]") == times).all() and \
                (df1["name"].values == ds["name"].values).all()
            if not ok:
                out["violations"].append({"why": "CSV read-back differs", "k": k})
    except Exception as exc:
        import traceback
        out["violations"].append({"why": "exception", "exception": repr(exc), "trace": traceback.format_exc()[-900:]})
if suffix.split(".")[1] in ("nc", "h5"):
    # overwrite histories and variable orders of grouped data
    def same(back, want, what):
        for v in want.data_vars:
            if v not in back.variables:
                out["violations"].append({"why": what + ": variable missing after read-back", "variable": v})
                return False
            a, b = back[v].values, want[v].values
            if a.shape != b.shape or not np.array_equal(np.asarray(a, dtype=float), np.asarray(b, dtype=float),
                                                        equal_nan=True):
                out["violations"].append({"why": what + ": variable differs", "variable": v,
                                          "got": repr(a)[:120], "want": repr(b)[:120]})
                return False
        return True
    try:
        t0 = base + dt.timedelta(days=3, seconds=int(rng.integers(0, 3000)))
        t1 = t0 + dt.timedelta(seconds=600)
        n1, n2 = int(rng.integers(5, 20)), int(rng.integers(1, 5))
        ds1 = xr.Dataset({"g/a": (("g/x",), rng.normal(size=n1)), "g/b": (("g/x",), rng.normal(size=n1)),
                          "h/c": (("h/y",), np.arange(3.0))})
        ds2 = xr.Dataset({"g/a": (("g/x",), rng.normal(size=n2)), "k/d": (("k/z",), np.arange(2.0) + 7)})
        fs[t0:t1] = ds1
        ok = same(fs.read(fs.get_filename((t0, t1))), ds1, "groups only, first write")
        fs[t0:t1] = ds2
        out["writes"] += 2
        back = fs.read(fs.get_filename((t0, t1)))
        if ok and same(back, ds2, "groups only, overwritten"):
            old = sorted({"g/b", "h/c"} & set(back.variables))
            if old:
                out["violations"].append({"why": "overwritten file still holds variables of the old content",
                                          "variables": old})
        # a group variable listed before the first root variable
        t0 = t0 + dt.timedelta(hours=2)
        t1 = t0 + dt.timedelta(seconds=600)
        ds3 = xr.Dataset()
        ds3["grp/bt"] = (("obs", "grp/channel"), rng.normal(size=(n1, 2)))
        ds3["temp"] = ("obs", rng.normal(size=n1))
        ds3["grp/q"] = (("obs",), rng.normal(size=n1))
        ds3["count"] = ("obs", np.arange(n1, dtype="int32"))
        fs[t0:t1] = ds3
        out["writes"] += 1
        same(fs.read(fs.get_filename((t0, t1))), ds3, "group variable listed first")
        # overwrite of ordinary data with fewer points
        ds4 = ds3.isel(obs=slice(0, max(1, n1 // 2)))
        fs[t0:t1] = ds4
        out["writes"] += 1
        same(fs.read(fs.get_filename((t0, t1))), ds4, "overwritten with fewer points")
    except Exception as exc:
        import traceback
        out["violations"].append({"why": "exception", "exception": repr(exc), "trace": traceback.format_exc()[-900:]})
left = []
print("RESULT " + json.dumps(out))
'''


def format_cases(rec, rng, n, family=None):
    root = scratch_dir("c11f")
    try:
        script = root + "/child.py"
        with open(script, "w") as fh:
            fh.write(FORMAT_CHILD)
        kinds = {"netcdf": ["nc", "h5", "nc"], "csv": ["csv", "txt", "asc"]}.get(
            family, ["nc", "csv", "h5", "txt", "nc", "asc"])
        comps = ["", ".gz", ".xz", ".zip", ".bz2"]
        rng.shuffle(comps)
        for i in range(n):
            kind = kinds[i % len(kinds)]
            comp = comps[i % len(comps)]
            suffix = "." + kind + comp
            seed = rng.randrange(10 ** 6)
            d = root + "/%s_%d" % (kind, seed)
            os.mkdir(d)
            rec.ev()
            try:
                r = subprocess.run([sys.executable, "-X", "faulthandler", script, d, suffix, str(seed)],
                                   capture_output=True, text=True, timeout=300)
            except subprocess.TimeoutExpired:
                rec.inconc("format child timed out")
                continue
            line = [l for l in r.stdout.splitlines() if l.startswith("RESULT ")]
            case = {"kind": "format", "suffix": suffix, "seed": seed}
            if not line:
                rec.inconc("format child died (%s): %s" % (suffix, r.stderr[-400:]))
                continue
            import json
            out = json.loads(line[0][7:])
            rec.count("format.netcdf" if kind in ("nc", "h5") else "format.csv")
            rec.count("format.writes", out["writes"])
            for v in out["violations"]:
                rec.violation("format-roundtrip", case, v)
            if not out["violations"]:
                rec.nontriv(["format", kind, comp], seed)
            # stored files are genuine archives of their suffix and nothing else is left behind
            for p in listing(d):
                if comp and not p.endswith(comp):
                    rec.violation("tree-differs", case, {"why": "unexpected file", "file": os.path.basename(p)})
    finally:
        shutil.rmtree(root, ignore_errors=True)


def single_file_moves(rec, rng):
    """A fileset that is one file (path without placeholders): move / copy, plain and converting."""
    from typhon.files import FileSet, FileHandler
    root = scratch_dir("c11s")
    try:
        for mode in ("move", "copy", "convert", "convert-copy"):
            d = os.path.join(root, mode)
            os.makedirs(d)
            src = os.path.join(d, "one.pkl")
            content = {"id": 1, "payload": "p" * rng.choice([0, 7, 3000])}
            with open(src, "wb") as fh:
                pickle.dump(content, fh)
            raw = open(src, "rb").read()
            suffix = rng.choice(["", ".gz", ".xz"]) if mode.startswith("convert") else ""
            target = os.path.join(d, "sub", "moved.pkl" + suffix)
            fs = FileSet(path=src, handler=FileHandler(reader=pkl_read, writer=pkl_write),
                         read_args={"tag": "R"})
            copy, convert = mode.endswith("copy"), mode.startswith("convert")
            case = {"kind": "single-file-move", "mode": mode, "suffix": suffix}
            rec.ev()
            rec.count("single.moves")
            try:
                with warnings.catch_warnings():
                    warnings.simplefilter("ignore")
                    fs.move(target, copy=copy, convert=convert)
            except Exception as exc:
                rec.violation("operation-exception", case, {"op": "move (single file)", "exception": repr(exc),
                                                            "trace": traceback.format_exc()[-1000:]})
                continue
            problems = []
            if os.path.exists(src) != copy:
                problems.append("original %s" % ("removed although copy=True" if copy else "still there"))
            elif copy and open(src, "rb").read() != raw:
                problems.append("original changed")
            if not os.path.exists(target):
                problems.append("no file at the target name")
            elif convert:
                want = dict(content, read_tag="R")      # read through the handler, written through it
                got = raw_read(target)
                if got != want:
                    problems.append("converted content %r, want %r" % (str(got)[:80], str(want)[:80]))
            elif open(target, "rb").read() != raw:
                problems.append("plain move/copy changed the bytes (converted although convert is not set?)")
            left = sorted(os.path.relpath(p, d) for p in listing(d))
            extra = [p for p in left if p not in (os.path.relpath(target, d),) + (("one.pkl",) if copy else ())]
            if extra:
                problems.append("unexpected files %r" % extra[:3])
            if problems:
                rec.violation("tree-differs" if "unexpected" in problems[-1] or "original" in problems[0]
                              else "content-differs", case, {"after": "move of a single-file fileset",
                                                             "problems": problems})
            else:
                rec.nontriv(["single-file-move", mode, suffix], [mode, suffix, len(raw)])
    finally:
        shutil.rmtree(root, ignore_errors=True)


def default_placeholder_case(rec, rng):
    """A fileset with a literal default for its user placeholder: write, move/copy to a path string, the
    caller re-configures the returned fileset, then the source is written and read again."""
    from typhon.files import FileSet, FileHandler
    root = scratch_dir("c11d")
    try:
        tmpl = root + "/src/{sat}/{year}{month}{day}_{hour}{minute}{second}-{end_hour}{end_minute}{end_second}.pkl"
        src = FileSet(path=tmpl, name="src", placeholder={"sat": "n19"},
                      handler=FileHandler(reader=pkl_read, writer=pkl_write), read_args={"tag": "R"},
                      worker_type="thread")
        case = {"kind": "default-placeholder"}
        rec.ev()
        rec.count("default_placeholder.cases")
        t = dt.datetime(2018, 5, rng.randrange(1, 28), rng.randrange(0, 22))
        try:
            src[t:t + D(minutes=10)] = {"id": 1, "payload": "a"}
            copy = rng.random() < 0.5
            res = src.move(root + "/tgt/{year}/{sat}_{doy}_{hour}{minute}{second}-{end_hour}{end_minute}"
                                  "{end_second}.pkl", copy=copy)
            # the caller re-configures what it got back
            res.read_args["tag"] = "X"
            res.write_args["stamp"] = "S"
            res.set_placeholders(sat="zz[0-9]")
            t2 = t + D(hours=1)
            src[t2:t2 + D(minutes=10)] = {"id": 2, "payload": "b"}
            name2 = src.get_filename((t2, t2 + D(minutes=10)))
            got = src.read(name2)
        except Exception as exc:
            rec.violation("operation-exception", case, {"op": "write / move to a path / write again",
                                                        "exception": repr(exc),
                                                        "trace": traceback.format_exc()[-1200:]})
            return
        want = {"id": 2, "payload": "b", "read_tag": "R"}
        stored = raw_read(name2) if os.path.exists(name2) else None
        if "/n19/" not in name2 or got != want or stored != {"id": 2, "payload": "b"}:
            rec.violation("content-differs", case,
                          {"after": "write to the source after its copy was re-configured", "name": name2,
                           "got": got, "want": want, "stored": stored})
        else:
            rec.nontriv(["default-placeholder", copy], [copy, t.isoformat()])
    finally:
        shutil.rmtree(root, ignore_errors=True)


def two_blacklist_case(rec, rng):
    """Selections by filters with two black-list entries (two user placeholders): dry run, copy, delete."""
    from typhon.files import FileSet, FileHandler
    root = scratch_dir("c11b")
    try:
        tmpl = root + "/src/{sat}/{year}{month}{day}_{hour}{minute}{second}-{end_hour}{end_minute}{end_second}_{mode}.pkl"
        fs = FileSet(path=tmpl, name="src", handler=FileHandler(reader=pkl_read, writer=pkl_write),
                     worker_type="thread")
        day = dt.datetime(2018, rng.randrange(1, 13), rng.randrange(1, 28))
        files = {}
        for k in range(rng.choice([6, 9, 12])):
            t0 = day + D(minutes=37 * k)
            sat, mode = rng.choice(["A", "B"]), rng.choice(["test", "op"])
            if k < 4:
                sat, mode = [("A", "test"), ("A", "op"), ("B", "test"), ("B", "op")][k]
            fs[t0:t0 + D(minutes=10), {"sat": sat, "mode": mode}] = {"id": k}
            files[fs.get_filename((t0, t0 + D(minutes=10)), fill={"sat": sat, "mode": mode})] = (sat, mode, k)
        flt = rng.choice([{"!sat": "A", "!mode": "test"}, {"!mode": "test", "!sat": "A"},
                          {"!sat": ["A"], "!mode": ["test", "zz"]}])
        selected = {p for p, (sat, mode, k) in files.items() if sat != "A" and mode != "test"}
        case = {"kind": "two-blacklist", "filters": flt}
        # one caller-owned dictionary handed to all three operations (the oracle keeps its own record)
        own = {k: (list(v) if isinstance(v, list) else v) for k, v in flt.items()}
        rec.ev()
        rec.count("two_blacklist.cases")
        s0, s1 = day - D(days=1), day + D(days=2)
        try:
            fs.delete(dry_run=True, start=s0, end=s1, filters=own)
            if listing(root) != set(files):
                rec.violation("tree-differs", case, {"after": "delete(dry_run=True)"})
                return
            tgt = fs.move(root + "/tgt/{mode}/{sat}_{year}{doy}_{hour}{minute}{second}-{end_hour}{end_minute}"
                                 "{end_second}.pkl", copy=True, start=s0, end=s1, filters=own)
            copied = {p for p in listing(root) if "/tgt/" in p}
            if len(copied) != len(selected) or (listing(root) - copied) != set(files):
                rec.violation("tree-differs", case, {"after": "copy of a selection by two black-list filters",
                                                     "copied": len(copied), "selected": len(selected)})
                return
            fs.delete(start=s0, end=s1, filters=own)
            left = listing(root) - copied
            if left != set(files) - selected:
                rec.violation("tree-differs", case,
                              {"after": "delete of a selection by two black-list filters",
                               "wrongly_removed": sorted(os.path.relpath(p, root) for p in (set(files) - selected) - left)[:4],
                               "not_removed": sorted(os.path.relpath(p, root) for p in left - (set(files) - selected))[:4]})
                return
            rec.nontriv(["two-blacklist", sorted(flt)], [sorted(flt), len(files)])
        except Exception as exc:
            rec.violation("operation-exception", case, {"op": "selection by two black-list filters",
                                                        "exception": repr(exc),
                                                        "trace": traceback.format_exc()[-1200:]})
    finally:
        shutil.rmtree(root, ignore_errors=True)


def linked_member_case(rec, rng):
    """Population class: some members of the fileset are symbolic links into an archive outside of it (a
    product tree linking to a pool). Selected entries are removed / copied as entries; the archive is an
    unselected file tree that no operation touches."""
    from typhon.files import FileSet, FileHandler
    root = scratch_dir("c11l")
    try:
        tmpl = root + "/src/{year}{month}{day}_{hour}{minute}{second}-{end_hour}{end_minute}{end_second}.pkl"
        fs = FileSet(path=tmpl, name="src", handler=FileHandler(reader=pkl_read, writer=pkl_write),
                     worker_type="thread")
        day = dt.datetime(2019, rng.randrange(1, 13), rng.randrange(1, 28))
        n = rng.choice([4, 6, 8])
        entries, archive = {}, {}
        os.makedirs(root + "/archive")
        for k in range(n):
            t0 = day + D(minutes=41 * k)
            fs[t0:t0 + D(minutes=10)] = {"id": k}
            p = fs.get_filename((t0, t0 + D(minutes=10)))
            entries[p] = k
            if k % 2 == rng.randrange(2) or k == 0:
                a = root + "/archive/pool_%02d.bin" % k
                os.rename(p, a)
                os.symlink(a, p)
                archive[a] = k
        case = {"kind": "linked-members", "n": n, "links": len(archive)}
        rec.ev()
        rec.count("linked_members.cases")
        rec.count("linked_members.links", len(archive))
        cut = day + D(minutes=41 * (n // 2))

        def archive_ok(after):
            for a, k in archive.items():
                if not os.path.isfile(a) or os.path.islink(a) or raw_read_plain(a) != {"id": k}:
                    rec.violation("tree-differs", case, {"after": after, "why": "a file outside the fileset "
                                                         "(target of a linked member) was removed or changed",
                                                         "file": os.path.relpath(a, root)})
                    return False
            return True
        try:
            got = sorted(d["id"] for d in fs.collect(day - D(days=1), day + D(days=2)))
            if got != list(range(n)):
                rec.violation("content-differs", case, {"after": "collect over linked members", "got": got})
                return
            fs.delete(dry_run=True, start=day - D(days=1), end=cut)
            if any(not os.path.lexists(p) for p in entries) or not archive_ok("delete(dry_run=True)"):
                rec.violation("tree-differs", case, {"after": "delete(dry_run=True)"})
                return
            fs.move(root + "/tgt/{year}/{doy}_{hour}{minute}{second}-{end_hour}{end_minute}{end_second}.pkl",
                    copy=True, start=day - D(days=1), end=cut)
            copied = sorted(q for q in listing(root) if "/tgt/" in q)
            want_sel = sorted(k for p, k in entries.items() if k < n // 2)
            if sorted(raw_read_plain(q)["id"] for q in copied) != want_sel or not archive_ok("copy"):
                rec.violation("tree-differs", case, {"after": "copy of a selection with linked members",
                                                     "copied": len(copied), "selected": len(want_sel)})
                return
            fs.delete(start=day - D(days=1), end=cut)
            still = {p: k for p, k in entries.items() if os.path.lexists(p)}
            if sorted(still.values()) != [k for k in range(n) if k >= n // 2] or not archive_ok("delete"):
                rec.violation("tree-differs", case,
                              {"after": "delete of a selection with linked members",
                               "entries_left": sorted(still.values()),
                               "expected_left": [k for k in range(n) if k >= n // 2]})
                return
            got = sorted(d["id"] for d in fs.collect(day - D(days=1), day + D(days=2)))
            if got != [k for k in range(n) if k >= n // 2]:
                rec.violation("content-differs", case, {"after": "collect after the delete", "got": got})
                return
            rec.nontriv(["linked-members", n, len(archive)], [n, sorted(archive.values())])
        except Exception as exc:
            rec.violation("operation-exception", case, {"op": "fileset with linked members",
                                                        "exception": repr(exc),
                                                        "trace": traceback.format_exc()[-1200:]})
    finally:
        shutil.rmtree(root, ignore_errors=True)


def other_filesystem_move_case(rec, rng):
    """Environment: the target of a plain move / copy lies on another file system than the source (an
    archive disk): every selected file arrives with its content, a move leaves none behind."""
    from typhon.files import FileSet, FileHandler
    from vt.props.c12 import other_filesystem_dir
    root = scratch_dir("c11x")
    other = None
    try:
        other = other_filesystem_dir(root)
        if other is None:
            rec.count("other_filesystem.unavailable")
            return
        tmpl = root + "/src/{year}{month}{day}_{hour}{minute}{second}-{end_hour}{end_minute}{end_second}.pkl"
        fs = FileSet(path=tmpl, name="src", handler=FileHandler(reader=pkl_read, writer=pkl_write),
                     worker_type="thread")
        day = dt.datetime(2020, rng.randrange(1, 13), rng.randrange(1, 28))
        n = rng.choice([3, 5])
        for k in range(n):
            t0 = day + D(minutes=43 * k)
            fs[t0:t0 + D(minutes=10)] = {"id": k}
        case = {"kind": "other-filesystem-move", "n": n}
        rec.ev()
        rec.count("other_filesystem.move_cases")
        ttmpl = other + "/{year}/{doy}_{hour}{minute}{second}-{end_hour}{end_minute}{end_second}.pkl"
        try:
            for copy in (True, False):
                fs.move(ttmpl, copy=copy, start=day - D(days=1), end=day + D(days=2))
                arrived = sorted(raw_read_plain(q)["id"] for q in listing(other))
                left = sorted(raw_read_plain(q)["id"] for q in listing(root + "/src"))
                if arrived != list(range(n)) or left != (list(range(n)) if copy else []):
                    rec.violation("tree-differs", case, {"after": "copy" if copy else "move", "arrived": arrived,
                                                         "left_in_source": left,
                                                         "why": "target on another file system"})
                    return
                if copy:
                    shutil.rmtree(other)
                    os.mkdir(other)
            rec.nontriv(["other-filesystem-move", n], n)
        except Exception as exc:
            rec.violation("operation-exception", case, {"op": "move to another file system",
                                                        "exception": repr(exc),
                                                        "trace": traceback.format_exc()[-1200:]})
    finally:
        shutil.rmtree(root, ignore_errors=True)
        if other:
            shutil.rmtree(other, ignore_errors=True)


def raw_read_plain(path):
    with open(path, "rb") as fh:
        return pickle.loads(fh.read())


def run_shard(spec, rec):
    rng = rng_for(spec["seed"], "c11", spec["shard"])
    if spec["kind"] == "formats":
        format_cases(rec, rng, spec["n"], family=["netcdf", "csv"][spec["shard"] % 2])
        return
    try:
        single_file_moves(rec, rng_for(spec["seed"], "c11-single", spec["shard"]))
        default_placeholder_case(rec, rng_for(spec["seed"], "c11-default", spec["shard"]))
        two_blacklist_case(rec, rng_for(spec["seed"], "c11-two-bl", spec["shard"]))
        linked_member_case(rec, rng_for(spec["seed"], "c11-links", spec["shard"]))
        other_filesystem_move_case(rec, rng_for(spec["seed"], "c11-otherfs", spec["shard"]))
    except Exception as exc:
        rec.inconc("harness error: %r %s" % (exc, traceback.format_exc()[-1200:]))
    for i in range(spec["n"]):
        seed = rng.randrange(2 ** 31)
        try:
            run_history(rec, seed, rng_for(seed, "c11-history"))
        except Exception as exc:
            rec.inconc("harness error: %r %s" % (exc, traceback.format_exc()[-1200:]))
        if i == 0:
            rec.sample({"history_seed": seed})


def replay(case, rec):
    if case.get("kind") == "history":
        run_history(rec, case["seed"], rng_for(case["seed"], "c11-history"))
    elif case.get("kind") == "two-blacklist":
        for k in range(4):
            two_blacklist_case(rec, rng_for(k, "replay"))
    elif case.get("kind") == "other-filesystem-move":
        for k in range(3):
            other_filesystem_move_case(rec, rng_for(k, "replay"))
    elif case.get("kind") == "linked-members":
        for k in range(4):
            linked_member_case(rec, rng_for(k, "replay"))
    elif case.get("kind") == "default-placeholder":
        for k in range(4):
            default_placeholder_case(rec, rng_for(k, "replay"))
    elif case.get("kind") == "single-file-move":
        single_file_moves(rec, rng_for(0, "replay"))
    elif case.get("kind") == "format":
        format_cases(rec, rng_for(case["seed"], "replay"), 1)
