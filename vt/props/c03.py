"""C03 - IntervalTree queries and FileSet.match report exactly the overlapping intervals.

Monitors: wrappers around IntervalTree.query / query_points / __contains__ compare every
answer (also those produced inside FileSet.match / is_excluded) with an O(n*m)
closed-interval comparison; FileSet.match answers are compared with the file-population
model (vt.models.fileset).
"""
import datetime as dt
import itertools
import traceback

from vt.core import rng_for

ID = "C03"
LEVEL = "exploration"
RULE = ("interval sets drawn from hostile classes (unsorted, nested, equal, degenerate, zero, "
        "negative, int/float/datetime) x queries (inside/outside/touching/covering hull); "
        "file-set pairs for match(). non-trivial = >=2 stored intervals not sorted by both "
        "end points and an expected answer that is neither empty nor everything; distinct by "
        "(class signature, content hash)")
ASSUMPTIONS = [
    "oracle: brute-force closed-interval comparison, a.lo <= b.hi and a.hi >= b.lo",
    "match(): candidates are the files found in the max_interval-widened period; file times "
    "are generated on whole seconds (match converts to integer seconds)",
]
MIN_NONTRIVIAL = {"quick": 300, "thorough": 30000}
REQUIRED_COUNTERS = {"tree.query.calls": 100, "tree.points.calls": 100, "match.calls": 20}
SHARD_TIMEOUT = {"quick": 600, "thorough": 5400}


def shards(tier, seed):
    n_tree = 400 if tier == "quick" else 150000
    n_match = 14 if tier == "quick" else 3000
    out = []
    for i in range(8):
        out.append({"kind": "tree", "seed": seed, "shard": i, "n": n_tree})
    for i in range(8):
        out.append({"kind": "match", "seed": seed, "shard": i, "n": n_match})
    return out


# --------------------------------------------------------------------------
# generators
# --------------------------------------------------------------------------
CLASSES = ["random", "sorted", "nested", "equal", "degenerate", "zeros", "negative",
           "chain", "one", "mixed", "reverse"]


def gen_intervals(rng, cls, n, typ):
    span = rng.choice([5, 20, 200, 10000])

    def val():
        if typ == "float":
            return rng.choice([round(rng.uniform(-span, span), rng.choice([0, 1, 6])),
                               float(rng.randint(-span, span))])
        return rng.randint(-span, span)

    ivs = []
    if cls == "random" or cls == "mixed" or cls == "reverse" or cls == "sorted":
        for _ in range(n):
            a, b = val(), val()
            ivs.append([min(a, b), max(a, b)])
        if cls == "sorted":
            ivs.sort()
        if cls == "reverse":
            ivs.sort(reverse=True)
        if cls == "mixed":
            for k in range(0, n, 3):
                ivs[k] = [ivs[k][0], ivs[k][0]]
    elif cls == "nested":
        c = val()
        widths = sorted((abs(val()) + 1 for _ in range(n)), reverse=True)
        ivs = [[c - w, c + w] for w in widths]
        rng.shuffle(ivs)
    elif cls == "equal":
        a, b = sorted([val(), val()])
        ivs = [[a, b] for _ in range(n)]
    elif cls == "degenerate":
        ivs = [[v, v] for v in (val() for _ in range(n))]
    elif cls == "zeros":
        ivs = [[0, 0] for _ in range(n)]
        if n > 1 and rng.random() < 0.5:
            ivs[rng.randrange(n)] = [0, abs(val())]
    elif cls == "negative":
        for _ in range(n):
            a, b = -abs(val()) - 1, -abs(val()) - 1
            ivs.append([min(a, b), max(a, b)])
    elif cls == "chain":
        x = val()
        for _ in range(n):
            w = abs(val()) % 7
            ivs.append([x, x + w])
            x = x + w  # touching neighbours
        rng.shuffle(ivs)
    elif cls == "one":
        a, b = sorted([val(), val()])
        ivs = [[a, b]]
    if typ == "float":
        ivs = [[float(a), float(b)] for a, b in ivs]
    return ivs


def gen_queries(rng, ivs, typ, k):
    los = [a for a, _ in ivs]
    his = [b for _, b in ivs]
    lo, hi = min(los), max(his)
    eps = 1 if typ == "int" else rng.choice([1.0, 0.5, 1e-9])
    qs = []
    ends = los + his
    for _ in range(k):
        c = rng.randrange(9)
        if c == 0:
            a, b = sorted([rng.choice(ends), rng.choice(ends)])
        elif c == 1:
            a = rng.choice(his)
            b = a + rng.choice([0, eps, 3 * eps])  # touching an upper end
        elif c == 2:
            b = rng.choice(los)
            a = b - rng.choice([0, eps, 3 * eps])  # touching a lower end
        elif c == 3:
            a, b = lo, hi  # exactly the hull
        elif c == 4:
            a, b = lo - eps, hi + eps  # covering
        elif c == 5:
            a, b = hi + eps, hi + 5 * eps  # outside right
        elif c == 6:
            a, b = lo - 5 * eps, lo - eps  # outside left
        elif c == 7:
            p = rng.choice(ends)
            a = b = p  # degenerate query
        else:
            a = rng.choice(ends) - eps
            b = rng.choice(ends) + eps
            a, b = min(a, b), max(a, b)
        qs.append([a, b])
    return qs


def gen_points(rng, ivs, typ, k):
    los = [a for a, _ in ivs]
    his = [b for _, b in ivs]
    eps = 1 if typ == "int" else rng.choice([1.0, 0.5, 1e-9])
    ends = los + his
    pts = []
    for _ in range(k):
        c = rng.randrange(5)
        p = rng.choice(ends)
        if c == 1:
            p = p + eps
        elif c == 2:
            p = p - eps
        elif c == 3:
            p = min(los) - eps if rng.random() < 0.5 else max(his) + eps
        elif c == 4:
            p = (min(los) + max(his)) / 2 if typ == "float" else (min(los) + max(his)) // 2
        pts.append(p)
    return pts


EPOCH = dt.datetime(2015, 3, 1)


def to_typ(v, typ):
    if typ == "datetime":
        return EPOCH + dt.timedelta(seconds=int(v))
    return v


# --------------------------------------------------------------------------
# oracle + monitor
# --------------------------------------------------------------------------
def brute_query(ivs, q):
    return sorted(i for i, (a, b) in enumerate(ivs) if a <= q[1] and b >= q[0])


def brute_point(ivs, p):
    return sorted(i for i, (a, b) in enumerate(ivs) if a <= p <= b)


def unsorted_both(ivs):
    los = [a for a, _ in ivs]
    his = [b for _, b in ivs]
    return len(ivs) >= 2 and not (los == sorted(los) and his == sorted(his))


def classify(ivs, q_or_p, got, want, exc):
    """Name the mechanism of a disagreement (used to match known findings)."""
    if exc is not None:
        if "RecursionError" in exc:
            return "tree-point-recursion"
        return "tree-exception"
    return "tree-wrong-answer"


def check_tree_case(rec, case):
    from typhon.trees import IntervalTree
    typ = case["typ"]
    ivs = [[to_typ(a, typ), to_typ(b, typ)] for a, b in case["intervals"]]
    qs = [[to_typ(a, typ), to_typ(b, typ)] for a, b in case["queries"]]
    pts = [to_typ(p, typ) for p in case["points"]]
    if typ == "int" and case.get("fractional_queries"):
        # mixed numeric types: integer intervals stored, queries / points with fractional parts
        qs = [[a + 0.5, b + 0.5] if i % 2 else [a - 0.75, a - 0.25] for i, (a, b) in enumerate(qs)]
        pts = [p_ + 0.5 for p_ in pts]
        rec.count("tree.fractional_queries_on_integer_tree")
    container = case.get("container", "list")
    import numpy as np
    stored = ivs
    if container == "array" and typ != "datetime":
        stored = np.asarray(ivs)
    elif container == "tuples":
        stored = [tuple(x) for x in ivs]
    try:
        tree = IntervalTree(stored)
    except Exception as exc:
        rec.violation("tree-exception", case, {"where": "constructor", "exception": repr(exc),
                                               "trace": traceback.format_exc()[-800:]})
        return
    if container == "array" and typ != "datetime":
        # call history: the caller's interval array is a work buffer that is refilled right after the tree
        # was built - the tree answers for the intervals it was built from
        rec.count("tree.built_from_buffer_refilled_afterwards")
        stored[...] = stored[::-1].copy() + (stored.max() - stored.min() + 7)
    if len(qs) >= 3 and len(ivs) % 3 == 0:
        # the same tree asked from several threads at once (vt/monitors/concurrency.py)
        from vt.monitors import concurrency
        calls = [(tree.query, ([q],), {}) for q in qs[:6]] + [(tree.query_points, ([p_],), {}) for p_ in pts[:3]]
        verdict, detail = concurrency.concurrent_check(calls, threads=4, rounds=2)
        rec.count("tree.concurrent_" + verdict.replace("/", ""))
        if verdict == "race":
            rec.violation("tree-wrong-answer", dict(case, concurrent=True),
                          dict(detail, where="queries on one tree from 4 threads at once"))
    nontriv = unsorted_both(case["intervals"])
    # -- query ---------------------------------------------------------------
    rec.ev(len(qs) + len(pts))  # one evaluation per query interval / query point answered by the real tree
    rec.count("tree.query.calls")
    try:
        res = tree.query(qs)
        exc = None
    except RecursionError as e:
        res, exc = None, "RecursionError"
    except Exception as e:
        res, exc = None, repr(e)
    if exc is not None:
        rec.violation(classify(ivs, None, None, None, exc), case, {"where": "query", "exception": exc})
    else:
        if len(res) != len(qs):
            rec.violation("tree-wrong-answer", case, {"where": "query", "len": len(res)})
        for q, r, cq in zip(qs, res, case["queries"]):
            want = brute_query(ivs, q)
            got = sorted(int(x) for x in r)
            rec.count("tree.query.intervals")
            if got != want:
                rec.violation("tree-wrong-answer", dict(case, queries=[cq], points=[]),
                              {"where": "query", "query": cq, "got": got, "want": want})
            if nontriv and 0 < len(want) < len(ivs):
                rec.nontriv(["query", case["cls"], typ, container], [case["intervals"], cq])
            # membership with an interval
            try:
                inside = (tuple(q) in tree) if case.get("in_tuple", True) else (list(q) in tree)
                if bool(inside) != bool(want):
                    rec.violation("tree-wrong-answer", dict(case, queries=[cq], points=[]),
                                  {"where": "interval in tree", "query": cq, "got": bool(inside),
                                   "want": bool(want)})
                rec.count("tree.contains.calls")
            except RecursionError:
                rec.violation("tree-point-recursion", case, {"where": "in"})
            except Exception as e:
                rec.violation("tree-exception", case, {"where": "in", "exception": repr(e)})
    # -- points ---------------------------------------------------------------
    rec.count("tree.points.calls")
    for p, cp in zip(pts, case["points"]):
        want = brute_point(ivs, p)
        sub = dict(case, queries=[], points=[cp])
        try:
            got = sorted(int(x) for x in tree.query_points([p])[0])
            rec.count("tree.points.points")
            if got != want:
                rec.violation("tree-wrong-answer", sub,
                              {"where": "query_points", "point": cp, "got": got, "want": want})
            if nontriv and 0 < len(want) < len(ivs):
                rec.nontriv(["point", case["cls"], typ, container], [case["intervals"], cp])
        except RecursionError:
            rec.violation("tree-point-recursion", sub, {"where": "query_points", "point": cp})
            continue
        except Exception as e:
            rec.violation("tree-exception", sub, {"where": "query_points", "exception": repr(e)})
            continue
        try:
            inside = p in tree
            rec.count("tree.contains.calls")
            if bool(inside) != bool(want):
                rec.violation("tree-wrong-answer", sub,
                              {"where": "point in tree", "point": cp, "got": bool(inside),
                               "want": bool(want)})
        except RecursionError:
            rec.violation("tree-point-recursion", sub, {"where": "in", "point": cp})
        except Exception as e:
            rec.violation("tree-exception", sub, {"where": "in", "exception": repr(e)})


def gen_tree_case(rng):
    cls = rng.choice(CLASSES)
    typ = rng.choice(["int", "int", "float", "datetime"])
    n = 1 if cls == "one" else rng.choice([1, 2, 2, 3, 3, 4, 5, 8, 13, 40, 200])
    gtyp = "int" if typ == "datetime" else typ
    ivs = gen_intervals(rng, cls, n, gtyp)
    k = rng.choice([2, 6, 12])
    case = {
        "kind": "tree", "cls": cls, "typ": typ, "intervals": ivs,
        "queries": gen_queries(rng, ivs, gtyp, k),
        "points": gen_points(rng, ivs, gtyp, k),
        "container": rng.choice(["list", "array", "tuples"]),
        "in_tuple": rng.random() < 0.5,
    }
    if typ == "int" and rng.random() < 0.4:
        case["fractional_queries"] = True
    if typ == "datetime":
        case["points"] = [int(p) for p in case["points"]]
    return case


def small_exhaustive_cases():
    """All interval sets with end points in {0,1,2,3} of size <= 2 plus a few of size 3:
    every query interval / point over {-1..4}.  Bounded exhaustive sub-space."""
    vals = [0, 1, 2, 3]
    singles = [[a, b] for a in vals for b in vals if a <= b]
    qs = [[a, b] for a in range(-1, 5) for b in range(-1, 5) if a <= b]
    pts = list(range(-1, 5))
    for k in (1, 2):
        for combo in itertools.product(singles, repeat=k):
            yield {"kind": "tree", "cls": "exhaustive%d" % k, "typ": "int",
                   "intervals": [list(c) for c in combo], "queries": qs, "points": pts,
                   "container": "list", "in_tuple": True}


# --------------------------------------------------------------------------
# match()
# --------------------------------------------------------------------------
def static_partner_case(rec, rng):
    """The partner is one all-covering file: a static file without placeholders (coverage datetime.min ..
    datetime.max) or a single file with an explicit coverage of eight centuries."""
    import datetime as dt
    import os
    import shutil
    from typhon.files import FileSet
    from vt.core import scratch_dir
    base = scratch_dir("c03s")
    try:
        tmpl = base + "/prim/{year}{month}{day}_{hour}{minute}{second}-{end_hour}{end_minute}{end_second}.dat"
        os.makedirs(base + "/prim")
        os.makedirs(base + "/static")
        t = dt.datetime(2018, rng.randrange(1, 13), rng.randrange(1, 28), rng.randrange(0, 20))
        prim = []
        for k in range(rng.choice([1, 3, 6])):
            t0 = t + dt.timedelta(minutes=30 * k + rng.randrange(0, 5))
            t1 = t0 + dt.timedelta(minutes=rng.choice([0, 10, 25]))
            name = tmpl.format(year="%04d" % t0.year, month="%02d" % t0.month, day="%02d" % t0.day,
                               hour="%02d" % t0.hour, minute="%02d" % t0.minute, second="%02d" % t0.second,
                               end_hour="%02d" % t1.hour, end_minute="%02d" % t1.minute,
                               end_second="%02d" % t1.second)
            open(name, "w").write("x")
            prim.append((name, t0, t1))
        open(base + "/static/mask.dat", "w").write("m")
        fs1 = FileSet(path=tmpl, name="prim")
        for how in ("static", "eight-centuries", "finite"):
            cov = {"static": None, "eight-centuries": (dt.datetime(1600, 1, 1), dt.datetime(2400, 1, 1)),
                   "finite": (t + dt.timedelta(minutes=40), t + dt.timedelta(minutes=75))}[how]
            kw = {} if cov is None else {"time_coverage": cov}
            fs2 = FileSet(path=base + "/static/mask.dat", name="static", **kw)
            start = t - dt.timedelta(hours=1)
            end = t + dt.timedelta(hours=12)
            for mi in (None, "10 min"):
                case = {"kind": "static-partner", "how": how, "max_interval": mi,
                        "primaries": [[os.path.basename(n), a.isoformat(), b.isoformat()] for n, a, b in prim]}
                rec.ev()
                rec.count("match.static_partner_calls")
                try:
                    got = [(os.path.basename(os.fspath(p)), [os.path.basename(os.fspath(x)) for x in sec])
                           for p, sec in fs1.match(fs2, start, end, max_interval=mi)]
                    back = [(os.path.basename(os.fspath(p)), sorted(os.path.basename(os.fspath(x)) for x in sec))
                            for p, sec in fs2.match(fs1, start, end, max_interval=mi)]
                except Exception as exc:
                    rec.violation("match-exception", case, {"exception": repr(exc),
                                                            "trace": traceback.format_exc()[-900:]})
                    continue
                # the statement: the partner's coverage, widened by max_interval on both sides, intersects
                # the primary's own coverage
                w = dt.timedelta(0) if mi is None else dt.timedelta(minutes=10)
                c0, c1 = cov if cov is not None else (dt.datetime.min + w, dt.datetime.max - w)
                hit = [(n, a, b) for n, a, b in prim if a <= c1 + w and b >= c0 - w]
                want = [(os.path.basename(n), ["mask.dat"]) for n, a, b in sorted(hit, key=lambda z: (z[1], z[2]))]
                wback = [("mask.dat", sorted(os.path.basename(n) for n, a, b in hit))] if hit else []
                if got != want or back != wback:
                    rec.violation("match-wrong-answer", case, {"got": got[:4], "want": want[:4],
                                                               "other_direction": back[:2],
                                                               "want_other_direction": wback})
                else:
                    rec.nontriv(["match-static", how, mi, len(prim)], case["primaries"])
    finally:
        shutil.rmtree(base, ignore_errors=True)


def run_match(spec, rec):
    from vt.models import fileset as fm
    from vt.monitors import treewrap
    rng = rng_for(spec["seed"], "c03-match", spec["shard"])
    treewrap.install(rec)
    for _ in range(2):
        static_partner_case(rec, rng)
    for i in range(spec["n"]):
        fm.match_case(rng, rec, spec, i)
    treewrap.uninstall()


def run_shard(spec, rec):
    if spec["kind"] == "match":
        return run_match(spec, rec)
    rng = rng_for(spec["seed"], "c03-tree", spec["shard"])
    if spec["shard"] == 0:
        n = 0
        for case in small_exhaustive_cases():
            check_tree_case(rec, case)
            n += 1
        rec.count("tree.exhaustive_small_sets", n)
    for i in range(spec["n"]):
        case = gen_tree_case(rng)
        if i < 2:
            rec.sample(case)
        check_tree_case(rec, case)


def replay(case, rec):
    if case.get("kind") == "static-partner":
        for sd in range(8):
            static_partner_case(rec, rng_for(sd, "c03-static-replay"))
        return
    if case.get("kind") == "tree":
        check_tree_case(rec, case)
    else:
        from vt.models import fileset as fm
        fm.replay_match(case, rec)
