"""C14 - column integrals and hydrostatic conversions agree with their defining integrals.

Technique: runtime monitoring.  The real typhon.math.integrate_column and the real
integrate_water_vapor / column_relative_humidity / pressure2height / standard_atmosphere of
typhon/physics/atmosphere.py are executed on generated inputs; verdicts come from
vt.models.column_model (exact rational trapezoid, ISA table, analytic moist column) and
vt.models.atmosphere_model (humidity definitions in longdouble), plus icontract
post-conditions installed on the real functions (they also see typhon's internal calls).

Where each clause of the statement is decided
---------------------------------------------
 1 "integrate_column(y, x, axis) equals the integral of the piecewise-linear interpolant of
    (x, y) along the chosen axis of an array of any shape"
       check_ic: every lane of the result against the exact rational value of
       sum (x_i+1 - x_i)(y_i+1 + y_i)/2 on the float inputs, bound gamma_{n+2} sum|terms|;
       ranks 1-4, every axis, negative axis numbers, C/F/transposed/strided/reversed views,
       x as 1-d vector, as full-shape array or absent; float64/float32/int64/list input;
       class "exact" (small integers, dyadic grids: every operation exact) demands ==
                                         keys ic-value, ic-shape, ic-exception, trapz-missing
       contract post_integrate_column_shape on every call (also typhon-internal ones)
 2 "linear in y"                         check_ic: I(a y1 + b y2) vs a I(y1) + b I(y2)    ic-not-linear
 3 "additive when the range is split at a grid point"
                                         check_ic: I(:k+1) + I(k:) vs I                   ic-not-additive
 4 "changes sign when the coordinate is reversed"
                                         check_ic: I(y[::-1], x[::-1]) (negative-stride views) vs -I
                                                                                          ic-sign-reversal
 5 "defaults to unit spacing"            check_ic: I(y) vs I(y, arange(n)) and vs the exact value with x_i = i
                                                                                          ic-unit-spacing
 6 "integrate_water_vapor is non-negative for non-negative vmr and decreasing pressure"
       check_iwv: >= 0 for both forms on admissible profiles of any rank/axis; value vs the
       longdouble trapezoid of the definitions (-1/g int q dp, int x p/(R_v T) dz)
                                         keys iwv-negative, iwv-hydrostatic-value, iwv-general-value
       contract post_iwv_nonnegative
 7 "its hydrostatic form and its general form converge to the same value when z is the
    hydrostatic height of the moist column"
       check_conv: analytic moist column (smooth T(s), x(s), s = ln(p_s/p)); z by 10-point
       Gauss-Legendre per finest cell with the moist molar mass; base grids of 64/96/128 layers
       (uniform in p, uniform in ln p, irregular) bisected five times; |general - hydrostatic|
       must shrink >= 3.5x per doubling (until 1e-10 relative) and be <= 1e-4 on the finest
       grid; each form against the quadrature value the same way
                                         keys iwv-forms-diverge, iwv-hydrostatic-convergence,
                                              iwv-general-convergence
 8 "column_relative_humidity is 1 for a profile saturated with respect to the mixed phase"
       check_crh: q_s built with typhon's own water_vapor_pressure2specific_humidity o
       e_eq_mixed_mk; ranks 1-3, every axis incl. negative, p as level vector or full array
                                         keys crh-saturated, crh-rank2 (all 1-d lanes pass but the
                                              rank >= 2 call does not), crh-shape, crh-exception
 9 "and scales linearly with q below saturation"
       check_crh: CRH(a q_s) = a, CRH(a q) = a CRH(q), CRH(q1 + q2) = CRH(q1) + CRH(q2)
                                         key crh-not-linear
10 "pressure2height starts at 0, increases strictly with decreasing pressure"
       check_p2h: z[0] == 0, len, z_i+1 > z_i wherever the layer's lower bound exceeds 4 ulp
                                         keys p2h-start, p2h-shape, p2h-not-increasing
       contract post_pressure2height_start
11 "follows z = (R T / g) ln(p0 / p) for an isothermal column"
       check_p2h: z in [ (R T/g)(sum L - sum L^3/12), (R T/g) sum L ], L = ln(p_i/p_i+1)
       (2 tanh(L/2) is the exact layer factor of the layer-mean-density rule); for varying T
       the same bracket with T_min / T_max           keys p2h-isothermal, p2h-bounds
12 "uses the standard atmosphere ... when no temperature is given"
       check_p2h: pressure2height(p) vs pressure2height(p, T_ISA(p)) with T_ISA from the
       harness' own table interpolated in ln p         key p2h-default-not-isa
13 "whose height and pressure addressing agree at the tabulated levels"
       check_isa: standard_atmosphere(h_k) vs standard_atmosphere(p_k, 'pressure') vs the table
       at the 8 levels (scalar, 0-d, array); between/beyond the levels vs linear interpolation
       in height / ln p                                keys isa-levels-disagree, isa-interpolation
"""
import math
import traceback
from fractions import Fraction

import numpy as np

from vt.core import Recorder, rng_for

ID = "C14"
LEVEL = "exploration"
RULE = ("grids uniform / irregular / log / huge offset / one-ulp steps / repeated points, "
        "increasing and decreasing, 2..10^4 levels; integrands random, sign changing, "
        "cancelling, constant, 1e+-100 magnitudes, integers; ranks 1-4, every axis incl. "
        "negative; C/F/transposed/strided/reversed views; x absent / vector / full shape. "
        "profiles: vmr >= 0, p decreasing, T 180..320 K. non-trivial = at least one non-zero "
        "layer term (ic), positive water content (iwv/crh), >= 2 levels (p2h); distinct by "
        "(kind, grid class, integrand class, rank, axis, x mode, layout, dtype) + content hash")
ASSUMPTIONS = [
    "integrate_column oracle: integer arithmetic on the binary expansions of the float inputs "
    "(exact); bound gamma_{n+2} * sum|layer terms| + n denormal quanta, valid for any order of "
    "summation (numpy sums pairwise); u = 2^-24 when the integrand is float32",
    "class 'exact' (integers < 2^20 on dyadic grids, n <= 1024) makes every floating operation "
    "exact, so the value and all four relations are demanded with ==",
    "IWV oracles: q from the definition in longdouble, R_v = R/M_w with scipy's R and the "
    "decimal molar masses, g = 9.80665; all layer terms have one sign, so the bound is "
    "gamma_{n+12} |I|",
    "convergence: threshold 3.5 per doubling is the asymptotic factor 4 of the trapezoid rule "
    "with a margin for the h^4 term on >= 64 layers; the rounding floor 1e-10 relative is far "
    "above n*u; z and the true IWV come from 10-point Gauss-Legendre (error < 1e-13)",
    "CRH: q -> vmr -> q round trip is gamma_12 per level, two same-signed integrals and a "
    "quotient: |CRH - 1| <= gamma_{2n+40}; linearity adds the harness' own product rounding",
    "pressure2height: R = R*/M_d with the decimal molar mass, g = 9.80665; rounding slack "
    "gamma_{n+8}; strictness is demanded only where the exact lower bound of the layer exceeds "
    "4 ulp of the accumulated height",
    "standard_atmosphere between tabulated levels is compared with linear interpolation of the "
    "same table (documented behaviour), bound 8u|T| + K_LIB u |ln p| |slope|",
]
MIN_NONTRIVIAL = {"quick": 3000, "thorough": 20000}
REQUIRED_COUNTERS = {
    "ic.calls": 20000,
    "ic.lanes": 20000,
    "ic.relations": 5000,
    "iwv.lanes": 2000,
    "conv.profiles": 20,
    "crh.calls": 1000,
    "p2h.calls": 500,
    "concurrent.first_use_children": 4,
    "isa.level_checks": 100,
    "contract.ic_shape": 20000,
    "contract.iwv_nonnegative": 2000,
    "contract.p2h_start": 500,
}
SHARD_TIMEOUT = {"quick": 600, "thorough": 5400}

KINDS_QUICK = ["ic"] * 8 + ["iwv"] * 2 + ["conv"] * 2 + ["crh"] * 2 + ["p2h", "isa"]
N_QUICK = {"ic": 1500, "iwv": 4000, "conv": 500, "crh": 1500, "p2h": 5000, "isa": 4000}

G0 = 9.80665
R_STAR = 8.31446261815324
K_LIB = 4


def shards(tier, seed):
    mult = 1 if tier == "quick" else 90
    out, idx = [], {}
    for k in KINDS_QUICK:
        i = idx.get(k, 0)
        idx[k] = i + 1
        out.append({"kind": k, "seed": seed, "shard": i, "n": N_QUICK[k] * mult})
    return out


# ---------------------------------------------------------------------------------------
# contracts
# ---------------------------------------------------------------------------------------
class ContractBreach(Exception):
    def __init__(self, key, detail):
        Exception.__init__(self, key)
        self.key = key
        self.detail = detail


_mon = {"rec": None, "installed": False, "orig": {}}


def _count(name):
    if _mon["rec"] is not None:
        _mon["rec"].count(name)


def _drop_axis(shape, axis):
    nd = len(shape)
    ax = axis % nd if nd else 0
    return tuple(s for i, s in enumerate(shape) if i != ax)


def post_integrate_column_shape(y, axis, result):
    _count("contract.ic_shape")
    return np.shape(result) == _drop_axis(np.shape(y), axis)


def _err_ic_shape(y, axis, result):
    return ContractBreach("ic-shape", {"y_shape": list(np.shape(y)), "axis": axis,
                                       "result_shape": list(np.shape(result))})


def _admissible(vmr, p, T, z, axis):
    vmr = np.asarray(vmr)
    p = np.asarray(p)
    if vmr.ndim == 0 or not np.all(vmr >= 0):
        return False
    pa = 0 if p.ndim == 1 else axis
    if T is None and z is None:
        return bool(np.all(np.diff(p, axis=pa) < 0) and np.all(p > 0))
    if T is None or z is None:
        return False
    z = np.asarray(z)
    za = 0 if z.ndim == 1 else axis
    return bool(np.all(np.diff(z, axis=za) > 0) and np.all(np.asarray(T) > 0) and np.all(p > 0))


def post_iwv_nonnegative(vmr, p, T, z, axis, result):
    if not _admissible(vmr, p, T, z, axis):
        return True
    _count("contract.iwv_nonnegative")
    return bool(np.all(np.asarray(result) >= 0))


def _err_iwv_nonnegative(vmr, result):
    return ContractBreach("iwv-negative", {"vmr_shape": list(np.shape(vmr)),
                                           "min_result": float(np.min(result))})


def post_pressure2height_start(p, result):
    _count("contract.p2h_start")
    r = np.asarray(result)
    return r.shape == np.shape(p) and r.size > 0 and r.flat[0] == 0


def _err_p2h_start(p, result):
    r = np.asarray(result)
    return ContractBreach("p2h-start", {"p_shape": list(np.shape(p)), "shape": list(r.shape),
                                        "first": float(r.flat[0]) if r.size else None})


def post_crh_shape(q, axis, result):
    _count("contract.crh_shape")
    return np.shape(result) == _drop_axis(np.shape(q), axis)


def _err_crh_shape(q, axis, result):
    return ContractBreach("crh-shape", {"q_shape": list(np.shape(q)), "axis": axis,
                                        "result_shape": list(np.shape(result))})


def install_contracts(rec):
    import icontract
    import typhon.math
    import typhon.math.common as common
    from typhon.physics import atmosphere as atm
    _mon["rec"] = rec
    if _mon["installed"]:
        return atm, common
    o = _mon["orig"]
    o["integrate_column"] = common.integrate_column
    ic = icontract.ensure(post_integrate_column_shape, error=_err_ic_shape)(
        common.integrate_column)
    common.integrate_column = ic
    typhon.math.integrate_column = ic            # the name atmosphere.py resolves at call time
    for name, post, err in (
            ("integrate_water_vapor", post_iwv_nonnegative, _err_iwv_nonnegative),
            ("pressure2height", post_pressure2height_start, _err_p2h_start),
            ("column_relative_humidity", post_crh_shape, _err_crh_shape)):
        o[name] = getattr(atm, name)
        setattr(atm, name, icontract.ensure(post, error=err)(o[name]))
    _mon["installed"] = True
    return atm, common


# ---------------------------------------------------------------------------------------
# plumbing
# ---------------------------------------------------------------------------------------
class Probe(Recorder):
    def __init__(self):
        Recorder.__init__(self, ID, None)


NONTRIV_CAP = 6000        # distinct non-trivial cases registered per shard (sub-sample)


def _merge(rec, probe):
    rec.evaluations += probe.evaluations
    if len(rec.nontrivial) < NONTRIV_CAP:
        rec.nontrivial |= probe.nontrivial
    for k, v in probe.counters.items():
        if k.startswith("violations:"):
            continue
        if k.startswith("max:"):
            rec.counters[k] = max(rec.counters.get(k, v), v)
        else:
            rec.counters[k] = rec.counters.get(k, 0) + v
    for k, s in probe.sets.items():
        for item in s:
            rec.setadd(k, item)
    for n in probe.notes:
        rec.note(n)
    for r in probe.inconclusive:
        rec.inconc(r)


def _probe_case(case, rec_after):
    probe = Probe()
    _mon["rec"] = probe
    try:
        CHECKERS[case["kind"]](probe, case)
    finally:
        _mon["rec"] = rec_after
    return probe


def run_case(rec, case, shrink=True):
    probe = _probe_case(case, rec)
    _merge(rec, probe)
    seen = set()
    for v in probe.violations:
        key = v["key"]
        if key in seen:
            continue
        seen.add(key)
        small, detail = materialize(case), v["detail"]
        if shrink and rec.counters.get("violations:" + key, 0) < 4:
            for _ in range(40):
                progressed = False
                for cand in _candidates(small, detail, key):
                    try:
                        p2 = _probe_case(cand, rec)
                    except Exception:
                        continue
                    hit = [w for w in p2.violations if w["key"] == key]
                    if hit:
                        small, detail, progressed = cand, hit[0]["detail"], True
                        break
                if not progressed:
                    break
        if _size(small) > 380 and "recipe" in case:
            small = {"kind": case["kind"], "recipe": case["recipe"]}
        rec.violation(key, small, detail)


def _size(case):
    return sum(len(v) for v in case.values() if isinstance(v, list))


_TRACES = [0]


def _exc_detail(exc):
    """traceback text is expensive (attribute suggestions): only for the first few"""
    _TRACES[0] += 1
    if _TRACES[0] > 8:
        return {"exception": repr(exc)[:300]}
    return {"exception": repr(exc)[:300], "trace": traceback.format_exc()[-600:]}


def _exc_key(exc, default):
    if isinstance(exc, AttributeError) and "trapz" in str(exc):
        return "trapz-missing"
    return default


def materialize(case):
    """Cases too large to store are kept as a recipe (seed, shard, index)."""
    if "recipe" in case and "shape" not in case and "p" not in case:
        seed, shard, i = case["recipe"]
        full = GENERATORS[case["kind"]](rng_for(seed, "c14-" + case["kind"], shard, i), big=True)
        full["recipe"] = case["recipe"]
        return full
    return case


# -- N-d helpers ------------------------------------------------------------------------
ND_KEYS = {"ic": (["y", "y2"], ["x"]), "iwv": (["vmr", "T"], ["p", "z"]),
           "crh": (["T", "frac", "frac2"], ["p"])}


def _select(case, sel):
    """Sub-case keeping index lists sel[d] along every dimension."""
    kind = case["kind"]
    shape = tuple(case["shape"])
    ax = case["axis"] % len(shape)
    full_keys, coord_keys = ND_KEYS[kind]
    out = dict(case)
    out.pop("recipe", None)
    new_shape = [len(s) for s in sel]
    for k in full_keys:
        if case.get(k) is not None:
            a = np.asarray(case[k], dtype=object).reshape(shape)
            out[k] = a[np.ix_(*sel)].ravel().tolist()
    for k in coord_keys:
        if case.get(k) is None:
            continue
        mode = case.get(k + "mode", "1d")
        if mode == "full":
            a = np.asarray(case[k], dtype=object).reshape(shape)
            out[k] = a[np.ix_(*sel)].ravel().tolist()
        else:
            out[k] = [case[k][i] for i in sel[ax]]
    out["shape"] = new_shape
    if "split" in out:
        out["split"] = max(0, min(out["split"], new_shape[ax] - 1))
    return out


def _to_rank1(case, lane):
    shape = tuple(case["shape"])
    ax = case["axis"] % len(shape)
    if len(shape) == 1:
        return None
    rest = [s for i, s in enumerate(shape) if i != ax]
    idx = list(np.unravel_index(lane, rest)) if rest else []
    sel, it = [], iter(idx)
    for d in range(len(shape)):
        sel.append(list(range(shape[d])) if d == ax else [int(next(it))])
    sub = _select(case, sel)
    full_keys, coord_keys = ND_KEYS[case["kind"]]
    sub["shape"] = [shape[ax]]
    sub["axis"] = 0
    sub["layout"] = "C"
    for k in coord_keys:
        if sub.get(k) is not None:
            sub[k + "mode"] = "1d"
    return sub


def _candidates(case, detail, key=None):
    kind = case["kind"]
    if key == "trapz-missing" and case != fixed_cases()[0]:
        yield fixed_cases()[0]          # every call of integrate_column fails the same way
    if kind in ND_KEYS:
        shape = tuple(case["shape"])
        ax = case["axis"] % len(shape)
        n = shape[ax]
        lane = detail.get("lane") if isinstance(detail, dict) else None
        if len(shape) > 1:
            if lane is not None:
                c = _to_rank1(case, lane)
                if c is not None:
                    yield c
            tiny = [list(range(min(s, 3 if d == ax else 2))) for d, s in enumerate(shape)]
            if [len(t) for t in tiny] != list(shape):
                yield _select(case, tiny)
            for d, s in enumerate(shape):
                if d != ax and s > 1:
                    yield _select(case, [list(range(t)) if e != d else [0]
                                         for e, t in enumerate(shape)])
        if n > 2:
            h = n // 2
            for lo, hi in ((0, h + 1), (h, n), (0, n - 1), (1, n)):
                if hi - lo >= 2 and hi - lo < n:
                    yield _select(case, [list(range(lo, hi)) if d == ax else list(range(s))
                                         for d, s in enumerate(shape)])
        if case.get("layout", "C") != "C":
            yield dict(case, layout="C")
    elif kind == "p2h":
        p = case["p"]
        n = len(p)
        if n > 2:
            h = n // 2
            for lo, hi in ((0, h + 1), (h, n), (0, n - 1), (1, n)):
                if hi - lo >= 2 and hi - lo < n:
                    sub = dict(case, p=p[lo:hi])
                    sub.pop("recipe", None)
                    if isinstance(case.get("T"), list):
                        sub["T"] = case["T"][lo:hi]
                    yield sub
    elif kind == "isa":
        v = case["values"]
        idx = detail.get("index") if isinstance(detail, dict) else None
        if idx is not None and len(v) > 1 and idx < len(v):
            yield dict(case, values=[v[idx]])


def _layout(a, layout):
    """Present the same values through a different memory layout."""
    if layout == "F":
        return np.asfortranarray(a)
    if layout == "transposed" and a.ndim >= 2:
        return np.ascontiguousarray(a.T).T
    if layout == "strided":
        buf = np.zeros(tuple(2 * s for s in a.shape), dtype=a.dtype)
        view = buf[tuple(slice(None, None, 2) for _ in a.shape)]
        view[...] = a
        return view
    return np.ascontiguousarray(a)


# ---------------------------------------------------------------------------------------
# generators
# ---------------------------------------------------------------------------------------
GRID_CLASSES = ["uniform", "irregular", "log", "offset", "ulp-steps", "repeated", "tiny-big",
                "pressure"]
Y_CLASSES = ["normal", "sign-change", "cancel", "constant", "linear", "magnitudes", "integers",
             "zeros", "vmr-like"]


def gen_grid(rng, cls, n):
    if cls == "uniform":
        x0, h = rng.uniform(-100, 100), 10.0 ** rng.uniform(-6, 4)
        x = [x0 + h * i for i in range(n)]
    elif cls == "irregular":
        x, cur = [], rng.uniform(-10, 10)
        for _ in range(n):
            x.append(cur)
            cur += rng.choice([rng.uniform(1e-3, 1), rng.uniform(1, 100), rng.expovariate(1.0)])
    elif cls == "log":
        a, b = rng.uniform(4, 5.1), rng.uniform(-1, 3)
        x = [10.0 ** (a + (b - a) * i / max(n - 1, 1)) for i in range(n)][::-1]
    elif cls == "offset":
        x0, h = rng.choice([1e9, 1e15, -1e12]), rng.uniform(0.5, 4)
        x = [x0 + h * i for i in range(n)]
    elif cls == "ulp-steps":
        cur = rng.uniform(1, 1000)
        x = []
        for _ in range(n):
            x.append(cur)
            for _ in range(rng.randint(1, 3)):
                cur = math.nextafter(cur, math.inf)
    elif cls == "repeated":
        x, cur = [], rng.uniform(-5, 5)
        for _ in range(n):
            x.append(cur)
            if rng.random() < 0.6:
                cur += rng.uniform(0.01, 2)
    elif cls == "tiny-big":
        x, cur = [], 0.0
        for _ in range(n):
            x.append(cur)
            cur += 10.0 ** rng.uniform(-12, 6)
    else:  # pressure
        top = rng.uniform(10, 300e2)
        x = sorted((rng.uniform(top, 1050e2) for _ in range(n)))
    x = sorted(float(v) for v in x)
    if rng.random() < 0.5:
        x = x[::-1]
    return x


def gen_values(rng, cls, m):
    if cls == "normal":
        return [rng.gauss(0, 1) for _ in range(m)]
    if cls == "sign-change":
        return [rng.uniform(-1, 1) * 10 ** rng.uniform(-2, 2) for _ in range(m)]
    if cls == "cancel":
        big = 10.0 ** rng.uniform(3, 12)
        return [((-1) ** i) * big + rng.uniform(-1, 1) for i in range(m)]
    if cls == "constant":
        c = rng.uniform(-5, 5)
        return [c] * m
    if cls == "linear":
        a, b = rng.uniform(-3, 3), rng.uniform(-3, 3)
        return [a + b * i for i in range(m)]
    if cls == "magnitudes":
        return [rng.choice([-1, 1]) * 10.0 ** rng.uniform(-100, 100) for _ in range(m)]
    if cls == "integers":
        return [float(rng.randint(-1000, 1000)) for _ in range(m)]
    if cls == "zeros":
        return [0.0 if rng.random() < 0.7 else rng.uniform(-1, 1) for _ in range(m)]
    return [0.03 * math.exp(-rng.uniform(0, 9)) for _ in range(m)]


def gen_shape(rng, n, max_total=360):
    rank = rng.choice([1, 1, 2, 2, 3, 3, 4])
    while True:
        others = [rng.choice([1, 2, 3, 4, 5, 7]) for _ in range(rank - 1)]
        if n * int(np.prod(others or [1])) <= max_total or rank == 1:
            break
        rank = max(1, rank - 1)
    ax = rng.randrange(rank)
    shape = others[:ax] + [n] + others[ax:]
    axis = ax - rank if rng.random() < 0.4 else ax
    return shape, axis


def gen_ic_case(rng, big=False):
    exact = (not big) and rng.random() < 0.3
    if big:
        n = rng.choice([1000, 4096, 10000])
        shape, axis = [n], rng.choice([0, -1])
    else:
        n = rng.choice([2, 2, 3, 4, 5, 8, 13, 30, 90])
        shape, axis = gen_shape(rng, n)
    total = int(np.prod(shape))
    xmode = rng.choice(["none", "1d", "1d", "full"]) if len(shape) > 1 else \
        rng.choice(["none", "1d", "1d"])
    gcls = rng.choice(GRID_CLASSES)
    ycls = rng.choice(Y_CLASSES)
    dtype = rng.choice(["float64", "float64", "float64", "int64", "float32", "list"])
    if exact:
        gcls, ycls = "dyadic", "small-int"
        dtype = rng.choice(["float64", "int64"])

        def grid():
            cur, out = rng.randint(-50, 50) * 0.25, []
            for _ in range(n):
                out.append(cur)
                cur += rng.randint(0, 40) * 0.25
            return out if rng.random() < 0.5 else out[::-1]
        y = [float(rng.randint(-2 ** 16, 2 ** 16)) for _ in range(total)]
        y2 = [float(rng.randint(-2 ** 16, 2 ** 16)) for _ in range(total)]
        a, b = float(rng.randint(-8, 8)), float(rng.randint(-8, 8))
    else:
        def grid():
            return gen_grid(rng, gcls, n)
        y = gen_values(rng, ycls, total)
        y2 = gen_values(rng, rng.choice(Y_CLASSES), total)
        a, b = rng.uniform(-3, 3), rng.uniform(-3, 3)
    if dtype == "int64":
        y = [float(round(v)) if abs(v) < 2 ** 40 else float(rng.randint(-9, 9)) for v in y]
    if dtype == "float32":
        y = [float(np.float32(max(min(v, 1e30), -1e30))) for v in y]
        y = [v if abs(v) > 1e-30 or v == 0 else 0.0 for v in y]
    if dtype == "list" and len(shape) > 1:
        dtype = "float64"
    x = None
    if xmode == "1d":
        x = grid()
    elif xmode == "full":
        lanes_n = total // n
        cols = [grid() for _ in range(lanes_n)]
        ax = axis % len(shape)
        arr = np.moveaxis(np.asarray(cols).reshape(_drop_axis(shape, ax) + (n,)), -1, ax)
        x = arr.ravel().tolist()
    case = {"kind": "ic", "gcls": gcls, "ycls": ycls, "exact": exact, "shape": shape,
            "axis": axis, "dtype": dtype, "xmode": xmode, "y": y, "x": x,
            "layout": rng.choice(["C", "C", "F", "transposed", "strided"]),
            "y2": y2 if not big else None, "a": a, "b": b, "split": rng.randrange(n),
            "default_axis": rng.random() < 0.5}
    return case


def gen_profile_p(rng, n):
    cls = rng.choice(["uniform", "log", "irregular", "close"])
    ps, pt = rng.uniform(850e2, 1050e2), rng.uniform(50, 400e2)
    if cls == "uniform":
        p = [ps + (pt - ps) * i / (n - 1) for i in range(n)]
    elif cls == "log":
        p = [ps * (pt / ps) ** (i / (n - 1)) for i in range(n)]
    elif cls == "irregular":
        p = sorted((rng.uniform(pt, ps) for _ in range(n)), reverse=True)
    else:
        p, cur = [], ps
        for _ in range(n):
            p.append(cur)
            cur = cur * (1 - 10.0 ** rng.uniform(-12, -1.5))
    p = sorted(set(float(v) for v in p), reverse=True)
    while len(p) < n:
        p.append(p[-1] * 0.97)
    return cls, p[:n]


def gen_iwv_case(rng, big=False):
    n = rng.choice([2, 3, 5, 10, 40, 120]) if not big else rng.choice([1000, 5000])
    shape, axis = gen_shape(rng, n) if not big else ([n], 0)
    total = int(np.prod(shape))
    pcls, p = gen_profile_p(rng, n)
    pmode = rng.choice(["1d", "1d", "full"]) if len(shape) > 1 else "1d"
    ax = axis % len(shape)
    if pmode == "full":
        cols = [gen_profile_p(rng, n)[1] for _ in range(total // n)]
        if len(cols) >= 3 and rng.random() < 0.4:
            cols[-1] = list(cols[0])      # a cyclic point: the last column repeats the first one
        arr = np.moveaxis(np.asarray(cols).reshape(_drop_axis(shape, ax) + (n,)), -1, ax)
        p = arr.ravel().tolist()
    vcls = rng.choice(["vmr-like", "zeros", "constant", "uniform"])
    if vcls == "vmr-like":
        vmr = gen_values(rng, "vmr-like", total)
    elif vcls == "zeros":
        vmr = [0.0 if rng.random() < 0.6 else rng.uniform(0, 0.04) for _ in range(total)]
    elif vcls == "constant":
        vmr = [rng.choice([0.0, 1e-6, 0.02])] * total
    else:
        vmr = [rng.uniform(0, 0.05) for _ in range(total)]
    form = rng.choice(["hydrostatic", "general"])
    T = z = None
    zmode = None
    if form == "general" and pmode == "1d" and len(shape) > 1:
        # the general form multiplies vmr, p and T element-wise: p has to come in their shape
        arr = np.moveaxis(np.broadcast_to(np.asarray(p), _drop_axis(shape, ax) + (n,)), -1, ax)
        p, pmode = arr.ravel().tolist(), "full"
    if form == "general":
        T = [rng.uniform(180, 320) for _ in range(total)]
        zcur, z = rng.uniform(-400, 2000), []
        for _ in range(n):
            z.append(zcur)
            zcur += rng.uniform(1, 1500)
        zmode = "1d"
    return {"kind": "iwv", "pcls": pcls, "vcls": vcls, "form": form, "shape": shape,
            "axis": axis, "vmr": vmr, "p": p, "pmode": pmode, "T": T, "z": z, "zmode": zmode,
            "layout": rng.choice(["C", "F", "strided"])}


def gen_conv_case(rng, big=False):
    ps = rng.uniform(9e4, 1.05e5)
    ptop = rng.uniform(50e2, 300e2)
    return {"kind": "conv", "grid": rng.choice(["uniform-p", "uniform-s", "irregular"]),
            "n0": rng.choice([64, 96, 128]), "levels": 5, "gseed": rng.randrange(10 ** 9),
            "par": {"ps": ps, "s_top": math.log(ps / ptop), "T0": rng.uniform(270, 305),
                    "lapse": rng.uniform(20, 45), "dT": rng.uniform(0, 3),
                    "k": rng.uniform(1, 3), "x0": rng.uniform(0.004, 0.03),
                    "c": rng.uniform(1.5, 4), "a": rng.uniform(0, 0.3),
                    "m": rng.uniform(1, 3)}}


def gen_crh_case(rng, big=False):
    n = rng.choice([2, 3, 4, 6, 10, 25, 60])
    while True:
        shape, axis = gen_shape(rng, n, max_total=300)
        if len(shape) <= 3:
            break
    total = int(np.prod(shape))
    ax = axis % len(shape)
    pmode = rng.choice(["1d", "1d", "full"]) if len(shape) > 1 else "1d"

    def pcol():
        ps, pt = rng.uniform(900e2, 1040e2), rng.uniform(150e2, 500e2)
        col = sorted((rng.uniform(pt, ps) for _ in range(n)), reverse=True)
        col = sorted(set(col), reverse=True)
        while len(col) < n:
            col.append(col[-1] * 0.98)
        return col
    if pmode == "full":
        cols = [pcol() for _ in range(total // n)]
        p = np.moveaxis(np.asarray(cols).reshape(_drop_axis(shape, ax) + (n,)), -1, ax)
        p = p.ravel().tolist()
    else:
        p = pcol()
    Tcls = rng.choice(["troposphere", "window", "cold", "warm"])
    lo, hi = {"troposphere": (200, 305), "window": (249, 274.5), "cold": (190, 250),
              "warm": (274, 310)}[Tcls]
    T = [rng.uniform(lo, hi) for _ in range(total)]
    return {"kind": "crh", "Tcls": Tcls, "shape": shape, "axis": axis, "p": p, "pmode": pmode,
            "T": T, "frac": [rng.uniform(0.05, 1) for _ in range(total)],
            "frac2": [rng.uniform(0, 1) for _ in range(total)],
            "a": rng.choice([0.5, 0.25, rng.uniform(0.01, 1)]),
            "layout": rng.choice(["C", "F", "strided"])}


def gen_p2h_case(rng, big=False):
    n = rng.choice([2, 3, 5, 12, 50, 200]) if not big else rng.choice([2000, 10000])
    pcls, p = gen_profile_p(rng, n)
    if rng.random() < 0.25:
        top = rng.uniform(0.5, 50)
        p = [p[0] * (top / p[0]) ** (i / (n - 1)) for i in range(n)]
        pcls = "deep"
    mode = rng.choice(["iso", "iso", "profile", "none"])
    T = None
    if mode == "iso":
        T = [rng.choice([rng.uniform(150, 330), 250.0, 288.15])] * n
    elif mode == "profile":
        T = [rng.uniform(180, 320) for _ in range(n)]
    case = {"kind": "p2h", "pcls": pcls, "mode": mode, "p": p, "T": T}
    if rng.random() < 0.25:
        # pressures stored as integers (e.g. an integer Pa / hPa*100 table): same values, other dtype
        pi = sorted({int(round(v)) for v in p if v >= 1}, reverse=True)
        if rng.random() < 0.5 and len(pi) >= 2:
            # finely spaced integer grid: layers of a few metres
            p0 = pi[0]
            pi = [p0 - 5 * k for k in range(min(len(pi) * 4, 400)) if p0 - 5 * k > 1000]
        if len(pi) >= 2:
            case["p"] = [float(v) for v in pi]
            case["pdtype"] = "int64"
            case["pcls"] = pcls + "-int"
            if case["T"] is not None:
                case["T"] = (case["T"] * 8)[:len(pi)] if len(case["T"]) < len(pi) else case["T"][:len(pi)]
    return case


def gen_isa_case(rng, big=False):
    from vt.models import column_model as cm
    coord = rng.choice(["height", "pressure"])
    cls = rng.choice(["levels", "between", "beyond", "near-levels"])
    knots = cm.ISA_H if coord == "height" else cm.ISA_P
    n = rng.choice([1, 2, 8, 40])
    if cls == "levels":
        vals = [rng.choice(knots) for _ in range(n)] + list(knots)
    elif cls == "between":
        vals = [rng.uniform(-610, 84852) if coord == "height"
                else 10.0 ** rng.uniform(math.log10(0.3734), math.log10(108900))
                for _ in range(n)]
    elif cls == "beyond":
        vals = [rng.choice([rng.uniform(-3000, -610), rng.uniform(84852, 120000)])
                if coord == "height"
                else rng.choice([rng.uniform(108900, 120000), rng.uniform(0.01, 0.3734)])
                for _ in range(n)]
    else:
        vals = []
        for _ in range(n):
            k = rng.choice(knots)
            vals.append(math.nextafter(k, rng.choice([-math.inf, math.inf])))
    return {"kind": "isa", "cls": cls, "coordinates": coord, "values": [float(v) for v in vals],
            "container": rng.choice(["1d", "pyfloat", "0d", "2d"]) if len(vals) <= 16
            else rng.choice(["1d", "2d"])}


GENERATORS = {"ic": gen_ic_case, "iwv": gen_iwv_case, "conv": gen_conv_case,
              "crh": gen_crh_case, "p2h": gen_p2h_case, "isa": gen_isa_case}


# ---------------------------------------------------------------------------------------
# 1-5  integrate_column
# ---------------------------------------------------------------------------------------
def _np_dtype(name):
    return {"float64": np.float64, "int64": np.int64, "float32": np.float32,
            "list": np.float64}[name]


def drive_history(rec, case, name, fn, args):
    """Call history on caller-owned buffers (vt/monitors/history.py); the un-armed function is used so
    that no post-condition of the single-call checks ends the history."""
    from vt.monitors import history
    rec.ev()
    verdict, detail = history.reuse_check(fn, args)
    rec.count("history.reuse_" + verdict.replace("/", ""))
    if verdict == "stale":
        rec.violation("stale-state", case, dict(detail, function=name))


def check_ic(rec, case):
    from vt.models import column_model as cm
    case = materialize(case)
    atm, common = install_contracts(_mon["rec"])
    ic = common.integrate_column
    shape = tuple(case["shape"])
    axis = case["axis"]
    ax = axis % len(shape)
    n = shape[ax]
    dt = _np_dtype(case["dtype"])
    u = 2.0 ** -24 if case["dtype"] == "float32" else cm.U
    exact = bool(case.get("exact"))
    only = case.get("only")
    y = _layout(np.asarray(case["y"], dtype=float).reshape(shape).astype(dt), case["layout"])
    xmode = case["xmode"] if case.get("x") is not None else "none"
    if xmode == "none":
        x = None
    elif xmode == "1d":
        x = np.asarray(case["x"], dtype=float)
    else:
        x = _layout(np.asarray(case["x"], dtype=float).reshape(shape), case["layout"])
    want_shape = _drop_axis(shape, ax)
    if case["dtype"] != "float32" and n % 3 == 0:
        o_ic = _mon["orig"]["integrate_column"]
        if x is None:
            drive_history(rec, case, "integrate_column", lambda yy: o_ic(yy, axis=axis), (y,))
        else:
            drive_history(rec, case, "integrate_column", lambda yy, xx: o_ic(yy, xx, axis=axis), (y, x))

    def call(yy, xx, axis_arg, key="ic-exception", default_axis=False):
        rec.ev()
        rec.count("ic.calls")
        try:
            with np.errstate(all="ignore"):
                if default_axis:
                    return ic(yy) if xx is None else ic(yy, xx)
                if xx is None:
                    return ic(yy, axis=axis_arg)
                return ic(yy, xx, axis=axis_arg)
        except ContractBreach as exc:
            rec.violation(exc.key, case, exc.detail)
        except Exception as exc:
            rec.violation(_exc_key(exc, key), case, _exc_detail(exc))
        return None

    def exact_all(yarr, xarr):
        yl = cm.lanes(np.asarray(yarr), ax)
        if xarr is None:
            xl = None
        elif np.ndim(xarr) == 1:
            xl = [np.asarray(xarr).tolist()] * yl.shape[0]
        else:
            xl = cm.lanes(np.asarray(xarr), ax).tolist()
        E, A = [], []
        for i in range(yl.shape[0]):
            e, a_ = cm.exact_lane(yl[i].tolist(), None if xl is None else xl[i])
            E.append(e)
            A.append(a_)
        return E, A

    def compare(got, E, A, key, what, extra=0.0):
        """got (array-like, result of the real call) against exact lane values."""
        g = np.asarray(got)
        if g.shape != want_shape:
            rec.violation("ic-shape", case, {"what": what, "got_shape": list(g.shape),
                                             "want_shape": list(want_shape)})
            return False
        gf = g.reshape(-1)
        okay = True
        for i, (e, a_) in enumerate(zip(E, A)):
            bound = 0.0 if exact else cm.lane_bound(n, a_, u) + extra
            err = abs(Fraction(float(gf[i])) - e) if math.isfinite(float(gf[i])) else math.inf
            rec.count("ic.lanes")
            if a_ > 0 and not exact and err != math.inf:
                rec.maxi("ic.err_over_bound", float(err / Fraction(bound)))
            if not err <= bound:
                rec.violation(key, case, {"what": what, "lane": i, "got": float(gf[i]),
                                          "want": float(e), "err": float(err), "bound": bound,
                                          "n": n})
                okay = False
                break
        return okay

    y_for_call = y.tolist() if case["dtype"] == "list" else y
    use_default = bool(case.get("default_axis")) and ax == 0 and axis == 0
    got = call(y_for_call, x, axis, default_axis=use_default)
    if got is None:
        return
    E, A = exact_all(y, x)
    ok = compare(got, E, A, "ic-value", "I(y, x, axis)")
    nontrivial = any(a_ > 0 for a_ in A)
    if ok and not only:
        yf = np.asarray(y, dtype=float)
        # the other sign of the same axis
        other = ax - len(shape) if axis >= 0 else ax
        g2 = call(y, x, other)
        if g2 is not None:
            compare(g2, E, A, "ic-value", "same axis, other sign (%d)" % other)
        # 5 unit spacing
        if x is None:
            g3 = call(y, np.arange(n, dtype=float), axis)
            rec.count("ic.relations")
            if g3 is not None:
                compare(g3, E, A, "ic-unit-spacing", "I(y, arange(n)) vs default spacing")
        # 4 sign reversal (negative-stride views)
        if x is not None:
            yr = np.flip(y, axis=ax)
            xr = np.flip(x, axis=0 if np.ndim(x) == 1 else ax)
            g4 = call(yr, xr, axis)
            rec.count("ic.relations")
            if g4 is not None:
                compare(g4, [-e for e in E], A, "ic-sign-reversal", "I(y[::-1], x[::-1]) vs -I")
        # 3 additivity at a grid point
        k = case.get("split", 0)
        if 0 < k < n - 1:
            sl1 = [slice(None)] * len(shape)
            sl2 = [slice(None)] * len(shape)
            sl1[ax] = slice(0, k + 1)
            sl2[ax] = slice(k, None)
            x1 = x2 = None
            if x is not None:
                if np.ndim(x) == 1:
                    x1, x2 = x[:k + 1], x[k:]
                else:
                    x1, x2 = x[tuple(sl1)], x[tuple(sl2)]
            ga = call(y[tuple(sl1)], x1, axis)
            gb = call(y[tuple(sl2)], x2, axis)
            rec.count("ic.relations")
            if ga is not None and gb is not None:
                with np.errstate(all="ignore"):
                    s = np.asarray(ga, dtype=float) + np.asarray(gb, dtype=float)
                # both parts carry their own share of the bound (A1 + A2 = A) and the sum
                # one more rounding
                extra = 0.0 if exact else float(np.max(np.abs(s))) * cm.U if s.size else 0.0
                compare(s, E, A, "ic-not-additive", "I(:k+1) + I(k:) vs I, k=%d" % k, extra)
        # 2 linearity
        if case.get("y2") is not None:
            a, b = case["a"], case["b"]
            y2 = _layout(np.asarray(case["y2"], dtype=float).reshape(shape), case["layout"])
            with np.errstate(all="ignore"):
                y3 = a * yf + b * y2
            if np.all(np.isfinite(y3)):
                g_y2 = call(y2, x, axis)
                g_y3 = call(y3, x, axis)
                rec.count("ic.relations")
                if g_y2 is not None and g_y3 is not None:
                    E2, A2 = exact_all(y2, x)
                    E3, A3 = exact_all(y3, x)
                    ok2 = compare(g_y2, E2, A2, "ic-value", "I(y2)")
                    ok3 = compare(g_y3, E3, A3, "ic-value", "I(a y1 + b y2)")
                    if ok2 and ok3:
                        g1 = np.asarray(got, dtype=float).reshape(-1)
                        g2_ = np.asarray(g_y2, dtype=float).reshape(-1)
                        g3_ = np.asarray(g_y3, dtype=float).reshape(-1)
                        fa, fb = Fraction(a), Fraction(b)
                        for i in range(len(E)):
                            with np.errstate(all="ignore"):
                                comb = a * g1[i] + b * g2_[i]
                            if not math.isfinite(comb):
                                continue
                            if exact:
                                bound = 0.0
                            else:
                                bound = (cm.lane_bound(n, A3[i]) + abs(a) * cm.lane_bound(n, A[i], u)
                                         + abs(b) * cm.lane_bound(n, A2[i])
                                         + float(abs(E3[i] - fa * E[i] - fb * E2[i]))
                                         + 3 * cm.U * (abs(a * g1[i]) + abs(b * g2_[i])))
                            if not abs(g3_[i] - comb) <= bound:
                                rec.violation("ic-not-linear", case,
                                              {"lane": i, "a": a, "b": b, "I1": g1[i],
                                               "I2": g2_[i], "I3": g3_[i], "bound": bound})
                                break
    if nontrivial:
        rec.nontriv(["ic", case["gcls"], case["ycls"], len(shape), axis, xmode, case["layout"],
                     case["dtype"], n if n >= 1000 else 0],
                    [case.get("recipe"), case["y"][:24], (case.get("x") or [])[:24],
                     shape] if n < 1000 else [case.get("recipe"), case["y"][:24]])


# ---------------------------------------------------------------------------------------
# 6  IWV: sign and value
# ---------------------------------------------------------------------------------------
def check_iwv(rec, case):
    from vt.models import atmosphere_model as am
    from vt.models import column_model as cm
    case = materialize(case)
    atm, common = install_contracts(_mon["rec"])
    LD = cm.LD
    shape = tuple(case["shape"])
    axis = case["axis"]
    ax = axis % len(shape)
    n = shape[ax]
    vmr = _layout(np.asarray(case["vmr"], dtype=float).reshape(shape), case["layout"])
    p = np.asarray(case["p"], dtype=float)
    if case["pmode"] == "full":
        p = _layout(p.reshape(shape), case["layout"])
    Mw, Md = (float(t) for t in am.molar_fractions())
    general = case["form"] == "general"
    rec.ev()
    rec.count("iwv.calls")
    try:
        with np.errstate(all="ignore"):
            if general:
                T = _layout(np.asarray(case["T"], dtype=float).reshape(shape), case["layout"])
                z = np.asarray(case["z"], dtype=float)
                got = atm.integrate_water_vapor(vmr, p, T=T, z=z, axis=axis)
            else:
                got = atm.integrate_water_vapor(vmr, p, axis=axis)
    except ContractBreach as exc:
        rec.violation(exc.key, case, dict(exc.detail, lane=0))
        return
    except Exception as exc:
        rec.violation(_exc_key(exc, "iwv-exception"), case, _exc_detail(exc))
        return
    if n % 2 == 0:
        o_iwv = _mon["orig"]["integrate_water_vapor"]
        if general:
            drive_history(rec, case, "integrate_water_vapor",
                          lambda v, pp, tt, zz: o_iwv(v, pp, T=tt, z=zz, axis=axis), (vmr, p, T, z))
        else:
            drive_history(rec, case, "integrate_water_vapor", lambda v, pp: o_iwv(v, pp, axis=axis), (vmr, p))
    g = np.asarray(got, dtype=float)
    want_shape = _drop_axis(shape, ax)
    if g.shape != want_shape:
        rec.violation("iwv-shape", case, {"got_shape": list(g.shape),
                                          "want_shape": list(want_shape)})
        return
    gf = g.reshape(-1)
    vl = cm.lanes(vmr, ax).astype(LD)
    pl = cm.lanes(p, ax).astype(LD) if p.ndim > 1 else np.broadcast_to(p.astype(LD), vl.shape)
    if general:
        Rv = LD(R_STAR) / LD(Mw)
        Tl = cm.lanes(T, ax).astype(LD)
        f = vl * pl / (Rv * Tl)
        zl = np.broadcast_to(z.astype(LD), vl.shape)
        want = ((zl[:, 1:] - zl[:, :-1]) * (f[:, 1:] + f[:, :-1]) / 2).sum(axis=1)
        k = n + 10
        key = "iwv-general-value"
    else:
        q = am.convert("x2q", vl, LD(Mw), LD(Md))
        want = -((pl[:, 1:] - pl[:, :-1]) * (q[:, 1:] + q[:, :-1]) / 2).sum(axis=1) / LD(G0)
        k = n + 12
        key = "iwv-hydrostatic-value"
    bound = cm.gamma(k) * np.abs(want).astype(float) * (1 + 2.0 ** -10) + n * cm.TINY
    err = np.abs(gf.astype(LD) - want).astype(float)
    rec.count("iwv.lanes", gf.size)
    neg = ~(gf >= 0)
    if neg.any():
        j = int(np.argmax(neg))
        rec.violation("iwv-negative", case, {"lane": j, "got": float(gf[j]),
                                             "want": float(want[j]), "form": case["form"]})
    badm = ~(err <= bound)
    if badm.any():
        j = int(np.argmax(badm))
        rec.violation(key, case, {"lane": j, "got": float(gf[j]), "want": float(want[j]),
                                  "err": float(err[j]), "bound": float(bound[j])})
    pos = bound > 0
    if pos.any():
        rec.maxi("iwv.err_over_bound", float(np.max(err[pos] / bound[pos])))
    if np.any(want > 0):
        rec.nontriv(["iwv", case["form"], case["pcls"], case["vcls"], len(shape), axis,
                     case["pmode"], case["layout"]],
                    [case.get("recipe"), case["vmr"][:16], case["p"][:16], shape])


# ---------------------------------------------------------------------------------------
# 7  convergence of the two IWV forms
# ---------------------------------------------------------------------------------------
def conv_nodes(case):
    """s-nodes of the finest grid; level L uses every 2^(levels-L)-th node."""
    par = case["par"]
    n0, levels = case["n0"], case["levels"]
    s_top = par["s_top"]
    if case["grid"] == "uniform-s":
        base = np.linspace(0, s_top, n0 + 1)
        refine = "s"
    elif case["grid"] == "uniform-p":
        base = -np.log(np.linspace(1.0, math.exp(-s_top), n0 + 1))
        refine = "p"
    else:
        r = rng_for(case["gseed"], "c14-conv-grid")
        w = np.array([r.uniform(0.4, 1.6) for _ in range(n0)])
        base = np.concatenate([[0.0], np.cumsum(w)]) * s_top / w.sum()
        refine = "s"
    nodes = base
    for _ in range(levels):
        if refine == "s":
            mid = 0.5 * (nodes[:-1] + nodes[1:])
        else:
            mid = -np.log(0.5 * (np.exp(-nodes[:-1]) + np.exp(-nodes[1:])))
        new = np.empty(2 * len(nodes) - 1)
        new[0::2] = nodes
        new[1::2] = mid
        nodes = new
    return nodes


def check_conv(rec, case):
    from vt.models import atmosphere_model as am
    from vt.models import column_model as cm
    atm, common = install_contracts(_mon["rec"])
    Mw, Md = (float(t) for t in am.molar_fractions())
    col = cm.MoistColumn(case["par"], R_STAR, G0, Mw, Md)
    fine = conv_nodes(case)
    z_fine = col.heights(fine)
    true = col.iwv_true(fine)
    levels = case["levels"]
    dh, dg, dd, ns = [], [], [], []
    try:
        for L in range(levels + 1):
            step = 2 ** (levels - L)
            s = fine[::step]
            p, T, x, z = col.pressure(s), col.T(s), col.x(s), z_fine[::step]
            rec.ev(2)
            hyd = float(atm.integrate_water_vapor(x, p))
            gen = float(atm.integrate_water_vapor(x, p, T=T, z=z))
            dh.append(abs(hyd - true) / true)
            dg.append(abs(gen - true) / true)
            dd.append(abs(gen - hyd) / true)
            ns.append(len(s) - 1)
    except ContractBreach as exc:
        rec.violation(exc.key, case, exc.detail)
        return
    except Exception as exc:
        rec.violation(_exc_key(exc, "iwv-exception"), case, _exc_detail(exc))
        return
    rec.count("conv.profiles")
    floor = 1e-10
    for key, seq in (("iwv-forms-diverge", dd), ("iwv-hydrostatic-convergence", dh),
                     ("iwv-general-convergence", dg)):
        bad = None
        for i in range(len(seq) - 1):
            if seq[i + 1] <= floor:
                continue
            ratio = seq[i] / seq[i + 1]
            rec.maxi("conv.neg_min_ratio", -ratio)
            rec.count("conv.ratios")
            if not ratio >= 3.5:
                bad = {"what": "error shrinks %.3fx from %d to %d layers" % (ratio, ns[i],
                                                                             ns[i + 1])}
                break
        if bad is None and not seq[-1] <= 1e-4:
            bad = {"what": "relative difference %.3e on the finest grid" % seq[-1]}
        if bad is not None:
            rec.violation(key, case, dict(bad, layers=ns, hydrostatic_err=dh, general_err=dg,
                                          difference=dd, iwv=true))
    rec.maxi("conv.finest_difference", dd[-1])
    rec.nontriv(["conv", case["grid"], case["n0"]], case["par"])


# ---------------------------------------------------------------------------------------
# 8-9  column relative humidity
# ---------------------------------------------------------------------------------------
def check_crh(rec, case):
    from vt.models import column_model as cm
    atm, common = install_contracts(_mon["rec"])
    shape = tuple(case["shape"])
    axis = case["axis"]
    ax = axis % len(shape)
    n = shape[ax]
    lay = case.get("layout", "C")
    T = _layout(np.asarray(case["T"], dtype=float).reshape(shape), lay)
    p = np.asarray(case["p"], dtype=float)
    if case["pmode"] == "full":
        p = _layout(p.reshape(shape), lay)
        p_b = p
    else:
        bshape = [1] * len(shape)
        bshape[ax] = n
        p_b = p.reshape(bshape)
    # saturated profile by the definition the statement refers to (typhon's own functions)
    with np.errstate(all="ignore"):
        qs = atm.water_vapor_pressure2specific_humidity(atm.e_eq_mixed_mk(T), p_b)
    if not (np.all(qs > 0) and np.all(qs < 1)):
        return
    frac = np.asarray(case["frac"], dtype=float).reshape(shape)
    frac2 = np.asarray(case["frac2"], dtype=float).reshape(shape)
    a = case["a"]
    want_shape = _drop_axis(shape, ax)
    tol = cm.gamma(2 * n + 40)

    def crh(q, Targ=None, parg=None, axis_arg=axis):
        rec.ev()
        rec.count("crh.calls")
        with np.errstate(all="ignore"):
            return np.asarray(atm.column_relative_humidity(
                _layout(q, lay), p if parg is None else parg, T if Targ is None else Targ,
                axis=axis_arg), dtype=float)

    def lanes_pass():
        """mechanism: do all 1-d lanes pass on their own?"""
        ql, Tl = cm.lanes(qs, ax), cm.lanes(T, ax)
        pl = cm.lanes(p, ax) if p.ndim > 1 else None
        for i in range(ql.shape[0]):
            try:
                v = crh(ql[i].copy(), Tl[i].copy(), p if pl is None else pl[i].copy(), 0)
            except Exception:
                return False
            if not abs(float(v) - 1) <= tol:
                return False
        return True

    # levels exactly on the two regime boundaries of the mixed-phase formula, and a saturated profile
    # built from the harness' own mixed-phase model (a reference built with typhon's own e_eq_mixed_mk
    # would vanish together with a fault at those levels); gross deviations only
    try:
        from vt.models import atmosphere_model as am
        Tb = np.array(T, dtype=float, copy=True, order="C")
        flatb = Tb.reshape(-1)           # a view: Tb is C-contiguous
        flatb[::3] = am.T_TRIPLE
        flatb[1::3] = am.T_TRIPLE - am.BLEND_WIDTH
        es_model = np.asarray(am.mixed_ld(flatb)[0], dtype=float).reshape(Tb.shape)
        with np.errstate(all="ignore"):
            qs_b = np.asarray(atm.water_vapor_pressure2specific_humidity(es_model, p_b), dtype=float)
        if np.all(qs_b > 0) and np.all(qs_b < 1):
            rec.count("crh.boundary_temperature_profiles")
            oneb = crh(qs_b, Targ=_layout(Tb, lay))
            if oneb.shape != want_shape or np.any(~(np.abs(oneb - 1) <= 1e-9)):
                rec.violation("crh-saturated-not-one", case,
                              {"why": "levels exactly at T_t and T_t - 23 K, saturated after the harness' "
                                      "own mixed-phase model", "got": oneb.reshape(-1)[:4].tolist(), "want": 1.0,
                               "tol": 1e-9})
    except ContractBreach as exc:
        rec.violation(exc.key, case, dict(exc.detail, lane=0))
        return
    except Exception as exc:
        rec.violation(_exc_key(exc, "crh-exception"), case, dict(_exc_detail(exc), lane=0))
        return
    try:
        try:
            one = crh(qs)
        except ContractBreach:
            raise
        except Exception as exc:
            if len(shape) > 1 and _exc_key(exc, "") == "" and lanes_pass():
                rec.violation("crh-rank2", case, dict(_exc_detail(exc), lane=0,
                                                      shape=list(shape), axis=axis))
                return
            raise
        if one.shape != want_shape:
            rec.violation("crh-shape", case, {"got_shape": list(one.shape),
                                              "want_shape": list(want_shape)})
            return
        dev = np.abs(one - 1)
        if np.any(~(dev <= tol)):
            j = int(np.argmax(~(dev <= tol).reshape(-1)))
            key = "crh-rank2" if len(shape) > 1 and lanes_pass() else "crh-saturated"
            rec.violation(key, case, {"lane": j, "got": float(one.reshape(-1)[j]), "want": 1.0,
                                      "tol": tol, "shape": list(shape), "axis": axis})
            return
        rec.maxi("crh.dev_over_tol", float(np.max(dev)) / tol)
        # linear in q
        lin_tol = cm.gamma(4 * n + 90)
        ca = crh(a * qs)
        q1 = frac * qs
        q2 = 0.5 * frac2 * qs
        c1, c1a, c2, c12 = crh(q1), crh(a * q1), crh(q2), crh(q1 + q2)
        for what, got, want in (("CRH(a q_s) = a", ca, a + 0 * one),
                                ("CRH(a q) = a CRH(q)", c1a, a * c1),
                                ("CRH(q1 + q2) = CRH(q1) + CRH(q2)", c12, c1 + c2)):
            d = np.abs(got - want)
            lim = lin_tol * np.maximum(np.abs(want), np.abs(got))
            if np.any(~(d <= lim)):
                j = int(np.argmax(~(d <= lim).reshape(-1)))
                rec.violation("crh-not-linear", case,
                              {"what": what, "lane": j, "got": float(got.reshape(-1)[j]),
                               "want": float(want.reshape(-1)[j]), "tol": lin_tol})
                break
        if axis >= 0:
            other = crh(qs, axis_arg=ax - len(shape))
        else:
            other = crh(qs, axis_arg=ax)
        if other.shape != want_shape or np.any(~(np.abs(other - 1) <= tol)):
            rec.violation("crh-rank2" if len(shape) > 1 else "crh-saturated", case,
                          {"what": "same axis addressed with the other sign", "lane": 0,
                           "got": other.reshape(-1)[:4].tolist()})
        # call history: the same temperature buffer is modified in place (a colder state) and passed
        # again - the saturated profile of the *new* state must give 1 again
        Tbuf = T  # the very array object of the calls above
        T_saved = Tbuf.copy()
        try:
            Tbuf -= 6.0
            with np.errstate(all="ignore"):
                qs2 = atm.water_vapor_pressure2specific_humidity(atm.e_eq_mixed_mk(Tbuf), p_b)
            if np.all(qs2 > 0) and np.all(qs2 < 1):
                rec.count("crh.buffer_reuse_calls")
                again = crh(qs2, Targ=Tbuf)
                if again.shape != want_shape or np.any(~(np.abs(again - 1) <= tol)):
                    rec.violation("crh-stale-state", case,
                                  {"what": "temperature buffer modified in place between two calls",
                                   "got": again.reshape(-1)[:4].tolist(), "want": 1.0, "tol": tol})
        finally:
            Tbuf[...] = T_saved
    except ContractBreach as exc:
        rec.violation(exc.key, case, dict(exc.detail, lane=0))
        return
    except Exception as exc:
        rec.violation(_exc_key(exc, "crh-exception"), case, dict(_exc_detail(exc), lane=0))
        return
    rec.nontriv(["crh", case["Tcls"], len(shape), axis, case["pmode"], lay],
                [case["T"][:12], case["p"][:12], shape, a])


# ---------------------------------------------------------------------------------------
# 10-12  pressure2height
# ---------------------------------------------------------------------------------------
def check_p2h(rec, case):
    from vt.models import atmosphere_model as am
    from vt.models import column_model as cm
    case = materialize(case)
    atm, common = install_contracts(_mon["rec"])
    LD = cm.LD
    p = np.asarray(case["p"], dtype=float)
    n = p.size
    p_in = p if case.get("pdtype") != "int64" else p.astype(np.int64)
    T = None if case["T"] is None else np.asarray(case["T"], dtype=float)
    Md = float(am.molar_fractions()[1])
    Rd = R_STAR / Md
    rec.ev()
    rec.count("p2h.calls")
    try:
        if T is None and n >= 3:
            # call history: another grid with the same number of levels and the same end pressures was
            # converted just before (a uniform-in-log companion of the grid under test)
            with np.errstate(all="ignore"):
                comp = np.geomspace(p[0], p[-1], n)
                comp[0], comp[-1] = p[0], p[-1]
                if np.all(np.diff(comp) < 0) or np.all(np.diff(comp) > 0):
                    atm.pressure2height(comp)
                    rec.count("p2h.companion_grid_first")
        with np.errstate(all="ignore"):
            z = atm.pressure2height(p_in.copy()) if T is None else atm.pressure2height(p_in.copy(),
                                                                                        T.copy())
        if case.get("pdtype") == "int64":
            rec.count("p2h.integer_pressure_calls")
        z = np.asarray(z, dtype=float)
        if z.shape != p.shape:
            rec.violation("p2h-shape", case, {"got_shape": list(z.shape), "n": n})
            return
        if z[0] != 0:
            rec.violation("p2h-start", case, {"z0": float(z[0])})
        if T is None:
            Tref, slope, dist = cm.isa_pressure(p)
            Tb = np.asarray(Tref, dtype=float)
            rec.ev()
            with np.errstate(all="ignore"):
                z2 = np.asarray(atm.pressure2height(p.copy(), Tb.copy()), dtype=float)
            relT = (K_LIB * cm.U * np.abs(np.log(p)) * np.asarray(slope, dtype=float)
                    + 8 * cm.U * Tb) / Tb
            lim = (float(np.max(relT)) + 2 * cm.gamma(n + 8)) * np.abs(z2) + n * cm.TINY
            badm = ~(np.abs(z - z2) <= lim)
            if badm.any():
                j = int(np.argmax(badm))
                rec.violation("p2h-default-not-isa", case,
                              {"index": j, "p": float(p[j]), "z": float(z[j]),
                               "z_with_isa_T": float(z2[j]), "T_isa": float(Tb[j])})
            Tmin, Tmax = float(Tb.min()) * (1 - 1e-12), float(Tb.max()) * (1 + 1e-12)
        else:
            Tmin, Tmax = float(T.min()), float(T.max())
        sumL, sumC = cm.tanh_layer_sum(p)
        g = cm.gamma(n + 8)
        upper = np.asarray(LD(Rd * Tmax / G0) * sumL, dtype=float) * (1 + g) + n * cm.TINY
        lower = np.asarray(LD(Rd * Tmin / G0) * (sumL - sumC), dtype=float)
        lower = np.where(lower > 0, lower * (1 - g), lower * (1 + g)) - n * cm.TINY
        badm = ~((z <= upper) & (z >= lower))
        if badm.any():
            j = int(np.argmax(badm))
            key = "p2h-isothermal" if (T is not None and Tmin == Tmax) else "p2h-bounds"
            rec.violation(key, case, {"index": j, "p0": float(p[0]), "p": float(p[j]),
                                      "z": float(z[j]), "lower": float(lower[j]),
                                      "upper": float(upper[j]), "Tmin": Tmin, "Tmax": Tmax})
        if T is not None and Tmin == Tmax and n >= 2 and upper[-1] > 0:
            rec.maxi("p2h.iso_rel_gap", float((upper[-1] - z[-1]) / upper[-1]))
        if T is not None and n >= 2 and n % 2 == 0:
            drive_history(rec, case, "pressure2height", _mon["orig"]["pressure2height"], (p, T))
        if T is not None and Tmin == Tmax and n >= 2 and case.get("pdtype") != "int64":
            # the same isothermal column stored top-down (pressure increasing along the array): the law
            # z = (R T / g) ln(p0 / p) gives heights below the first level, the last one being minus the
            # thickness of the whole column
            rec.ev()
            rec.count("p2h.top_down_calls")
            with np.errstate(all="ignore"):
                zr = np.asarray(atm.pressure2height(p[::-1].copy(), T[::-1].copy()), dtype=float)
            if zr.shape != p.shape or zr[0] != 0 or not (-upper[-1] <= zr[-1] <= -lower[-1]):
                rec.violation("p2h-isothermal", dict(case, top_down=True),
                              {"why": "column stored with increasing pressure", "z_last": float(zr[-1]) if zr.size else None,
                               "want_between": [float(-upper[-1]), float(-lower[-1])], "z0": float(zr[0]) if zr.size else None})
        if T is not None and Tmin == Tmax and n >= 2:
            # the isothermal column given as one number (python float, numpy scalar, 0-d array): an
            # implementation may refuse it (the documentation asks for an array), but a returned height
            # must follow the isothermal law like the array form
            for form, conv in (("pyfloat", float), ("npfloat", np.float64), ("0d", np.array)):
                rec.ev()
                try:
                    with np.errstate(all="ignore"):
                        zs = np.asarray(atm.pressure2height(p.copy(), conv(Tmin)), dtype=float)
                except ContractBreach:
                    raise
                except Exception:
                    rec.count("p2h.scalar_T_refused")
                    continue
                rec.count("p2h.scalar_T_calls")
                badm = ~((zs <= upper) & (zs >= lower)) if zs.shape == p.shape else np.array([True])
                if badm.any():
                    j = int(np.argmax(badm))
                    rec.violation("p2h-isothermal", dict(case, scalar_T=form),
                                  {"index": j, "scalar_T": form, "T": Tmin,
                                   "z": float(zs.ravel()[j]) if zs.size > j else None,
                                   "z_array_form": float(z[j]), "lower": float(lower[j]),
                                   "upper": float(upper[j]), "got_shape": list(zs.shape)})
                    break
        # strictly increasing
        L = cm.layer_logs(p)
        inc_lo = np.asarray(LD(Rd * Tmin / G0) * (L - L ** 3 / 12), dtype=float)
        ulps = np.array([cm.ulp(v) for v in upper[1:]])
        must = inc_lo > 4 * ulps
        dz = z[1:] - z[:-1]
        badm = (must & ~(dz > 0)) | ~(dz >= 0)
        rec.count("p2h.strict_pairs", int(must.sum()))
        if badm.any():
            j = int(np.argmax(badm))
            rec.violation("p2h-not-increasing", case,
                          {"index": j, "p": [float(p[j]), float(p[j + 1])],
                           "z": [float(z[j]), float(z[j + 1])]})
    except ContractBreach as exc:
        rec.violation(exc.key, case, exc.detail)
        return
    except Exception as exc:
        rec.violation(_exc_key(exc, "p2h-exception"), case, _exc_detail(exc))
        return
    rec.nontriv(["p2h", case["pcls"], case["mode"], n if n >= 1000 else 0],
                [case.get("recipe"), case["p"][:16], (case["T"] or [])[:16], n])


# ---------------------------------------------------------------------------------------
# 13  standard atmosphere
# ---------------------------------------------------------------------------------------
def _isa_call(atm, vals, coord, cont):
    v = np.asarray(vals, dtype=float)
    kw = {} if coord == "height" else {"coordinates": "pressure"}
    if coord == "height" and cont == "1d":
        kw = {"coordinates": "height"}
    if cont == "pyfloat":
        return np.array([float(atm.standard_atmosphere(float(t), **kw)) for t in v]), v.size
    if cont == "0d":
        return np.array([float(atm.standard_atmosphere(np.array(t), **kw)) for t in v]), v.size
    if cont == "2d":
        k = 2 if v.size % 2 == 0 else 1
        return np.asarray(atm.standard_atmosphere(v.reshape(k, -1), **kw)).reshape(-1), 1
    return np.asarray(atm.standard_atmosphere(v.copy(), **kw)), 1


def check_isa(rec, case):
    from vt.models import column_model as cm
    atm, common = install_contracts(_mon["rec"])
    coord = case["coordinates"]
    vals = np.asarray(case["values"], dtype=float)
    try:
        with np.errstate(all="ignore"):
            got, calls = _isa_call(atm, vals, coord, case["container"])
        rec.ev(calls)
        rec.count("isa.calls", calls)
        want, slope, dist = cm.isa_height(vals) if coord == "height" else cm.isa_pressure(vals)
        wf = np.asarray(want, dtype=float)
        # interp1d evaluates slope * (x - x_lo) + y_lo: a handful of roundings of numbers of
        # the size of the result and of the increment, plus log() for the pressure coordinate
        incr = np.asarray(slope * dist, dtype=float)
        bound = 8 * cm.U * (np.abs(wf) + incr)
        if coord == "pressure":
            bound += (K_LIB + 1) * cm.U * np.abs(np.log(vals)) * np.asarray(slope, dtype=float)
        err = np.abs(got.astype(cm.LD) - want).astype(float)
        badm = ~(err <= bound)
        if got.shape != vals.shape:
            rec.violation("isa-interpolation", case, {"what": "shape", "index": 0,
                                                      "got_shape": list(got.shape)})
            return
        if badm.any():
            j = int(np.argmax(badm))
            knots = cm.ISA_H if coord == "height" else cm.ISA_P
            key = "isa-levels-disagree" if float(vals[j]) in knots else "isa-interpolation"
            rec.violation(key, case, {"index": j, "value": float(vals[j]), "got": float(got[j]),
                                      "want": float(wf[j]), "err": float(err[j]),
                                      "bound": float(bound[j])})
        rec.maxi("isa.err_over_bound", float(np.max(err / bound)))
        # the two addressings at the tabulated levels
        with np.errstate(all="ignore"):
            th, c1 = _isa_call(atm, cm.ISA_H, "height", case["container"])
            tp, c2 = _isa_call(atm, cm.ISA_P, "pressure", case["container"])
        rec.ev(c1 + c2)
        rec.count("isa.level_checks", len(cm.ISA_H))
        table = np.asarray(cm.ISA_T)
        lim = 8 * cm.U * table + (K_LIB + 1) * cm.U * np.abs(np.log(cm.ISA_P)) * 50.0
        for name, a_, b_ in (("height vs pressure", th, tp), ("height vs table", th, table),
                             ("pressure vs table", tp, table)):
            badm = ~(np.abs(a_ - b_) <= lim)
            if badm.any():
                j = int(np.argmax(badm))
                rec.violation("isa-levels-disagree", dict(case, values=[]),
                              {"what": name, "level": j, "h": cm.ISA_H[j], "p": cm.ISA_P[j],
                               "a": float(a_[j]), "b": float(b_[j]), "index": 0})
                break
    except ContractBreach as exc:
        rec.violation(exc.key, case, exc.detail)
        return
    except Exception as exc:
        rec.violation("isa-exception", case, dict(_exc_detail(exc), index=0))
        return
    rec.nontriv(["isa", case["cls"], coord, case["container"]], case["values"][:16])


CHECKERS = {"ic": check_ic, "iwv": check_iwv, "conv": check_conv, "crh": check_crh,
            "p2h": check_p2h, "isa": check_isa}


# ---------------------------------------------------------------------------------------
# driver
# ---------------------------------------------------------------------------------------
def fixed_cases():
    """Deterministic witnesses driven every run (regression cases of the repaired defects)."""
    n = 4
    p = [100000.0, 80000.0, 60000.0, 40000.0]
    T = [290.0, 280.0, 265.0, 245.0]
    return [
        {"kind": "ic", "gcls": "fixed", "ycls": "fixed", "exact": True, "shape": [5], "axis": 0,
         "dtype": "int64", "xmode": "none", "y": [0.0, 1.0, 2.0, 3.0, 4.0], "x": None,
         "layout": "C", "y2": None, "a": 1.0, "b": 0.0, "split": 2, "default_axis": True},
        {"kind": "crh", "Tcls": "fixed", "shape": [n, 2], "axis": 0, "p": p, "pmode": "1d",
         "T": [t for t in T for _ in range(2)], "frac": [0.5] * (2 * n), "frac2": [0.25] * (2 * n),
         "a": 0.5, "layout": "C"},
        {"kind": "crh", "Tcls": "fixed", "shape": [2, n], "axis": 1,
         "p": p + p, "pmode": "full", "T": T + T, "frac": [0.5] * (2 * n),
         "frac2": [0.25] * (2 * n), "a": 0.5, "layout": "C"},
    ]


FIRST_USE = r"""
import json, random, sys, threading, time
import numpy as np
from typhon.physics import atmosphere as atm
variant = int(sys.argv[1])
FN = atm.__file__
p = np.array([90000., 50000., 20000., 5000., 300.])
z = np.array([0., 5000., 11000., 20000., 40000.])
JOBS = [("pressure2height(p)", lambda: atm.pressure2height(p)),
        ("standard_atmosphere(z)", lambda: atm.standard_atmosphere(z)),
        ("standard_atmosphere(p, 'pressure')", lambda: atm.standard_atmosphere(p, coordinates='pressure')),
        ("standard_atmosphere(z, 'height')", lambda: atm.standard_atmosphere(z, coordinates='height'))]
NT = 32
DELAYS = [0, 0, 0.0005, 0.001, 0.002, 0.004]
slow = threading.local()
traced = [0]
def tracer(frame, event, arg):
    if frame.f_code.co_filename != FN:
        return None
    if event == "line":
        traced[0] += 1
        time.sleep(slow.rng.choice(DELAYS))
    return tracer
out, err = {}, {}
def worker(k):
    slow.rng = random.Random(variant * 1000 + k)
    time.sleep(0.0005 * k)
    name, job = JOBS[(k + variant) % len(JOBS)]
    try:
        out[k] = (name, np.asarray(job(), dtype=float))
    except BaseException as exc:
        err[k] = (name, repr(exc))
threading.settrace(tracer)
sys.setswitchinterval(1e-6)
ths = [threading.Thread(target=worker, args=(k,), daemon=True) for k in range(NT)]
for t in ths: t.start()
for t in ths: t.join(60)
threading.settrace(None)
alive = sum(t.is_alive() for t in ths)
ref = {name: np.asarray(job(), dtype=float) for name, job in JOBS}
bad = [[k, name, got.tolist(), ref[name].tolist()] for k, (name, got) in sorted(out.items())
       if got.shape != ref[name].shape or not np.allclose(got, ref[name], rtol=1e-12, atol=0, equal_nan=True)]
print("FIRSTUSE " + json.dumps({"errors": [[k, n, e] for k, (n, e) in sorted(err.items())], "mismatch": bad,
                                "alive": alive, "lines": traced[0], "threads": NT}))
"""


def first_use_concurrent(rec, variant):
    """Process history x schedule: the first calls of a fresh interpreter come from 32 threads whose
    starts are staggered by 0.5 ms; a line tracer on typhon/physics/atmosphere.py makes every thread wait
    0 - 4 ms (seeded per thread) at every statement (delay injection).  Oracle: no call raises and every answer
    equals the answer of the same call made afterwards, alone."""
    import json, subprocess, sys
    case = {"kind": "first-use", "variant": variant}
    rec.ev()
    try:
        r = subprocess.run([sys.executable, "-c", FIRST_USE, str(variant)], capture_output=True,
                           text=True, timeout=180)
    except subprocess.TimeoutExpired:
        rec.count("concurrent.first_use_child_timeout")
        return
    doc = None
    for line in r.stdout.splitlines():
        if line.startswith("FIRSTUSE "):
            doc = json.loads(line[9:])
    if doc is None or doc["alive"]:
        rec.count("concurrent.first_use_child_undecided")
        rec.note("first-use child gave no verdict: " + r.stderr[-300:])
        return
    rec.count("concurrent.first_use_children")
    rec.count("concurrent.first_use_thread_calls", doc["threads"])
    rec.count("concurrent.first_use_statements_delayed", doc["lines"])
    if doc["errors"]:
        rec.violation("first-use-concurrent", case, {"what": "a call raised", "errors": doc["errors"][:3]})
    elif doc["mismatch"]:
        rec.violation("first-use-concurrent", case, {"what": "answer differs from the same call made alone",
                                                     "first": doc["mismatch"][0]})
    rec.nontriv(["first-use", variant], variant)


def run_shard(spec, rec):
    from vt.models import atmosphere_model as am
    if not am.LD_OK:
        rec.inconc("numpy.longdouble has no 64-bit mantissa on this platform")
        return
    install_contracts(rec)
    kind = spec["kind"]
    if kind in ("p2h", "isa"):
        for variant in range(4):
            first_use_concurrent(rec, variant + (4 if kind == "isa" else 0))
    if spec["shard"] == 0 and kind in ("ic", "crh"):
        for case in fixed_cases():
            if case["kind"] == kind:
                run_case(rec, case)
    big_every = {"ic": 60, "iwv": 120, "p2h": 100}.get(kind)
    for i in range(spec["n"]):
        recipe = [spec["seed"], spec["shard"], i]
        big = bool(big_every) and i % big_every == big_every - 1
        rng = rng_for(spec["seed"], "c14-" + kind, spec["shard"], i)
        if big:
            case = {"kind": kind, "recipe": recipe}
        else:
            case = GENERATORS[kind](rng)
        if i < 1:
            rec.sample({k: (v[:6] if isinstance(v, list) else v) for k, v in case.items()})
        run_case(rec, case)


def replay(case, rec):
    from vt.models import atmosphere_model as am
    if not am.LD_OK:
        rec.inconc("numpy.longdouble has no 64-bit mantissa on this platform")
        return
    install_contracts(rec)
    if case.get("kind") == "first-use":
        first_use_concurrent(rec, case["variant"])
        return
    run_case(rec, case, shrink=False)
