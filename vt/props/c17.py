"""C17 - optimal-estimation matrices satisfy their defining identities
(typhon/retrieval/oem/common.py, error.py).

Runtime monitoring: the real error_covariance_matrix / retrieval_gain_matrix /
averaging_kernel_matrix / smoothing_error / retrieval_noise are executed on generated
(K, S_a, S_y) triples; verdicts come from vt.models.oem_model (explicit Cholesky / triangular
solves in numpy.longdouble, n-form *and* m-form, cross-checked against each other).

Where each clause of the statement is decided (all in check_triple unless noted)
  S = (K^T S_y^-1 K + S_a^-1)^-1 ........... "S-defn": ||S - S_ref||_F (n-form reference) and the
                                            residual ||S M - I||_F with M in longdouble
  S symmetric positive definite ........... "S-sym", "S-posdef" (+ icontract post_S_symmetric)
  S not larger than S_a ................... "S-le-Sa": lambda_min(S_a - sym(S)) >= -tol
  G = S K^T S_y^-1 ........................ "G-nform": ||G - S_typhon K^T S_y^-1|| with typhon's
                                            own S, and ||G - G_n||
  G = S_a K^T (K S_a K^T + S_y)^-1 ........ "G-mform": ||G - G_m|| and residual
                                            ||G B - S_a K^T||
  A = G K ................................. "A-GK": ||A - G_typhon K|| and ||A - G_m K||
  A = I - S S_a^-1 ........................ "A-I-SSa": ||A - (I - S_typhon S_a^-1)||
  eigenvalues of A in [0, 1) .............. "A-eigs" (symmetrised through S_a = L L^T)
  A -> I for vanishing noise (full column
  rank K), A -> 0 for vanishing prior ..... check_limits(): monotone approach over a sequence of
                                            scalings, each member compared with the reference
  smoothing_error = A (x - x_a) ........... "smoothing-map"   (vector and matrix x)
  retrieval_noise = G e_y ................. "noise-map"       (vector and matrix e_y)
  shapes incl. n = m, under/over-determined, K rank-deficient / zero: generator classes.
"""
import traceback
import warnings

import numpy as np

from vt.core import np_rng_for
from vt.models import oem_model as M

ID = "C17"
LEVEL = "exploration"
RULE = ("triples (K, S_a, S_y): n in 1..30, m in 1..40 (35% n = m, else under-/over-determined); "
        "SPD classes diag / rotated log-uniform spectrum / scaled correlation D C D / exponential "
        "correlation; K classes gauss / rank-deficient / zero / weighting functions / symmetric / "
        "columns of very different size; overall units 1e-4..1e4; drawn (re-drawn up to 6 times) "
        "so that kappa_S = kappa(M)(kappa(S_y)^2 + kappa(S_a) + 1) <= 1e6. non-trivial = K != 0; "
        "distinct by (shape class, matrix classes, size bucket | generator parameters)")
ASSUMPTIONS = [
    "oracle: explicit Cholesky + triangular solves in numpy.longdouble; the n-form and the "
    "m-form references must agree to 2^-9 of the float64 tolerance, otherwise the case is "
    "inconclusive (never happened)",
    "tolerance C*d*eps*kappa*scale with C = 32 (9 matrix operations in the longest chain, LU "
    "inverse constant ~3), d = max(n, m), differences in Frobenius norm; kappa_S = kappa(M)*"
    "(kappa(S_y)^2 + kappa(S_a) + 1) bounds the forward error of the n-form inverse: the error of "
    "fl(K^T inv(S_y) K) relative to ||K^T S_y^-1 K|| is <= kappa(S_y)^2 d eps, that of inv(S_a) "
    "kappa(S_a) d eps, and inverting M multiplies by kappa(M); scales: ||S|| = 1/lambda_min(M), "
    "G: ||S|| ||K|| ||S_y^-1||, A: that times ||K||",
    "eigenvalue claims are decided on the symmetric part of L^-1 A L (S_a = L L^T); a "
    "perturbation dA moves them by <= sqrt(kappa(S_a)) ||dA||; the strict bounds (S positive "
    "definite, eigenvalues < 1) are demanded whenever the exact margin exceeds that "
    "perturbation, else the case counts as *.dont_care",
    "limits: scalings t = 10^-j of S_y (resp. S_a) as far as kappa_S(t) <= 1e6; ||I - A_t|| "
    "(resp. ||A_t||), measured as the Frobenius norm of L^-1 (.) L in which A is symmetric, must "
    "not grow by more than the tolerance from one member to the next and "
    "every member must match its reference",
]
MIN_NONTRIVIAL = {"quick": 1200, "thorough": 12000}
REQUIRED_COUNTERS = {"triples": 1500, "triples.square": 300, "limits.noise": 50,
                     "limits.prior": 50, "intdtype.calls": 400, "smoothing.calls": 1500, "noise.calls": 1500,
                     "contract.S.post": 1500, "contract.G.post": 3000, "contract.A.post": 1500}
SHARD_TIMEOUT = {"quick": 600, "thorough": 5400}

C = 32.0
EPS = M.EPS
KAPPA_MAX = 1e6


def shards(tier, seed):
    n = 320 if tier == "quick" else 5000
    return [{"kind": "oem", "seed": seed, "shard": i, "n": n} for i in range(16)]


# --------------------------------------------------------------------------
# contracts
# --------------------------------------------------------------------------
_installed = {}


def install_contracts(rec):
    import icontract
    from typhon.retrieval.oem import common
    if _installed:
        _installed["rec"][0] = rec
        return
    holder = [rec]
    _installed["rec"] = holder

    def post_S_symmetric(K, S_a, S_y, result):
        holder[0].count("contract.S.post")
        if _installed.get("off"):
            return True   # (cases outside the contracts' conditioning budget: judged by their own oracle)
        n = K.shape[1]
        if result.shape != (n, n) or not np.all(np.isfinite(result)):
            return False
        # an LU inverse of a symmetric matrix is symmetric up to d*eps*kappa(M)*||S||;
        # kappa(M) <= 1e6 for every generated triple
        return bool(np.abs(result - result.T).max() <= C * n * EPS * KAPPA_MAX * np.abs(result).max())

    def post_G_shape(K, S_a, S_y, result):
        holder[0].count("contract.G.post")
        if _installed.get("off"):
            return True   # (cases outside the contracts' conditioning budget: judged by their own oracle)
        return result.shape == (K.shape[1], K.shape[0]) and bool(np.all(np.isfinite(result)))

    def post_A_shape_trace(K, S_a, S_y, result):
        holder[0].count("contract.A.post")
        if _installed.get("off"):
            return True   # (cases outside the contracts' conditioning budget: judged by their own oracle)
        n = K.shape[1]
        if result.shape != (n, n) or not np.all(np.isfinite(result)):
            return False
        # trace = degrees of freedom for signal = sum of eigenvalues in [0, 1)
        tr = float(np.trace(result))
        slack = C * n * EPS * KAPPA_MAX * max(1.0, float(np.abs(result).max())) * n
        return -slack <= tr < n + slack

    def err(msg):
        return lambda K, S_a, S_y, result: icontract.ViolationError(
            msg + " (shape %r)" % (np.shape(result),))

    common.error_covariance_matrix = icontract.ensure(
        post_S_symmetric, error=err("error_covariance_matrix: not a finite symmetric (n, n) "
                                    "matrix"))(common.error_covariance_matrix)
    common.retrieval_gain_matrix = icontract.ensure(
        post_G_shape, error=err("retrieval_gain_matrix: not a finite (n, m) matrix"))(
        common.retrieval_gain_matrix)
    common.averaging_kernel_matrix = icontract.ensure(
        post_A_shape_trace, error=err("averaging_kernel_matrix: not (n, n) or trace outside "
                                      "[0, n)"))(common.averaging_kernel_matrix)


# --------------------------------------------------------------------------
# generators (everything is a function of the small JSON dict `g`)
# --------------------------------------------------------------------------
SPD_CLASSES = ["diag", "rot", "dcd", "expcorr"]
K_CLASSES = ["gauss", "gauss", "rankdef", "zero", "wf", "sym", "colscale", "zerorows"]


def gen_spd(rng, cls, n, kappa, unit):
    if n == 1:
        return np.array([[unit * float(rng.uniform(0.5, 2))]])
    spec = np.exp(rng.uniform(0, np.log(kappa), n)) if kappa > 1 else np.ones(n)
    spec[0], spec[-1] = 1.0, kappa
    if cls == "diag":
        a = np.diag(rng.permutation(spec))
    elif cls == "rot":
        q, _ = np.linalg.qr(rng.normal(size=(n, n)))
        a = (q * spec) @ q.T
    elif cls == "dcd":
        # correlation matrix with mild conditioning, scaled by very different standard deviations
        q, _ = np.linalg.qr(rng.normal(size=(n, n)))
        c = (q * np.linspace(1, 2, n)) @ q.T
        d = np.sqrt(np.diag(c))
        c = c / np.outer(d, d)
        sd = np.exp(rng.uniform(0, 0.5 * np.log(max(kappa, 1.0)), n))
        a = c * np.outer(sd, sd)
    else:
        length = float(rng.uniform(0.3, 0.3 + np.log10(max(kappa, 1.0)) + 0.2))
        idx = np.arange(n)
        sd = np.exp(rng.uniform(0, 0.25 * np.log(max(kappa, 1.0)), n))
        a = np.exp(-np.abs(idx[:, None] - idx[None, :]) / length) * np.outer(sd, sd)
    a = (a + a.T) / 2 * unit
    return a


def gen_K(rng, cls, m, n, unit):
    if cls == "zero":
        return np.zeros((m, n))
    if cls == "gauss":
        k = rng.normal(size=(m, n))
    elif cls == "rankdef":
        r = max(1, min(m, n) // 2) if min(m, n) > 1 else 1
        k = rng.normal(size=(m, r)) @ rng.normal(size=(r, n))
        if min(m, n) > 1 and rng.random() < 0.5:
            k[:, -1] = k[:, 0]          # duplicated column as well
    elif cls == "wf":
        z = np.linspace(0, 1, n)
        c = rng.uniform(0, 1, m)
        w = rng.uniform(0.05, 0.5, m)
        k = np.exp(-0.5 * ((z[None, :] - c[:, None]) / w[:, None]) ** 2)
    elif cls == "zerorows":
        # channels without any sensitivity to the state (exactly zero rows), K itself not zero;
        # with a correlated S_y such a channel still carries information through its noise
        k = rng.normal(size=(m, n))
        if m >= 2:
            rows = rng.choice(m, size=int(rng.integers(1, max(2, m // 2 + 1))), replace=False)
            k[rows, :] = 0.0
    elif cls == "sym":
        k = rng.normal(size=(m, n))
        if m == n:
            k = k + k.T                 # K == K^T: a K-for-K^T slip is invisible here
    else:
        k = rng.normal(size=(m, n)) * np.exp(rng.uniform(-2, 2, n))[None, :]
    return k * unit


def build(g):
    """Matrices of a case from its parameters."""
    rng = np.random.default_rng(g["s"])
    n, m = g["n"], g["m"]
    S_a = gen_spd(rng, g["sa"], n, g["ka"], g["ua"])
    S_y = gen_spd(rng, g["sy"], m, g["ky"], g["uy"])
    K = gen_K(rng, g["k"], m, n, 1.0)
    nk = M.norm2(K)
    if nk > 0:
        # snr = ||K||^2 ||S_a|| / ||S_y||: size of the information term against the prior term
        target = np.sqrt(g["snr"] * M.norm2(S_y) / M.norm2(S_a))
        K = K * (target / nk)
    x = rng.normal(size=(n,) if g.get("xdim", 1) == 1 else (n, g["xdim"])) * g["ua"] ** 0.5
    x_a = x + rng.normal(size=x.shape) * g["ua"] ** 0.5 * g.get("xoff", 1.0)
    e_y = rng.normal(size=(m,) if g.get("edim", 1) == 1 else (m, g["edim"])) * g["uy"] ** 0.5
    return K, S_a, S_y, x, x_a, e_y


def gen_params(seed, shard, i):
    rng = np_rng_for(seed, "c17", shard, i)
    n = int(rng.integers(1, 31))
    r = rng.random()
    if r < 0.35:
        m = n
    elif r < 0.65:
        m = int(rng.integers(1, max(2, n)))          # under-determined (m < n)
    else:
        m = int(rng.integers(n, 41))                 # over-determined
    m = max(1, min(40, m))
    g = {"n": n, "m": m,
         "sa": SPD_CLASSES[int(rng.integers(0, 4))], "sy": SPD_CLASSES[int(rng.integers(0, 4))],
         "k": K_CLASSES[int(rng.integers(0, len(K_CLASSES)))],
         "ka": float(10 ** rng.uniform(0, 2)), "ky": float(10 ** rng.uniform(0, 1.5)),
         "ua": float(10 ** rng.uniform(-4, 4)), "uy": float(10 ** rng.uniform(-4, 4)),
         "snr": float(10 ** rng.uniform(-3, 3)),
         "xdim": int(rng.choice([1, 1, 3])), "edim": int(rng.choice([1, 1, 4])),
         "xoff": float(rng.choice([1.0, 1e-6, 0.0])),
         "s": int(rng.integers(0, 2 ** 31))}
    if rng.random() < 0.2:
        # very small / very large overall units (radiances in W, volume mixing ratios squared ...):
        # determinants of such matrices under- or overflow, the problem itself is as well conditioned
        g["ua"] = float(10 ** rng.uniform(-12, 12))
        g["uy"] = float(10 ** rng.uniform(-12, 12))
        g["wide_units"] = True
    return g


# --------------------------------------------------------------------------
# the monitor
# --------------------------------------------------------------------------
_KW = {"n": 0}


def call(rec, case, name, fn, *args):
    rec.ev()
    before = [a.copy() if isinstance(a, np.ndarray) else None for a in args]
    try:
        out = fn(*args)
        for k, (a, b) in enumerate(zip(args, before)):
            if b is not None and not np.array_equal(a, b, equal_nan=True):
                rec.violation("input-mutated", case, {"function": name, "argument": k})
                return False, None
        _KW["n"] += 1
        if _KW["n"] % 8 == 0 and " " not in name:
            # calling convention: the same call with every argument given by its documented name, in the
            # opposite order
            import inspect
            try:
                names = list(inspect.signature(fn).parameters)[:len(args)]
            except (TypeError, ValueError):
                names = []
            if len(names) == len(args):
                rec.count("keywords.calls")
                out2 = fn(**dict(reversed(list(zip(names, args)))))
                a1, a2 = np.asarray(out, dtype=float), np.asarray(out2, dtype=float)
                if a1.shape != a2.shape or not np.allclose(a1, a2, rtol=1e-9, atol=1e-300, equal_nan=True):
                    rec.violation("keyword-call-differs", case, {"function": name, "keywords": names[::-1]})
                    return False, None
        return True, out
    except Exception as exc:
        key = "oem-contract-" + name if "ViolationError" in type(exc).__name__ \
            else "oem-exception-" + name
        rec.violation(key, case, {"function": name, "exception": repr(exc)[:400],
                                  "trace": traceback.format_exc()[-600:]})
        return False, None


def evaluate(g, rec, collect):
    """Run the five functions on the triple of `g`; `collect(key, detail)` receives every
    disagreement.  Returns the reference (or None when the triple is outside the kappa budget)."""
    from typhon.retrieval.oem import common, error
    K, S_a, S_y, x, x_a, e_y = build(g)
    ref = M.Reference(K, S_a, S_y)
    if not ref.kappa_S <= KAPPA_MAX:
        return None
    n, m = ref.n, ref.m
    d = max(n, m)
    tol_rel = C * d * EPS * ref.kappa_S
    gap = ref.oracle_gap()
    if gap > tol_rel / 512:
        rec.inconc("longdouble n-form and m-form disagree by %.3g (tolerance %.3g)" % (gap, tol_rel))
        return ref
    case = {"g": g}
    ok1, S = call(rec, case, "error_covariance_matrix", common.error_covariance_matrix, K, S_a, S_y)
    ok2, G = call(rec, case, "retrieval_gain_matrix", common.retrieval_gain_matrix, K, S_a, S_y)
    ok3, A = call(rec, case, "averaging_kernel_matrix", common.averaging_kernel_matrix, K, S_a, S_y)
    # call history: the caller post-processes a returned matrix in place and asks again with
    # equal-valued inputs - the answer must not depend on what happened to the earlier result
    for name, fn, ok, res in (("error_covariance_matrix", common.error_covariance_matrix, ok1, S),
                              ("retrieval_gain_matrix", common.retrieval_gain_matrix, ok2, G)):
        if ok and isinstance(res, np.ndarray) and res.flags.writeable and g["s"] % 3 == 0:
            first = res.copy()
            res *= 3.0
            res[0, 0] = 12345.0
            ok_b, again = call(rec, case, name + " (2nd call)", fn, K.copy(), S_a.copy(), S_y.copy())
            rec.count("history.second_calls")
            if ok_b and not np.array_equal(np.asarray(again), first):
                collect("result-aliased", {"function": name,
                                           "why": "a second call returns the array the caller modified",
                                           "second_call_00": float(np.asarray(again)[0, 0]),
                                           "first_call_00": float(first[0, 0])})
            res[...] = first
    # call history: the caller updates its own K / S_a / S_y arrays in place between two calls that pass
    # the same objects - the second answer must be the one a fresh copy of the updated arrays gets
    if g["s"] % 3 == 1:
        Kb, Sab, Syb = K.copy(), S_a.copy(), S_y.copy()
        for name, fn, extra in (
                ("error_covariance_matrix", common.error_covariance_matrix, ()),
                ("retrieval_gain_matrix", common.retrieval_gain_matrix, ()),
                ("averaging_kernel_matrix", common.averaging_kernel_matrix, ()),
                ("retrieval_noise", error.retrieval_noise, (e_y,))):
            Kb[...], Sab[...], Syb[...] = K, S_a, S_y
            ok_a, _ = call(rec, case, name + " (before in-place update)", fn, Kb, Sab, Syb, *extra)
            which = g["s"] % 4
            if which in (0, 3):
                Syb *= 4.0
            if which in (1, 3):
                Kb *= 0.5
            if which == 2:
                Sab *= 0.25
            ok_b, again = call(rec, case, name + " (same objects, updated in place)", fn, Kb, Sab, Syb,
                               *extra)
            ok_c, fresh = call(rec, case, name + " (fresh copies)", fn, Kb.copy(), Sab.copy(),
                               Syb.copy(), *extra)
            rec.count("history.inplace_input_calls")
            # (not bit for bit: BLAS may pick other kernels for other buffers; a stale intermediate is
            # off by O(1), the in-place updates scale the inputs by 4, 1/2 or 1/4)
            fr = np.asarray(fresh, dtype=float)
            if ok_a and ok_b and ok_c and not (
                    np.shape(again) == fr.shape
                    and np.allclose(np.asarray(again, dtype=float), fr, rtol=1e-9,
                                    atol=1e-9 * float(np.max(np.abs(fr))) if fr.size else 0.0)):
                collect("stale-state", {"function": name,
                                        "why": "same argument objects updated in place: answer differs "
                                               "from the one for fresh copies of the same values",
                                        "updated": ["S_y", "K", "S_a", "S_y and K"][which],
                                        "max_abs_diff": float(np.max(np.abs(np.asarray(again, dtype=float)
                                                                            - np.asarray(fresh, dtype=float))))})
    nS, nSa = ref.nS, ref.la_max
    I = np.eye(n, dtype=M.LD)
    if ok1:
        S = np.asarray(S)
        if S.shape != (n, n):
            collect("S-defn", {"shape": list(S.shape), "want": [n, n]})
        else:
            Sl = M.ld(S)
            tS = tol_rel * nS
            e = M.fro(Sl - ref.S_n)
            if not e <= tS:
                collect("S-defn", {"err_F": e, "tol": tS, "scale": nS})
            r = M.fro(Sl @ ref.M - I)
            if not r <= tol_rel * ref.kappa_M:
                collect("S-defn", {"residual_SM_minus_I": r, "tol": tol_rel * ref.kappa_M})
            a = M.fro(Sl - Sl.T)
            if not a <= tS:
                collect("S-sym", {"asym_F": a, "tol": tS})
            sym = ((Sl + Sl.T) / 2).astype(float)
            w = np.linalg.eigvalsh(sym)
            lmin_ref = 1.0 / ref.lM_max
            pert = tS + d * EPS * M.norm2(sym)
            if not w[0] >= lmin_ref - pert:
                collect("S-posdef", {"lambda_min": float(w[0]), "ref": lmin_ref, "tol": pert})
            elif lmin_ref > pert:
                if not w[0] > 0:
                    collect("S-posdef", {"lambda_min": float(w[0])})
            else:
                rec.count("S-posdef.dont_care")
            diff = (S_a.astype(M.LD) - (Sl + Sl.T) / 2).astype(float)
            wd = np.linalg.eigvalsh((diff + diff.T) / 2)
            tolsa = tS + d * EPS * nSa
            if not wd[0] >= -tolsa:
                collect("S-le-Sa", {"lambda_min_Sa_minus_S": float(wd[0]), "tol": tolsa})
    if ok2:
        G = np.asarray(G)
        if G.shape != (n, m):
            collect("G-mform", {"shape": list(G.shape), "want": [n, m]})
        else:
            Gl = M.ld(G)
            tG = tol_rel * max(ref.scale_G, 0.0)
            e = M.fro(Gl - ref.G_m)
            if not e <= tG:
                collect("G-mform", {"err_F": e, "tol": tG, "scale": ref.scale_G})
            rB = M.fro(Gl @ ref.B - ref.S_a @ ref.K.T)
            tB = tG * M.norm2(ref.B.astype(float))
            if not rB <= tB:
                collect("G-mform", {"residual_GB_minus_SaKt": rB, "tol": tB})
            e = M.fro(Gl - ref.G_n)
            if not e <= tG:
                collect("G-nform", {"err_F": e, "tol": tG})
            if ok1 and np.shape(S) == (n, n):
                # with typhon's own S (tolerance: S carries tol_rel, the products 2 d eps)
                e = M.fro(Gl - M.ld(S) @ ref.K.T @ ref.Sy_inv)
                if not e <= 2 * tG:
                    collect("G-nform", {"err_F_vs_own_S": e, "tol": 2 * tG})
    if ok3:
        A = np.asarray(A)
        if A.shape != (n, n):
            collect("A-GK", {"shape": list(A.shape), "want": [n, n]})
        else:
            Al = M.ld(A)
            tA = tol_rel * max(ref.scale_A, 0.0)
            e = M.fro(Al - ref.A_gk)
            if not e <= tA:
                collect("A-GK", {"err_F": e, "tol": tA, "scale": ref.scale_A})
            if ok2 and np.shape(G) == (n, m):
                e = M.fro(Al - M.ld(G) @ ref.K)
                if not e <= 2 * tA:
                    collect("A-GK", {"err_F_vs_own_G": e, "tol": 2 * tA})
            # I - S S_a^-1 loses kappa(S_a) on top (||S|| ||S_a^-1|| can exceed 1)
            tI = tol_rel * max(1.0, nS * ref.nSa_inv) + tA
            e = M.fro(Al - ref.A_is)
            if not e <= tI:
                collect("A-I-SSa", {"err_F": e, "tol": tI})
            if ok1 and np.shape(S) == (n, n):
                e = M.fro(Al - (I - M.ld(S) @ ref.Sa_inv))
                if not e <= 2 * tI:
                    collect("A-I-SSa", {"err_F_vs_own_S": e, "tol": 2 * tI})
            # eigenvalues in [0, 1)
            w, skew, nsym = M.sym_eigs_of_A(Al, ref.S_a)
            wref, _, _ = ref.info_eigs()
            pert = np.sqrt(ref.kappa_a) * tA + d * EPS * max(nsym, 1.0)
            if not skew <= pert:
                collect("A-eigs", {"skew_part": skew, "tol": pert})
            if not w[0] >= -pert:
                collect("A-eigs", {"lambda_min": float(w[0]), "tol": pert})
            margin = 1.0 - float(wref[-1])
            if not w[-1] <= float(wref[-1]) + pert:
                collect("A-eigs", {"lambda_max": float(w[-1]), "ref": float(wref[-1]),
                                   "tol": pert})
            elif margin > pert:
                if not w[-1] < 1.0:
                    collect("A-eigs", {"lambda_max": float(w[-1])})
            else:
                rec.count("A-eigs.dont_care")
            rec.maxi("A.lambda_max", float(w[-1]))
    # -- error terms ----------------------------------------------------------
    Ause = np.asarray(A) if ok3 and np.shape(A) == (n, n) else ref.A_gk.astype(float)
    rec.count("smoothing.calls")
    ok4, se = call(rec, case, "smoothing_error", error.smoothing_error, x, x_a, Ause)
    if ok4:
        dx = M.ld(x) - M.ld(x_a)
        want = M.ld(Ause) @ dx
        bound = (n + 3) * EPS * (np.abs(M.ld(Ause)) @ np.abs(dx)).astype(float)
        se = np.asarray(se)
        if se.shape != want.shape:
            collect("smoothing-map", {"shape": list(se.shape), "want": list(want.shape)})
        elif not np.all(np.abs(se.astype(M.LD) - want).astype(float) <= bound):
            collect("smoothing-map", {"max_err": float(np.abs(se.astype(M.LD) - want).max()),
                                      "max_bound": float(bound.max())})
    rec.count("noise.calls")
    ok5, rn = call(rec, case, "retrieval_noise", error.retrieval_noise, K, S_a, S_y, e_y)
    if ok5:
        want = ref.G_m @ M.ld(e_y)
        rn = np.asarray(rn)
        ne = M.norm2(e_y) if e_y.ndim == 2 else float(np.linalg.norm(e_y))
        tN = (tol_rel * ref.scale_G + (m + 3) * EPS * ref.scale_G) * ne * (
            1 if e_y.ndim == 1 else np.sqrt(e_y.shape[1]))
        if rn.shape != want.shape:
            collect("noise-map", {"shape": list(rn.shape), "want": list(want.shape)})
        elif not M.fro(rn.astype(M.LD) - want) <= tN:
            collect("noise-map", {"err_F": M.fro(rn.astype(M.LD) - want), "tol": tN})
    # call history: results the caller still holds must not change when the functions are called again
    # with other profiles / noise vectors of the same shape
    if g["s"] % 3 == 2:
        held = []
        if ok4 and isinstance(se, np.ndarray):
            held.append(("smoothing_error", se, se.copy(), (x, x_a, Ause)))
        if ok5 and isinstance(rn, np.ndarray):
            held.append(("retrieval_noise", rn, rn.copy(), (K, S_a, S_y, e_y)))
        ok_a, se2 = call(rec, case, "smoothing_error (other profile)", error.smoothing_error,
                         x[::-1].copy() * 1.5 + 1.0, x_a, Ause)
        ok_b, rn2 = call(rec, case, "retrieval_noise (other noise)", error.retrieval_noise, K, S_a, S_y,
                         e_y[::-1].copy() * 0.5 - 1.0)
        rec.count("history.held_results", len(held))
        for name, obj, snap, args in held:
            if not np.array_equal(obj, snap, equal_nan=True) and \
                    not any(isinstance(a, np.ndarray) and np.shares_memory(obj, a) for a in args):
                collect("result-aliased", {"function": name,
                                           "why": "a result the caller holds changed when the function was "
                                                  "called again with other arguments"})
    return ref


def shape_class(n, m):
    return "square" if n == m else ("under" if m < n else "over")


def check_triple(rec, g, shrink=True):
    found = []
    ref = evaluate(g, rec, lambda key, detail: found.append((key, detail)))
    if ref is None:
        rec.count("triples.over_budget")
        return False
    rec.count("triples")
    n, m = g["n"], g["m"]
    rec.count("triples." + shape_class(n, m))
    rec.count("K." + g["k"])
    rec.maxi("kappa_S", ref.kappa_S)
    rec.maxi("tolerance_rel", C * max(n, m) * EPS * ref.kappa_S)
    seen = set()
    for key, detail in found:
        if key in seen:
            continue
        seen.add(key)
        gs = shrink_case(g, key) if shrink else g
        rec.violation(key, {"sub": "triple", "g": gs},
                      dict(detail, n=gs["n"], m=gs["m"], kappa_S=ref.kappa_S,
                           also=sorted({k for k, _ in found})))
    if ref.nK > 0:
        rec.nontriv([shape_class(n, m), g["sa"], g["sy"], g["k"], min(n, 8), min(m, 8)],
                    [g[k] for k in ("n", "m", "ka", "ky", "ua", "uy", "snr", "s")])
    return True


def shrink_case(g, key):
    """Same generator parameters, smaller shapes, while the same mechanism fails."""
    from vt.core import Recorder
    n, m = g["n"], g["m"]
    rel = shape_class(n, m)
    if rel == "square":
        cands = [(a, a) for a in (1, 2, 3, 4, 6) if a < n]
    elif rel == "under":
        cands = [(a, b) for a, b in ((2, 1), (3, 1), (3, 2), (4, 2), (6, 3)) if a <= n and b <= m
                 and (a, b) != (n, m)]
    else:
        cands = [(a, b) for a, b in ((1, 2), (1, 3), (2, 3), (2, 4), (3, 6)) if a <= n and b <= m
                 and (a, b) != (n, m)]
    for a, b in cands:
        g2 = dict(g, n=a, m=b)
        found = []
        probe = Recorder("C17", {})
        try:
            ref = evaluate(g2, probe, lambda k, d_: found.append(k))
        except Exception:
            continue
        if ref is not None and (key in found or any(v["key"] == key for v in probe.violations)):
            return g2
    return g


# --------------------------------------------------------------------------
# limits
# --------------------------------------------------------------------------
def check_limits(rec, g):
    """g: well-conditioned triple with m >= n and K of full column rank."""
    from typhon.retrieval.oem import common
    K, S_a, S_y, _, _, _ = build(g)
    n = g["n"]
    d = max(g["n"], g["m"])
    I = np.eye(n)
    for which in ("noise", "prior"):
        prev, steps, last, first = None, 0, None, None
        for j in range(0, 14):
            t = 10.0 ** (-j)
            Sa_t, Sy_t = (S_a, S_y * t) if which == "noise" else (S_a * t, S_y)
            ref = M.Reference(K, Sa_t, Sy_t)
            if not ref.kappa_S <= KAPPA_MAX:
                break
            case = {"sub": "limit", "g": g, "which": which}
            ok, A = call(rec, case, "averaging_kernel_matrix", common.averaging_kernel_matrix,
                         K, Sa_t, Sy_t)
            if not ok:
                break
            # distances are taken in the metric in which A is symmetric (L^-1 . L with
            # S_a = L L^T): there ||I - A|| = ||(1/(1 + mu_i/t))_i|| is monotone in t, which the
            # plain Frobenius norm of the non-normal matrix I - A is not; kappa(L) = sqrt(kappa_a)
            tA = C * d * EPS * ref.kappa_S * max(ref.scale_A, 1.0) * np.sqrt(ref.kappa_a)
            target = I if which == "noise" else np.zeros((n, n))
            L = M.chol(Sa_t)
            dist = M.fro(M.solve_lower(L, (M.ld(A) - M.ld(target)) @ L))
            dref = M.fro(M.solve_lower(L, (ref.A_gk - M.ld(target)) @ L))
            if not abs(dist - dref) <= tA:
                rec.violation("A-limit-" + which, case,
                              {"t": t, "dist": dist, "dist_ref": dref, "tol": tA})
                break
            if prev is not None and not dist <= prev + tA:
                rec.violation("A-limit-" + which, case,
                              {"t": t, "dist": dist, "previous": prev, "tol": tA,
                               "why": "not approached monotonically"})
                break
            if prev is None:
                first = dist
            prev, last = dist, dist
            steps += 1
        if steps >= 3:
            rec.count("limits." + which)
            rec.maxi("limit.%s.steps" % which, steps)
            rec.maxi("limit.%s.final_distance_max" % which, last)
            rec.maxi("limit.%s.final_over_first_max" % which, last / first if first else 0.0)
            rec.nontriv(["limit", which, min(g["n"], 8), g["k"]], [g["s"], g["n"], g["m"], steps])


def limit_params(seed, shard, i):
    rng = np_rng_for(seed, "c17-limit", shard, i)
    n = int(rng.integers(1, 13))
    m = int(rng.integers(n, min(40, n + 12) + 1))
    return {"n": n, "m": m, "sa": SPD_CLASSES[int(rng.integers(0, 4))],
            "sy": SPD_CLASSES[int(rng.integers(0, 4))], "k": str(rng.choice(["gauss", "wf", "colscale"])),
            "ka": float(rng.uniform(1, 3)), "ky": float(rng.uniform(1, 2)),
            "ua": float(10 ** rng.uniform(-2, 2)), "uy": float(10 ** rng.uniform(-2, 2)),
            "snr": float(10 ** rng.uniform(-1, 1)), "s": int(rng.integers(0, 2 ** 31))}


FIXED = [
    {"n": 2, "m": 2, "sa": "rot", "sy": "rot", "k": "gauss", "ka": 4.0, "ky": 3.0, "ua": 1.0,
     "uy": 1.0, "snr": 1.0, "xdim": 1, "edim": 1, "xoff": 1.0, "s": 7},
    {"n": 3, "m": 1, "sa": "diag", "sy": "diag", "k": "gauss", "ka": 10.0, "ky": 1.0, "ua": 100.0,
     "uy": 0.01, "snr": 10.0, "xdim": 3, "edim": 1, "xoff": 1.0, "s": 8},
    {"n": 1, "m": 1, "sa": "diag", "sy": "diag", "k": "zero", "ka": 1.0, "ky": 1.0, "ua": 1.0,
     "uy": 1.0, "snr": 1.0, "xdim": 1, "edim": 1, "xoff": 1.0, "s": 9},
]


def float32_first(rec):
    """Process history: the very first retrieval of the process works on float32 arrays (nothing is judged
    here; the float64 cases that follow are)."""
    from typhon.retrieval.oem import common, error
    rng = np.random.default_rng(1)
    K = rng.normal(size=(4, 3)).astype(np.float32)
    S_a = np.eye(3, dtype=np.float32) * np.float32(2.0)
    S_y = np.eye(4, dtype=np.float32) * np.float32(0.5)
    _installed["off"] = True
    try:
        for fn, extra in ((common.error_covariance_matrix, ()), (common.retrieval_gain_matrix, ()),
                          (common.averaging_kernel_matrix, ()),
                          (error.retrieval_noise, (np.ones(4, dtype=np.float32),))):
            try:
                fn(K, S_a, S_y, *extra)
            except Exception:
                pass
    finally:
        _installed["off"] = False
    rec.count("history.float32_first_call")


def check_intdtype(rec, seed):
    """Input form: covariances (and/or the Jacobian) given as integer arrays - np.diag([4, 1, 9]), an
    integer SPD matrix B^T B + I, a 0/1 Jacobian - next to fractional partners. Oracle: the answers equal
    the answers for the same values given as float64 (rtol 1e-9)."""
    from typhon.retrieval.oem import common, error
    rng = np.random.default_rng(seed)
    n, m = int(rng.integers(1, 7)), int(rng.integers(1, 8))
    which = int(rng.integers(0, 4))
    case = {"kind": "intdtype", "seed": seed}
    S_a = np.diag(rng.integers(1, 10, n)).astype(np.int64)
    if which == 3 and n > 1:
        B = rng.integers(-2, 3, (n, n))
        S_a = (B.T @ B + np.eye(n, dtype=np.int64)).astype(np.int64)
    S_y = np.diag(rng.integers(1, 5, m)).astype(np.int64 if which in (1, 3) else float)
    K = rng.normal(size=(m, n)) * rng.choice([0.3, 1.0, 3.0])
    if which == 2:
        K = rng.integers(0, 2, (m, n)).astype(np.int64)
        S_a = S_a.astype(float) * 0.37
        S_y = np.diag(rng.integers(1, 5, m)).astype(np.int32)
    e_y = rng.normal(size=m)
    fl = lambda a: np.asarray(a, dtype=float)
    _installed["off"] = True
    try:
        for name, fn, extra in (("error_covariance_matrix", common.error_covariance_matrix, ()),
                                ("retrieval_gain_matrix", common.retrieval_gain_matrix, ()),
                                ("averaging_kernel_matrix", common.averaging_kernel_matrix, ()),
                                ("retrieval_noise", error.retrieval_noise, (e_y,))):
            rec.count("intdtype.calls")
            ok_a, got = call(rec, case, name + " (integer arrays)", fn, K, S_a, S_y, *extra)
            ok_b, want = call(rec, case, name + " (same values as float64)", fn, fl(K), fl(S_a), fl(S_y),
                              *extra)
            if not (ok_a and ok_b):
                continue
            got, want = fl(got), fl(want)
            if got.shape != want.shape or not np.allclose(got, want, rtol=1e-9,
                                                          atol=1e-12 * float(np.max(np.abs(want)) or 1.0)):
                rec.violation("oem-dtype-dependent", case,
                              {"function": name, "dtypes": [str(K.dtype), str(S_a.dtype), str(S_y.dtype)],
                               "max_abs_diff": float(np.max(np.abs(got - want))) if got.shape == want.shape
                               else None, "scale": float(np.max(np.abs(want)))})
    finally:
        _installed["off"] = False
    rec.nontriv(["intdtype", n, m, which], seed)


def invalid_first(rec):
    """Process history: the first retrievals of the process are given matrices outside the domain (an
    indefinite / singular / NaN covariance, sizes that do not fit). Whatever they answer or raise is not
    judged; the valid cases that follow are."""
    from typhon.retrieval.oem import common, error
    rng = np.random.default_rng(2)
    K = rng.normal(size=(4, 3))
    bad = [(K, np.diag([1.0, -1.0, 2.0]), np.eye(4)), (K, np.diag([1.0, -1e-3, 2.0]), np.eye(4)),
           (K, -1e-3 * np.eye(3), np.eye(4)), (K, np.zeros((3, 3)), np.eye(4)),
           (K, np.eye(3), np.diag([1.0, 1.0, -1e-3, 1.0])), (K, np.eye(3), np.zeros((4, 4))),
           (K, np.eye(3), -np.eye(4)), (K, np.full((3, 3), np.nan), np.eye(4)),
           (K, np.eye(2), np.eye(4)), (K, np.array([[1.0, 2.0, 0], [2.0, 1.0, 0], [0, 0, 1.0]]), np.eye(4))]
    _installed["off"] = True
    try:
        with warnings.catch_warnings():
            warnings.simplefilter("ignore")
            for K_, S_a, S_y in bad:
                for fn, extra in ((common.error_covariance_matrix, ()), (common.retrieval_gain_matrix, ()),
                                  (common.averaging_kernel_matrix, ()), (error.retrieval_noise, (np.ones(4),))):
                    try:
                        with np.errstate(all="ignore"):
                            fn(K_, S_a, S_y, *extra)
                    except Exception:
                        pass
    finally:
        _installed["off"] = False
    rec.count("history.invalid_inputs_first")


def run_shard(spec, rec):
    install_contracts(rec)
    if spec["shard"] % 2 == 1:
        float32_first(rec)
    if spec["shard"] % 4 >= 2:
        invalid_first(rec)
    if spec["shard"] == 0:
        for g in FIXED:
            check_triple(rec, g)
    done, i = 0, 0
    while done < spec["n"] and i < 3 * spec["n"]:
        g = gen_params(spec["seed"], spec["shard"], i)
        i += 1
        okb = False
        for attempt in range(6):
            if check_triple(rec, g):
                okb = True
                break
            # outside the kappa budget: same triple with milder spectra / weaker signal
            g = dict(g, ka=g["ka"] ** 0.6, ky=g["ky"] ** 0.6, snr=g["snr"] ** 0.6)
        if okb:
            done += 1
            if done <= 1:
                rec.sample({"g": g})
        if i % 6 == 0:
            check_limits(rec, limit_params(spec["seed"], spec["shard"], i))
        if i % 6 == 3:
            check_highsnr(rec, highsnr_params(spec["seed"], spec["shard"], i))
        if i % 10 == 4:
            check_intdtype(rec, spec["seed"] * 100003 + spec["shard"] * 1009 + i)
        if i % 40 == 7:
            check_lookalike(rec, spec["seed"] * 100003 + spec["shard"] * 1009 + i)


def check_highsnr(rec, g):
    """Scalar covariances S_a = ua I, S_y = uy I (perfectly conditioned), a rank-deficient / under-
    determined Jacobian and a signal-to-noise ratio of 1e8..1e12: S = V diag(1 / (l_i / uy + 1 / ua)) V^T
    with (l_i, V) the eigen-decomposition of K^T K. The null space of K keeps the prior variance ua -
    the largest eigenvalue of S. Any backward-stable inversion gets S to a small multiple of kappa * eps
    <= 4e-5 of its norm (observed on the unchanged tree: <= 1e-4); demanded: 2e-2 (norm-wise), also for
    A = I - S / ua. The contracts' own conditioning budget does not apply here (switched off)."""
    from typhon.retrieval.oem import common
    rng = np.random.default_rng(g["s"])
    n, m = g["n"], g["m"]
    K = rng.normal(size=(m, n))
    if g["k"] == "rankdef" and min(m, n) > 1:
        r = max(1, min(m, n) // 2)
        K = rng.normal(size=(m, r)) @ rng.normal(size=(r, n))
    ua, uy = g["ua"], g["uy"]
    nk = np.linalg.norm(K, 2)
    K = K * (np.sqrt(g["snr"] * uy / ua) / nk)
    S_a, S_y = np.eye(n) * ua, np.eye(m) * uy
    lam, V = np.linalg.eigh(K.T @ K)
    lam = np.clip(lam, 0, None)
    S_ref = (V / (lam / uy + 1 / ua)) @ V.T
    A_ref = np.eye(n) - S_ref / ua
    case = {"sub": "highsnr", "g": g}
    rec.ev()
    rec.count("highsnr.cases")
    _installed["off"] = True
    try:
        ok1, S = call(rec, case, "error_covariance_matrix", common.error_covariance_matrix, K, S_a, S_y)
        ok2, A = call(rec, case, "averaging_kernel_matrix", common.averaging_kernel_matrix, K, S_a, S_y)
    finally:
        _installed["off"] = False
    null_dim = int(np.sum(lam / uy < 1e-3 / ua))
    for name, ok, got, ref in (("S-defn", ok1, S, S_ref), ("A-defn", ok2, A, A_ref)):
        if not ok:
            continue
        got = np.asarray(got, dtype=float)
        scale = max(np.linalg.norm(ref, 2), ua if name == "S-defn" else 1.0)
        err = np.linalg.norm(got - ref, 2) if got.shape == ref.shape else np.inf
        rec.maxi("highsnr.rel_err", float(err / scale) if np.isfinite(err) else 1e9)
        if not err <= 2e-2 * scale:
            rec.violation(name, case, {"why": "scalar covariances, signal-to-noise ratio %.0e" % g["snr"],
                                       "err_2norm": float(err), "scale": float(scale),
                                       "null_space_dimension_of_K": null_dim, "n": n, "m": m})
            return
    if null_dim:
        rec.count("highsnr.with_null_space")
        rec.nontriv(["highsnr", g["k"], n > m, int(np.log10(g["snr"]))], g["s"])


def check_lookalike(rec, seed):
    """Two retrievals in sequence whose large covariance matrices agree in their first and last channels
    and differ in between (m >= 32: the printed form of such arrays is abbreviated), then the same four
    problems of one shape asked from four threads at once."""
    from typhon.retrieval.oem import common, error
    from vt.monitors import concurrency
    rng = np.random.default_rng(seed)
    m, n = int(rng.integers(32, 41)), int(rng.integers(2, 9))
    K = rng.normal(size=(m, n))
    S_a = np.eye(n) * float(10 ** rng.uniform(-1, 1))
    base = 10 ** rng.uniform(-1, 0.5, m)
    variants = []
    for k in range(4):
        d = base.copy()
        d[3:-3] *= (1.0, 4.0, 0.25, 9.0)[k]
        Sy = np.diag(d)
        if k % 2:                      # correlated in the interior only
            Sy[10, 11] = Sy[11, 10] = 0.3 * np.sqrt(d[10] * d[11])
        variants.append(Sy)
    case = {"sub": "lookalike", "seed": int(seed)}
    rec.ev()
    rec.count("lookalike.cases")
    _installed["off"] = True
    try:
        for k, Sy in enumerate(variants):
            ref = M.Reference(K, S_a, Sy)
            tol = C * max(n, m) * EPS * ref.kappa_S
            for name, fn, want, scale in (
                    ("error_covariance_matrix", common.error_covariance_matrix, ref.S_n, ref.nS),
                    ("retrieval_gain_matrix", common.retrieval_gain_matrix, ref.G_m, ref.scale_G),
                    ("averaging_kernel_matrix", common.averaging_kernel_matrix, ref.A_gk, ref.scale_A)):
                ok, got = call(rec, case, name, fn, K, S_a, Sy)
                if ok and not (np.shape(got) == want.shape and M.fro(M.ld(got) - want) <= tol * scale):
                    rec.violation("S-defn" if name.startswith("error") else "G-mform" if "gain" in name
                                  else "A-defn", dict(case, variant=k),
                                  {"why": "covariances that agree in their first and last three channels, "
                                          "evaluated one after the other", "function": name,
                                   "err_F": float(M.fro(M.ld(got) - want)), "tol": float(tol * scale)})
                    return
        e_y = rng.normal(size=m)
        calls = [(error.retrieval_noise, (K, S_a, Sy, e_y), {}) for Sy in variants] + \
                [(common.averaging_kernel_matrix, (K, S_a, Sy), {}) for Sy in variants]
        verdict, detail = concurrency.concurrent_check(calls, threads=4, rounds=2)
        rec.count("lookalike.concurrent_" + verdict.replace("/", ""))
        if verdict == "race":
            rec.violation("stale-state", dict(case, concurrent=True),
                          dict(detail, why="same-shape problems asked from 4 threads at once"))
    finally:
        _installed["off"] = False
    rec.nontriv(["lookalike", m, n], int(seed))


def highsnr_params(seed, shard, i):
    rng = np_rng_for(seed, "c17-highsnr", shard, i)
    n = int(rng.integers(2, 31))
    m = int(rng.integers(1, 41))
    return {"n": n, "m": m, "k": "rankdef" if (m >= n or rng.random() < 0.5) else "gauss",
            "ua": float(10 ** rng.uniform(-4, 4)), "uy": float(10 ** rng.uniform(-4, 4)),
            "snr": float(10 ** rng.uniform(8, 11.5)), "s": int(rng.integers(0, 2 ** 31))}


def replay(case, rec):
    install_contracts(rec)
    if case.get("sub") == "limit":
        check_limits(rec, case["g"])
    elif case.get("sub") == "highsnr":
        check_highsnr(rec, case["g"])
    elif case.get("sub") == "lookalike":
        check_lookalike(rec, case["seed"])
    elif case.get("kind") == "intdtype":
        check_intdtype(rec, case["seed"])
    else:
        if not check_triple(rec, case["g"], shrink=False):
            rec.inconc("replayed triple is outside the kappa budget")
