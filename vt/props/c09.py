"""C09 - humidity measures and saturation pressures are mutually consistent.

Technique: runtime monitoring.  The real functions of typhon/physics/atmosphere.py are
executed on generated inputs; verdicts come from oracles in vt.models.atmosphere_model
(Fractions / numpy.longdouble, no typhon import) and from icontract post-conditions that are
installed on the real functions (so calls that typhon makes internally are seen as well).

Where each clause of the statement is decided
---------------------------------------------
 1 "each of the six converters is the exact inverse of its counterpart"
       check_exact (kind "exact"): the real functions run on fractions.Fraction arguments
       while typhon.constants.molar_mass_{water,dry_air} are Fractions of their decimal
       literals -> 6 inverse identities decided with ==           key converter-inverse
       check_float (kind "float"): same chains in double, result must lie in the interval
       obtained by pushing [v, v] through the longdouble definitions with gamma_k widening
 2 "every two-step route equals the direct one"
       check_exact: 6 routes + 3 three-cycles, ==                 key converter-route / -cycle
       check_float: interval version
 3 "all are increasing and map 0 to 0 on 0 <= x, q < 1"
       check_exact: strict < on Fraction pairs, f(0) == 0, 0 <= f < 1
                                                       keys converter-not-increasing / -zero / -range
       check_float: sorted arrays non-decreasing up to 2 gamma; value vs the longdouble
       definition within gamma_{k+1} (a float-only slip)           key converter-value
       contracts post_<conv>: range / zero on every call
 4 "e_eq_water_mk and e_eq_ice_mk are positive and strictly increasing in T"
       check_sat: > 0; sorted T: strictly larger whenever the oracle's relative increase
       exceeds twice the rounding bound, never smaller by more than the bound
                                                       keys sat-not-positive / sat-not-increasing
       value vs Murphy-Koop in longdouble within the derived forward bound
                                                       keys sat-ice-formula / sat-liquid-formula
 5 "ice <= liquid below the triple point (equal there to 1e-6 relative)"
       check_sat: ice <= liq (1 + 1e-6) for T <= T_t, |ice/liq - 1| <= 1e-6 at T_t
                                                       key sat-ice-above-liquid
 6 "e_eq_mixed_mk equals the ice value below T_t - 23 K, the liquid value above T_t, lies
    between them and is continuous in between"
       check_sat (classes branch-lo / branch-hi put T on T_b +- k ulp, k = 0..64, and on
       geometric offsets down to one ulp, with nextafter in both directions):
       branch values vs oracle                                     key mixed-branch
       blend vs IFS eq. 12.13 (documented definition)               key mixed-blend-formula
       min(ice, liq) - err <= mixed <= max(ice, liq) + err          key mixed-not-between
       |mixed(T_i+1) - mixed(T_i)| <= L dT + rounding on sorted grids down to neighbouring
       floats                                                      key mixed-discontinuous
 7 "non-positive temperatures are rejected"
       check_reject: 0.0, -0.0, negative, -inf, int 0, inside arrays at any position, 0-d
                                                       key nonpositive-T-accepted
 8 quantifier "float and 0-d/array inputs": every saturation / converter / lapse case is
       executed through several containers (python float, numpy scalar, 0-d, 1-d, 2-d,
       strided view); each must satisfy the same oracle, and they must agree within twice the
       bound                                           keys sat-container-disagree, sat-exception,
                                                            mixed-0d-typeerror
 9 "relative_humidity2vmr and vmr2relative_humidity are inverse for any saturation function"
       check_rh: exactly on Fractions with a harness saturation function returning a
       Fraction; in double (gamma_5) for default, water, ice, mixed, Magnus (harness), constant
                                                       key rh-vmr-not-inverse
       RH = 1 at x = e_s/p (meaning of "relative humidity")         key rh-definition
10 "the moist-adiabatic lapse rate lies between 0 and g/cp, approaching the latter as the
    saturation mixing ratio vanishes"
       check_lapse on e_s(T) <= 0.99 p: 0 < lapse <= g/cp (1 + 4u) key lapse-out-of-bounds
       lapse >= (g/cp) / (1 + B), B = Lv^2 w_s / (cp Rv T^2) from the oracle's w_s (the
       quantitative form of "approaching": |lapse/gamma_d - 1| <= B) key lapse-not-approaching-dry
"""
import contextlib
import math
import traceback
from fractions import Fraction

import numpy as np

from vt.core import Recorder, rng_for, np_rng_for

ID = "C09"
LEVEL = "exploration"
RULE = ("values of x, q in [0,1) and w >= 0 from classes uniform / log-uniform down to denormals "
        "/ 1 - 2^-k / small rationals / decimals (exact pass on Fractions, float pass on arrays); "
        "temperatures 100..400 K uniform, sorted fine grids, and +-k ulp / geometric offsets "
        "around T_t and T_t - 23 K; (p, T) with 1..1100 hPa; each through python float, numpy "
        "scalar, 0-d, 1-d, 2-d and strided containers. non-trivial = interior values (0 < v < 1, "
        "T in range, e_s < p); distinct by (kind, class, container) + content hash")
ASSUMPTIONS = [
    "exact pass: typhon.constants.molar_mass_water / molar_mass_dry_air are replaced by "
    "Fraction('18.01528e-3') / Fraction('28.9645e-3') while the real converters run; they are "
    "restored afterwards (the functions read the constants at call time)",
    "float pass: bound gamma_{k+1} |exact| + denormal quantum, k = number of roundings of the "
    "documented formula (2..5); chains: the interval [v, v] pushed through the monotone "
    "longdouble definitions, widened by gamma_{k+1} per step",
    "saturation pressures: Murphy-Koop (2005) eq. 7 / 10 in numpy.longdouble (64-bit mantissa) "
    "with the double-rounded coefficients; bound (K_LIB + 4) u S + (K_LIB + 1) u for ice and "
    "(2 K_LIB + 12) u S + (K_LIB + 1) u for liquid, S = sum of |terms| of the exponent, "
    "K_LIB = 4 ulp assumed for numpy's exp/log/tanh",
    "mixed phase compared with the documented IFS Cy45r1 eq. 12.13 blend (weight "
    "((T - T_t + 23)/23)^2); at the two branch temperatures blend and pure value coincide, so "
    "'<' versus '<=' there is not observable and is not demanded",
    "strict monotonicity is demanded only where the exact increase exceeds twice the rounding "
    "bound (neighbouring floats differ by less than the rounding error of exp)",
    "lapse rate: constants g, cp, Lv, Rd, Rv are read from typhon.constants (the statement "
    "speaks of g/cp); the Bohren-Albrecht formula itself is only recorded as an observation "
    "(counter lapse.formula_mismatch), not demanded",
]
MIN_NONTRIVIAL = {"quick": 3000, "thorough": 20000}
REQUIRED_COUNTERS = {
    "exact.identities": 20000,
    "float.elements": 100000,
    "sat.elements": 50000,
    "sat.branch_neighbours": 500,
    "reject.cases": 60,
    "reject.by_keyword": 10,
    "sat.big_arrays": 6,
    "rh.exact": 200,
    "rh.float_elements": 5000,
    "lapse.elements": 5000,
    "contract.saturation_positive": 500,
    "contract.converter_range": 2000,
    "contract.mixed_between": 200,
}
SHARD_TIMEOUT = {"quick": 600, "thorough": 5400}

KINDS_QUICK = (["exact"] * 6 + ["float"] * 3 + ["sat"] * 3 + ["branch", "reject", "rh", "lapse"])
N_QUICK = {"exact": 1500, "float": 450, "sat": 1200, "branch": 900, "reject": 1, "rh": 5000,
           "lapse": 6000}


def shards(tier, seed):
    mult = 1 if tier == "quick" else 60
    out = []
    idx = {}
    for k in KINDS_QUICK:
        i = idx.get(k, 0)
        idx[k] = i + 1
        out.append({"kind": k, "seed": seed, "shard": i, "n": N_QUICK[k] * mult})
    return out


# ---------------------------------------------------------------------------------------
# contracts on the real functions
# ---------------------------------------------------------------------------------------
class ContractBreach(Exception):
    def __init__(self, key, detail):
        Exception.__init__(self, key)
        self.key = key
        self.detail = detail


_mon = {"rec": None, "installed": False, "orig": {}}


def _count(name):
    rec = _mon["rec"]
    if rec is not None:
        rec.count(name)


def _all(cond):
    return bool(np.all(cond))


def _brief(v):
    a = np.asarray(v)
    if a.size <= 4:
        return repr(v)[:200]
    return "array shape %s head %s" % (a.shape, repr(a.ravel()[:3].tolist()))


def post_saturation_positive(T, result):
    _count("contract.saturation_positive")
    return _all(np.asarray(result) > 0)


def _err_saturation_positive(T, result):
    return ContractBreach("sat-not-positive", {"T": _brief(T), "result": _brief(result)})


def post_mixed_between(T, result):
    """local fact: mixed lies between typhon's own two pure values (tolerance 1e-11 relative,
    a hundred times the forward bound of either curve)."""
    _count("contract.mixed_between")
    o = _mon["orig"]
    lo = np.minimum(o["e_eq_ice_mk"](T), o["e_eq_water_mk"](T))
    hi = np.maximum(o["e_eq_ice_mk"](T), o["e_eq_water_mk"](T))
    r = np.asarray(result)
    return _all(r >= lo * (1 - 1e-11)) and _all(r <= hi * (1 + 1e-11))


def _err_mixed_between(T, result):
    return ContractBreach("mixed-not-between", {"T": _brief(T), "result": _brief(result)})


def _range_ok(src, result, source, target):
    _count("contract.converter_range")
    if isinstance(src, (Fraction, int, float)) and isinstance(result, (Fraction, int, float)):
        in_dom = 0 <= src < 1 if source in "xq" else 0 <= src < 1e300
        if not in_dom:
            return True
        if result < 0 or (target in "xq" and result > 1):
            return False
        return result == 0 if src == 0 else True
    s = np.asarray(src)
    r = np.asarray(result)
    if s.dtype.kind not in "fiuO" or s.shape != r.shape:
        return True
    dom = (s >= 0) & (s < 1) if source in "xq" else (s >= 0) & (s < 1e300)
    if not _all(r[dom] >= 0):
        return False
    if target in "xq" and not _all(r[dom] <= 1):
        return False
    return _all(r[s == 0] == 0)


def _range_err(name):
    def err(result):
        return ContractBreach("converter-range", {"function": name, "result": _brief(result)})
    return err


def post_vmr2mixing_ratio(x, result):
    return _range_ok(x, result, "x", "w")


def post_mixing_ratio2vmr(w, result):
    return _range_ok(w, result, "w", "x")


def post_mixing_ratio2specific_humidity(w, result):
    return _range_ok(w, result, "w", "q")


def post_specific_humidity2mixing_ratio(q, result):
    return _range_ok(q, result, "q", "w")


def post_vmr2specific_humidity(x, result):
    return _range_ok(x, result, "x", "q")


def post_specific_humidity2vmr(q, result):
    return _range_ok(q, result, "q", "x")


CONVERTER_POSTS = {
    "vmr2mixing_ratio": post_vmr2mixing_ratio,
    "mixing_ratio2vmr": post_mixing_ratio2vmr,
    "mixing_ratio2specific_humidity": post_mixing_ratio2specific_humidity,
    "specific_humidity2mixing_ratio": post_specific_humidity2mixing_ratio,
    "vmr2specific_humidity": post_vmr2specific_humidity,
    "specific_humidity2vmr": post_specific_humidity2vmr,
}


def install_contracts(rec):
    """Wrap the real functions (module attributes, so internal calls are seen too)."""
    import icontract
    from typhon.physics import atmosphere as atm
    _mon["rec"] = rec
    if _mon["installed"]:
        return atm
    o = _mon["orig"]
    for name in ("e_eq_ice_mk", "e_eq_water_mk", "e_eq_mixed_mk") + tuple(CONVERTER_POSTS):
        o[name] = getattr(atm, name)
    for name in ("e_eq_ice_mk", "e_eq_water_mk", "e_eq_mixed_mk"):
        f = icontract.ensure(post_saturation_positive, error=_err_saturation_positive)(o[name])
        if name == "e_eq_mixed_mk":
            f = icontract.ensure(post_mixed_between, error=_err_mixed_between)(f)
        setattr(atm, name, f)
    for name, post in CONVERTER_POSTS.items():
        setattr(atm, name, icontract.ensure(post, error=_range_err(name))(o[name]))
    _mon["installed"] = True
    return atm


@contextlib.contextmanager
def rational_constants():
    from typhon import constants as C
    from vt.models import atmosphere_model as am
    Mw, Md = am.molar_fractions()
    old = (C.molar_mass_water, C.molar_mass_dry_air)
    C.molar_mass_water, C.molar_mass_dry_air = Mw, Md
    try:
        yield Mw, Md
    finally:
        C.molar_mass_water, C.molar_mass_dry_air = old


# ---------------------------------------------------------------------------------------
# plumbing: probe recorder, shrinking
# ---------------------------------------------------------------------------------------
class Probe(Recorder):
    def __init__(self):
        Recorder.__init__(self, ID, None)


NONTRIV_CAP = 6000        # distinct non-trivial cases registered per shard (sub-sample)


def _merge(rec, probe):
    rec.evaluations += probe.evaluations
    if len(rec.nontrivial) < NONTRIV_CAP:
        rec.nontrivial |= probe.nontrivial
    for k, v in probe.counters.items():
        if k.startswith("violations:"):
            continue
        if k.startswith("max:"):
            rec.counters[k] = max(rec.counters.get(k, v), v)
        else:
            rec.counters[k] = rec.counters.get(k, 0) + v
    for k, s in probe.sets.items():
        for item in s:
            rec.setadd(k, item)
    for n in probe.notes:
        rec.note(n)
    for r in probe.inconclusive:
        rec.inconc(r)


def run_case(rec, case, shrink=True):
    """Run one case; violations are shrunk to the failing element(s) before being reported."""
    probe = Probe()
    _mon["rec"] = probe
    try:
        CHECKERS[case["kind"]](probe, case)
    finally:
        _mon["rec"] = rec
    _merge(rec, probe)
    seen = set()
    for v in probe.violations:
        if v["key"] in seen:
            continue
        seen.add(v["key"])
        small, detail = case, v["detail"]
        if shrink and rec.counters.get("violations:" + v["key"], 0) < 6:
            for cand in _candidates(case, v["detail"], v["key"]):
                p2 = Probe()
                _mon["rec"] = p2
                try:
                    CHECKERS[cand["kind"]](p2, cand)
                except Exception:
                    continue
                finally:
                    _mon["rec"] = rec
                hit = [w for w in p2.violations if w["key"] == v["key"]]
                if hit:
                    small, detail = cand, hit[0]["detail"]
                    break
        rec.violation(v["key"], small, detail)


WITNESS_0D = {"kind": "sat", "cls": "fixed-0d", "T": [260.0], "containers": ["0d"],
              "only": "mixed"}


def _candidates(case, detail, key=None):
    if key == "mixed-0d-typeerror" and case != WITNESS_0D:
        yield WITNESS_0D                 # every 0-d temperature fails the same way
    idx = detail.get("index") if isinstance(detail, dict) else None
    fn = detail.get("function") if isinstance(detail, dict) else None
    base = dict(case)
    if fn is not None:
        base["only"] = fn
    if case["kind"] in ("float", "sat", "branch"):
        fld = "vals" if case["kind"] == "float" else "T"
        vals = case[fld]
        if idx is not None and 0 <= idx < len(vals):
            for cont in (detail.get("container"), "1d"):
                if cont is None:
                    continue
                lo = max(0, idx - 1)
                extra = {"wbig": None} if case["kind"] == "float" else {}
                yield dict(base, **dict({fld: [vals[idx]], "containers": [cont]}, **extra))
                yield dict(base, **dict({fld: vals[lo:idx + 2], "containers": [cont]}, **extra))
        if fn is not None:
            yield base
    elif case["kind"] in ("rh", "lapse"):
        if idx is not None:
            sub = dict(base)
            for k in ("x", "p", "T"):
                if k in case and isinstance(case[k], list):
                    sub[k] = [case[k][idx]]
            sub["containers"] = [detail.get("container") or "1d"]
            yield sub
    elif case["kind"] == "exact":
        if fn is not None:
            yield base


_TRACES = [0]


def _exc_detail(exc):
    """traceback text is expensive (attribute suggestions): only for the first few"""
    _TRACES[0] += 1
    if _TRACES[0] > 8:
        return {"exception": repr(exc)[:300]}
    return {"exception": repr(exc)[:300], "trace": traceback.format_exc()[-700:]}


def _exc_key(exc, default, case):
    """mechanism of an exception: the 0-d defect of e_eq_mixed_mk also surfaces through
    callers that are handed e_eq_mixed_mk and 0-d temperatures."""
    if (isinstance(exc, TypeError) and "item assignment" in str(exc)
            and "0d" in (case.get("containers") or []) and case.get("e_eq") == "mixed"):
        return "mixed-0d-typeerror"
    return default


# ---------------------------------------------------------------------------------------
# value generators
# ---------------------------------------------------------------------------------------
UNIT_CLASSES = ["uniform", "loguniform", "typical", "near1", "subnormal", "small", "zeros",
                "halfway"]


def gen_unit(nrng, cls, n):
    """floats in [0, 1)."""
    if cls == "uniform":
        v = nrng.random(n)
    elif cls == "loguniform":
        v = 10.0 ** nrng.uniform(-300, 0, n)
    elif cls == "typical":
        v = 10.0 ** nrng.uniform(-7, -1.3, n)
    elif cls == "near1":
        v = 1.0 - 2.0 ** -nrng.integers(1, 54, n).astype(float)
    elif cls == "subnormal":
        v = nrng.integers(1, 2 ** 30, n).astype(float) * 5e-324
    elif cls == "small":
        v = 10.0 ** nrng.uniform(-30, -6, n)
    elif cls == "zeros":
        v = nrng.random(n) * (nrng.random(n) < 0.6)
    else:  # halfway: around 0.5 where 1 - x changes binade
        v = 0.5 + (nrng.integers(-40, 41, n)) * 2.0 ** -53
    v = np.asarray(v, dtype=float)
    v[v >= 1.0] = 0.5
    return v


CONTAINERS = ["pyfloat", "npfloat", "0d", "1d", "2d", "strided", "fortran"]


def containers_for(rng, n):
    c = ["1d"]
    if n <= 8:
        c += ["pyfloat", "npfloat", "0d"]
    if n >= 2:
        c.append(rng.choice(["2d", "strided", "fortran"]))
    return c


def apply_container(fn, vals, cont):
    """Call fn on vals presented through the container; returns a flat float64 array (object
    array when the function does not return floats)."""
    v = np.asarray(vals, dtype=float)
    if cont == "pyfloat":
        return np.array([fn(float(t)) for t in v])
    if cont == "npfloat":
        return np.array([fn(np.float64(t)) for t in v])
    if cont == "0d":
        return np.array([np.asarray(fn(np.array(t))).reshape(()) for t in v])
    if cont == "1d":
        return np.asarray(fn(v.copy()))
    if cont == "2d":
        k = 2 if v.size % 2 == 0 else 1
        return np.asarray(fn(v.reshape(k, -1).copy())).reshape(-1)
    if cont == "fortran":
        k = 2 if v.size % 2 == 0 else 1
        a = np.asfortranarray(v.reshape(-1, k))
        return np.asarray(fn(a)).reshape(-1)
    if cont == "strided":
        buf = np.full(2 * v.size, 0.5)
        buf[::2] = v
        return np.asarray(fn(buf[::2]))
    if cont == "int1d":          # integral values given with an integer dtype (np.arange(...) grids)
        return np.asarray(fn(v.astype(np.int64)))
    if cont == "pyint":
        return np.array([fn(int(t)) for t in v])
    raise KeyError(cont)


def n_calls(cont, n):
    return n if cont in ("pyfloat", "npfloat", "0d") else 1


# ---------------------------------------------------------------------------------------
# 1-3  converters, exact pass
# ---------------------------------------------------------------------------------------
def gen_exact_case(rng, nrng):
    cls = rng.choice(["float", "float", "smallrat", "decimal", "near1", "denormal", "zero"])

    def one():
        if cls == "float":
            f = float(gen_unit(nrng, rng.choice(["uniform", "loguniform", "typical", "halfway"]),
                               1)[0])
            return Fraction(f)
        if cls == "smallrat":
            d = rng.randint(2, 1000)
            return Fraction(rng.randint(0, d - 1), d)
        if cls == "decimal":
            return Fraction(rng.randint(0, 10 ** 6 - 1), 10 ** 6)
        if cls == "near1":
            return 1 - Fraction(1, rng.choice([10, 2]) ** rng.randint(1, 60))
        if cls == "denormal":
            return Fraction(float(gen_unit(nrng, "subnormal", 1)[0]))
        return Fraction(0)

    v = one()
    if rng.random() < 0.5:
        v2 = v + (1 - v) * Fraction(1, 2 ** rng.randint(1, 70))   # close neighbour above
    else:
        v2 = one() if cls != "zero" else Fraction(1, rng.randint(2, 9))
    wbig = Fraction(rng.randint(1, 10 ** rng.randint(1, 12)), rng.randint(1, 1000))
    return {"kind": "exact", "cls": cls, "v": [v.numerator, v.denominator],
            "v2": [v2.numerator, v2.denominator], "wbig": [wbig.numerator, wbig.denominator]}


def check_exact(rec, case):
    from vt.models import atmosphere_model as am
    atm = install_contracts(_mon["rec"])
    v = Fraction(*case["v"])
    v2 = Fraction(*case["v2"])
    wbig = Fraction(*case["wbig"]) if case.get("wbig") else None
    only = case.get("only")
    fns = {k: getattr(atm, t[0]) for k, t in am.CONVERTERS.items()}
    bad_type = []

    def call(name, arg):
        rec.ev()
        out = fns[name](arg)
        if not isinstance(out, (Fraction, int)):
            bad_type.append(name)
        return out

    def start_values(kind):
        if kind in "xq":
            return [v]
        out = [v / (1 - v)]
        if wbig is not None:
            out.append(wbig)
        return out

    def fail(key, name, start, got, want):
        rec.violation(key, case, {"function": name, "start": str(start)[:80],
                                  "got": str(got)[:80], "want": str(want)[:80],
                                  "got_float": _tofloat(got), "want_float": _tofloat(want)})

    with rational_constants():
        try:
            for f, g in am.INVERSES:
                name = "%s>%s" % (f, g)
                if only and only != name:
                    continue
                for s in start_values(am.CONVERTERS[f][1]):
                    back = call(g, call(f, s))
                    rec.count("exact.identities")
                    if bad_type:
                        break
                    if back != s:
                        fail("converter-inverse", name, s, back, s)
            for (f, g), d in am.ROUTES:
                name = "%s>%s=%s" % (f, g, d)
                if only and only != name:
                    continue
                for s in start_values(am.CONVERTERS[f][1]):
                    two = call(g, call(f, s))
                    direct = call(d, s)
                    rec.count("exact.identities")
                    if bad_type:
                        break
                    if two != direct:
                        fail("converter-route", name, s, two, direct)
            for f, g, h in am.CYCLES:
                name = "%s>%s>%s" % (f, g, h)
                if only and only != name:
                    continue
                for s in start_values(am.CONVERTERS[f][1]):
                    back = call(h, call(g, call(f, s)))
                    rec.count("exact.identities")
                    if bad_type:
                        break
                    if back != s:
                        fail("converter-cycle", name, s, back, s)
            for f, (tname, src, dst) in am.CONVERTERS.items():
                if only and only != f:
                    continue
                a, b = sorted([v, v2])
                if src == "w":
                    a, b = a / (1 - a), b / (1 - b)
                fa, fb = call(f, a), call(f, b)
                z = call(f, Fraction(0))
                rec.count("exact.monotone_pairs")
                if bad_type:
                    break
                if z != 0:
                    fail("converter-zero", f, 0, z, 0)
                if a < b and not fa < fb:
                    fail("converter-not-increasing", f, (a, b), (fa, fb), "f(a) < f(b)")
                for r in (fa, fb):
                    if r < 0 or (dst in "xq" and r >= 1):
                        fail("converter-range", f, (a, b), r, "0 <= f < 1")
        except ContractBreach as exc:
            rec.violation(exc.key, case, exc.detail)
        except Exception as exc:
            rec.violation("converter-exception", case, _exc_detail(exc))
    if bad_type:
        rec.inconc("converter %s does not propagate Fractions: exact pass undecided"
                   % sorted(set(bad_type)))
        return
    if 0 < v < 1:
        rec.nontriv(["exact", case["cls"]], [case["v"], case["v2"], case.get("wbig")])


def _tofloat(v):
    try:
        if isinstance(v, tuple):
            return [float(t) for t in v]
        return float(v)
    except Exception:
        return None


# ---------------------------------------------------------------------------------------
# 1-3  converters, float pass
# ---------------------------------------------------------------------------------------
def gen_float_case(rng, nrng):
    cls = rng.choice(UNIT_CLASSES)
    n = rng.choice([1, 2, 3, 8, 64, 257, 1024])
    vals = gen_unit(nrng, cls, n)
    if rng.random() < 0.5:
        vals = np.sort(vals)
    wbig = None
    if rng.random() < 0.3:
        wbig = (10.0 ** nrng.uniform(0, 290, min(n, 64))).tolist()
    return {"kind": "float", "cls": cls, "vals": vals.tolist(), "wbig": wbig,
            "containers": containers_for(rng, n)}


def check_float(rec, case):
    from vt.models import atmosphere_model as am
    atm = install_contracts(_mon["rec"])
    LD = am.LD
    Mw, Md = (float(t) for t in am.molar_fractions())
    vals = np.asarray(case["vals"], dtype=float)
    only = case.get("only")
    fns = {k: getattr(atm, t[0]) for k, t in am.CONVERTERS.items()}
    # results in the denormal range: each of the <= 5 operations may lose half a quantum
    # absolutely, and a later division by a molar mass (>= 1/64) magnifies that loss
    tiny = 5 * 64 * 2.0 ** -1074

    def oracle(name, arr):
        with np.errstate(all="ignore"):
            return am.convert(name, np.asarray(arr, dtype=LD), LD(Mw), LD(Md))

    def halve(buf):
        buf *= 0.5

    def source(kind):
        if kind in "xq":
            return vals
        with np.errstate(all="ignore"):
            w = vals / (1 - vals)
        if case.get("wbig"):
            w = np.concatenate([w, np.asarray(case["wbig"], dtype=float)])
        return w

    try:
        # single functions through every container
        for name, (tname, src, dst) in am.CONVERTERS.items():
            if only and only != name:
                continue
            s = source(src)
            want = oracle(name, s)
            bound = am.gamma(am.ROUNDINGS[name] + 1) * np.abs(want).astype(float) + tiny
            first = None
            reuse_history(rec, case, fns[name], name, s, halve)
            for cont in case["containers"]:
                with np.errstate(all="ignore"):
                    got = apply_container(fns[name], s, cont)
                rec.ev(n_calls(cont, s.size))
                rec.count("float.elements", s.size)
                if got.dtype.kind != "f" or got.dtype.itemsize < 8:
                    rec.violation("converter-value", case,
                                  {"function": name, "container": cont, "index": 0,
                                   "what": "result dtype %s for float64 input" % got.dtype})
                    continue
                err = np.abs(got.astype(LD) - want).astype(float)
                badm = ~(err <= bound)
                if badm.any():
                    j = int(np.argmax(badm))
                    rec.violation("converter-value", case,
                                  {"function": name, "container": cont, "index": j,
                                   "arg": float(s[j]), "got": float(got[j]),
                                   "want": float(want[j]), "err": float(err[j]),
                                   "bound": float(bound[j])})
                rec.maxi("float.err_over_bound", float(np.max(err / bound)))
                if first is None:
                    first = got
                elif not np.array_equal(first, got):
                    rec.count("float.container_not_bitwise")
            # monotone on the sorted sample
            if first is not None and s.size > 1:
                o = np.argsort(s, kind="stable")
                fs = first[o]
                ss = s[o]
                dec = fs[1:] < fs[:-1] * (1 - 2 * am.gamma(am.ROUNDINGS[name] + 1)) - tiny
                dec &= ss[1:] > ss[:-1]
                rec.count("float.monotone_pairs", int(s.size - 1))
                if dec.any():
                    j = int(np.argmax(dec))
                    rec.violation("converter-not-increasing", case,
                                  {"function": name, "index": int(o[j]), "container": "1d",
                                   "a": float(ss[j]), "b": float(ss[j + 1]),
                                   "fa": float(fs[j]), "fb": float(fs[j + 1])})
        # chains: inverse / route / cycle in double inside the propagated interval
        chains = [((f, g), "%s>%s" % (f, g)) for f, g in am.INVERSES]
        chains += [(fg, "%s>%s=%s" % (fg[0], fg[1], d)) for fg, d in am.ROUTES]
        chains += [(c, ">".join(c)) for c in am.CYCLES]
        for chain, name in chains:
            if only and only != name:
                continue
            s = source(am.CONVERTERS[chain[0]][1])
            lo = s.astype(LD)
            hi = s.astype(LD)
            got = s.copy()
            with np.errstate(all="ignore"):
                for f in chain:
                    got = np.asarray(fns[f](got))
                    rec.ev()
                    g = LD(am.gamma(am.ROUNDINGS[f] + 1))
                    src_kind = am.CONVERTERS[f][1]
                    lo_v = oracle(f, lo) * (1 - g) - LD(tiny)
                    hi_v = oracle(f, hi) * (1 + g) + LD(tiny)
                    if src_kind in "xq":      # pole at 1: beyond it nothing is excluded
                        hi_v = np.where(hi >= 1, LD(np.inf), hi_v)
                    else:                     # w -> x, q: the limit for w -> inf is 1
                        hi_v = np.where(np.isinf(hi), LD(1) + g, hi_v)
                    hi_v = np.where(np.isnan(hi_v), LD(np.inf), hi_v)
                    lo, hi = np.maximum(lo_v, 0), hi_v
            rec.count("float.chain_elements", s.size)
            gl = got.astype(LD)
            badm = ~((gl >= lo) & (gl <= hi))
            if badm.any():
                j = int(np.argmax(badm))
                key = ("converter-inverse" if len(chain) == 2 and "=" not in name
                       else "converter-route" if "=" in name else "converter-cycle")
                rec.violation(key, case, {"function": name, "index": j if j < vals.size else 0,
                                          "container": "1d", "start": float(s[j]),
                                          "got": float(got[j]), "lo": float(lo[j]),
                                          "hi": float(hi[j])})
    except ContractBreach as exc:
        rec.violation(exc.key, case, exc.detail)
    except Exception as exc:
        rec.violation("converter-exception", case, _exc_detail(exc))
    if np.any((vals > 0) & (vals < 1)):
        rec.nontriv(["float", case["cls"], sorted(case["containers"])],
                    [case["vals"][:16], len(case["vals"]), bool(case.get("wbig"))])


# ---------------------------------------------------------------------------------------
# 4-6, 8  saturation pressures
# ---------------------------------------------------------------------------------------
def branch_temperatures(rng, which, n):
    """T on both sides of a branch temperature: +-k ulp (k=0..64) and geometric offsets."""
    from vt.models import atmosphere_model as am
    Tb = am.T_TRIPLE if which == "hi" else am.T_TRIPLE - am.BLEND_WIDTH
    out = [Tb, am.T_TRIPLE - 23.0, 273.16 - 23, float(np.float64(273.16) - np.float64(23.))]
    for start in (Tb,):
        up = dn = start
        for _ in range(64):
            up = math.nextafter(up, math.inf)
            dn = math.nextafter(dn, -math.inf)
            out += [up, dn]
    for e in range(-44, 4):
        d = 2.0 ** e * rng.uniform(1, 2)
        out += [Tb + d, Tb - d, math.nextafter(Tb + d, math.inf), math.nextafter(Tb - d, -math.inf)]
    rng.shuffle(out)
    out = out[:n] + [Tb, math.nextafter(Tb, math.inf), math.nextafter(Tb, -math.inf)]
    return out


def gen_sat_case(rng, nrng, branch=False):
    if branch:
        cls = rng.choice(["branch-lo", "branch-hi"])
        n = rng.choice([4, 8, 40, 200])
        T = branch_temperatures(rng, cls[-2:], n)
        if rng.random() < 0.7:
            T = sorted(T)
    else:
        cls = rng.choice(["uniform", "sorted-fine", "sorted-coarse", "window", "integers", "edges"])
        n = rng.choice([1, 2, 5, 8, 64, 300])
        if cls == "uniform":
            T = nrng.uniform(100, 400, n).tolist()
        elif cls == "sorted-fine":
            t0 = rng.uniform(100, 399)
            step = 10.0 ** rng.uniform(-13, -1)
            T = (t0 + step * np.arange(n)).tolist()
        elif cls == "sorted-coarse":
            T = np.sort(nrng.uniform(100, 400, n)).tolist()
        elif cls == "window":
            T = np.sort(nrng.uniform(249.0, 274.5, n)).tolist()
        elif cls == "integers":
            T = [float(t) for t in nrng.integers(100, 401, n)]
        else:
            T = [100.0, 400.0, math.nextafter(100.0, 200.0), math.nextafter(400.0, 0.0),
                 218.8, 273.15, 273.16, 250.16][:max(n, 3)]
    T = [float(t) for t in T if 100.0 <= t <= 400.0]
    return {"kind": "branch" if branch else "sat", "cls": cls, "T": T,
            "containers": containers_for(rng, len(T))}


SAT_FUNCS = {"ice": "e_eq_ice_mk", "liquid": "e_eq_water_mk", "mixed": "e_eq_mixed_mk"}


def reuse_history(rec, case, fn, name, arr, shift):
    """Call history on one caller-owned buffer: call, change the buffer in place, call again (and once
    more after scaling the first result in place). A pure conversion answers as for a fresh array."""
    buf = np.array(arr, dtype=float, copy=True).ravel()
    if buf.size == 0:
        return
    try:
        with np.errstate(all="ignore"):
            r1 = fn(buf)
            shift(buf)
            r2 = np.array(fn(buf), copy=True)
            if isinstance(r1, np.ndarray) and r1.flags.writeable:
                r1 *= 3.0
            r3 = np.array(fn(buf), copy=True)
            fresh = np.asarray(fn(buf.copy()))
    except Exception:
        return  # exceptions are judged by the single-call checks
    rec.count("history.buffer_reuse_calls")
    for tag, r in (("second call after in-place update of the argument", r2),
                   ("third call after the first result was scaled in place", r3)):
        if r.shape != fresh.shape or not np.array_equal(r, fresh, equal_nan=True):
            bad = np.flatnonzero(~((r == fresh) | (np.isnan(r) & np.isnan(fresh)))) \
                if r.shape == fresh.shape else np.array([0])
            j = int(bad[0])
            rec.violation("stale-state", case, {"function": name, "history": tag, "index": j,
                                                "container": "1d",
                                                "arg": float(buf[j]) if j < buf.size else None,
                                                "got": _brief(r.ravel()[j] if r.size > j else r),
                                                "fresh": _brief(fresh.ravel()[j] if fresh.size > j else fresh)})
            return


def check_sat(rec, case):
    from vt.models import atmosphere_model as am
    atm = install_contracts(_mon["rec"])
    LD = am.LD
    T = np.asarray(case["T"], dtype=float)
    only = case.get("only")
    if T.size == 0:
        return
    ice_w, Si = am.ice_ld(T)
    liq_w, Sl = am.liq_ld(T)
    mix_w, mix_err, region = am.mixed_ld(T)
    want = {"ice": ice_w, "liquid": liq_w, "mixed": mix_w}
    relb = {"ice": am.ice_rel_bound(Si), "liquid": am.liq_rel_bound(Sl)}
    absb = {"ice": relb["ice"] * np.asarray(ice_w, dtype=float),
            "liquid": relb["liquid"] * np.asarray(liq_w, dtype=float),
            "mixed": mix_err}
    results = {}
    for name, tname in SAT_FUNCS.items():
        if only and only not in (name, "pair"):
            continue
        fn = getattr(atm, tname)
        first = None
        for cont in case["containers"]:
            try:
                with np.errstate(all="ignore"):
                    got = apply_container(fn, T, cont)
            except ContractBreach as exc:
                rec.violation(exc.key, case, dict(exc.detail, function=name, container=cont,
                                                  index=0))
                continue
            except Exception as exc:
                key = "sat-exception"
                if name == "mixed" and cont == "0d" and isinstance(exc, TypeError):
                    key = "mixed-0d-typeerror"
                rec.violation(key, case, dict(_exc_detail(exc), function=name, container=cont,
                                              index=0))
                continue
            rec.ev(n_calls(cont, T.size))
            rec.count("sat.elements", T.size)
            if got.shape != T.shape or got.dtype.kind != "f":
                rec.violation("sat-container-disagree", case,
                              {"function": name, "container": cont, "index": 0,
                               "what": "shape %s dtype %s" % (got.shape, got.dtype)})
                continue
            err = np.abs(got.astype(LD) - want[name]).astype(float)
            badm = ~(err <= absb[name])
            if badm.any():
                j = int(np.argmax(badm))
                key = {"ice": "sat-ice-formula", "liquid": "sat-liquid-formula"}.get(name)
                if key is None:
                    key = "mixed-branch" if region[j] != 0 else "mixed-blend-formula"
                rec.violation(key, case, {"function": name, "container": cont, "index": j,
                                          "T": float(T[j]), "got": float(got[j]),
                                          "want": float(want[name][j]), "err": float(err[j]),
                                          "bound": float(absb[name][j]),
                                          "region": int(region[j])})
            rec.maxi("sat.err_over_bound", float(np.max(err / absb[name])))
            if not np.all(got > 0):
                j = int(np.argmax(~(got > 0)))
                rec.violation("sat-not-positive", case, {"function": name, "container": cont,
                                                         "index": j, "T": float(T[j]),
                                                         "got": float(got[j])})
            if first is None:
                first = got
            else:
                d = np.abs(first - got)
                if np.any(d > 2 * absb[name]):
                    j = int(np.argmax(d > 2 * absb[name]))
                    rec.violation("sat-container-disagree", case,
                                  {"function": name, "container": cont, "index": j,
                                   "T": float(T[j]), "a": float(first[j]), "b": float(got[j])})
                if not np.array_equal(first, got):
                    rec.count("sat.container_not_bitwise")
        if first is not None:
            results[name] = first
    # ---- monotone (ice, liquid) --------------------------------------------------------
    o = np.argsort(T, kind="stable")
    Ts = T[o]
    for name in ("ice", "liquid"):
        if name not in results or T.size < 2:
            continue
        g = results[name][o]
        w = np.asarray(want[name], dtype=LD)[o]
        rb = relb[name][o]
        inc = ((w[1:] - w[:-1]) / w[:-1]).astype(float)      # exact relative increase
        tol = rb[1:] + rb[:-1]
        must = (Ts[1:] > Ts[:-1]) & (inc > 2 * tol)
        strict_fail = must & ~(g[1:] > g[:-1])
        weak_fail = (Ts[1:] > Ts[:-1]) & (g[1:] < g[:-1] * (1 - tol))
        rec.count("sat.monotone_pairs", int(must.sum()))
        badm = strict_fail | weak_fail
        if badm.any():
            j = int(np.argmax(badm))
            rec.violation("sat-not-increasing", case,
                          {"function": name, "index": int(o[j]), "container": "1d",
                           "T": [float(Ts[j]), float(Ts[j + 1])],
                           "e": [float(g[j]), float(g[j + 1])]})
    # ---- ice <= liquid below the triple point --------------------------------------------
    if "ice" in results and "liquid" in results:
        below = T <= am.T_TRIPLE
        r = results["ice"] / results["liquid"]
        badm = below & ~(r <= 1 + 1e-6)
        at = T == am.T_TRIPLE
        badm |= at & ~(np.abs(r - 1) <= 1e-6)
        rec.count("sat.order_elements", int(below.sum()))
        rec.count("sat.triple_point_hits", int(at.sum()))
        if badm.any():
            j = int(np.argmax(badm))
            rec.violation("sat-ice-above-liquid", case,
                          {"function": "pair", "index": j, "container": "1d", "T": float(T[j]),
                           "ice": float(results["ice"][j]),
                           "liquid": float(results["liquid"][j])})
    # ---- mixed: between, continuous --------------------------------------------------------
    if "mixed" in results:
        m = results["mixed"]
        lo = np.minimum(ice_w, liq_w).astype(float) - mix_err - absb["ice"] - absb["liquid"]
        hi = np.maximum(ice_w, liq_w).astype(float) + mix_err + absb["ice"] + absb["liquid"]
        badm = ~((m >= lo) & (m <= hi))
        if badm.any():
            j = int(np.argmax(badm))
            rec.violation("mixed-not-between", case,
                          {"function": "mixed", "index": j, "container": "1d",
                           "T": float(T[j]), "got": float(m[j]), "lo": float(lo[j]),
                           "hi": float(hi[j])})
        lo_b = am.T_TRIPLE - am.BLEND_WIDTH
        rec.count("sat.branch_neighbours",
                  int(np.sum((np.abs(T - am.T_TRIPLE) <= 64 * math.ulp(am.T_TRIPLE))
                             | (np.abs(T - lo_b) <= 64 * math.ulp(lo_b)))))
        rec.count("sat.mixed_ice_branch", int(np.sum(region < 0)))
        rec.count("sat.mixed_liquid_branch", int(np.sum(region > 0)))
        rec.count("sat.mixed_blend", int(np.sum(region == 0)))
        if T.size >= 2:
            ms = m[o]
            es = mix_err[o]
            win = (Ts[:-1] >= lo_b - 2) & (Ts[1:] <= am.T_TRIPLE + 2) & (Ts[1:] > Ts[:-1])
            if win.any():
                L = am.mixed_lipschitz(float(Ts[:-1][win].min()), float(Ts[1:][win].max()))
                step = np.abs(ms[1:] - ms[:-1])
                allow = L * (Ts[1:] - Ts[:-1]) + es[1:] + es[:-1]
                badm = win & ~(step <= allow)
                rec.count("sat.continuity_pairs", int(win.sum()))
                if badm.any():
                    j = int(np.argmax(badm))
                    rec.violation("mixed-discontinuous", case,
                                  {"function": "mixed", "index": int(o[j]), "container": "1d",
                                   "T": [float(Ts[j]), float(Ts[j + 1])],
                                   "e": [float(ms[j]), float(ms[j + 1])],
                                   "allowed_step": float(allow[j])})
    def warmer(buf):
        buf += 1.0

    for name, tname in SAT_FUNCS.items():
        if only and only not in (name, "pair"):
            continue
        reuse_history(rec, case, getattr(atm, tname), name, T, warmer)
    rec.nontriv([case["kind"], case["cls"], sorted(case["containers"])],
                [case["T"][:16], len(case["T"])])


# ---------------------------------------------------------------------------------------
# 7  rejection of non-positive temperatures
# ---------------------------------------------------------------------------------------
def reject_inputs(rng):
    bad = [0.0, -0.0, -1.0, -273.15, -5e-324, -1e300, float("-inf"), 0, -3]
    out = []
    for b in bad:
        out.append({"T": [b], "container": "py"})
        out.append({"T": [b], "container": "py", "by_keyword": True})
        if isinstance(b, float):
            out.append({"T": [b], "container": "npfloat"})
            out.append({"T": [b], "container": "0d"})
        out.append({"T": [b], "container": "1d"})
        for n in (2, 5, 33):
            pos = rng.randrange(n)
            arr = [round(rng.uniform(100, 400), 3) for _ in range(n)]
            arr[pos] = b
            out.append({"T": arr, "container": "1d"})
            if n == 5:
                out.append({"T": arr, "container": "1d", "by_keyword": True})
            if n % 2 == 0 or n == 33:
                out.append({"T": arr, "container": "2d"})
    return out


def check_reject(rec, case):
    atm = install_contracts(_mon["rec"])
    vals = case["T"]
    cont = case["container"]
    for name, tname in SAT_FUNCS.items():
        if case.get("only") and case["only"] != name:
            continue
        fn = getattr(atm, tname)
        if cont == "py":
            arg = vals[0]
        elif cont == "npfloat":
            arg = np.float64(vals[0])
        elif cont == "0d":
            arg = np.array(float(vals[0]))
        elif cont == "2d":
            a = np.asarray(vals, dtype=float)
            arg = a.reshape(1, -1) if a.size % 2 else a.reshape(2, -1)
        else:
            arg = np.asarray(vals, dtype=float)
        rec.ev()
        rec.count("reject.cases")
        try:
            with np.errstate(all="ignore"):
                if case.get("by_keyword"):
                    rec.count("reject.by_keyword")
                    out = fn(T=arg)
                else:
                    out = fn(arg)
        except ValueError:
            rec.count("reject.valueerror")
            continue
        except ContractBreach as exc:
            rec.violation("nonpositive-T-accepted", case,
                          {"function": name, "what": "computed a value", "contract": exc.key})
            continue
        except Exception as exc:
            rec.count("reject.other_exception")
            rec.note("non-positive T rejected with %s instead of ValueError (%s, %s)"
                     % (type(exc).__name__, name, cont))
            continue
        rec.violation("nonpositive-T-accepted", case,
                      {"function": name, "returned": _brief(out)})
    rec.nontriv(["reject", cont, len(vals)], vals)


# ---------------------------------------------------------------------------------------
# 9  RH <-> VMR
# ---------------------------------------------------------------------------------------
def magnus(T):
    """harness-side saturation function (Magnus/Alduchov-Eskridge), any container."""
    T = np.asarray(T, dtype=float) if not isinstance(T, (float, int)) else T
    return 610.94 * np.exp(17.625 * (T - 273.15) / (T - 30.11))


def constant_es(T):
    return 1234.5 + 0 * T


E_EQ = ["default", "water", "ice", "mixed", "magnus", "constant"]


def _e_eq(atm, name):
    return {"default": None, "water": atm.e_eq_water_mk, "ice": atm.e_eq_ice_mk,
            "mixed": atm.e_eq_mixed_mk, "magnus": magnus, "constant": constant_es}[name]


def gen_rh_case(rng, nrng):
    if rng.random() < 0.4:
        def fr(lo, hi):
            return Fraction(float(nrng.uniform(lo, hi)))
        r = rng.choice([fr(0, 1.2), Fraction(rng.randint(0, 120), 100), Fraction(0), Fraction(1)])
        p = rng.choice([fr(100, 110000), Fraction(rng.randint(100, 110000))])
        e = rng.choice([fr(1e-9, 50000), Fraction(rng.randint(1, 50000), rng.randint(1, 1000))])
        return {"kind": "rh", "mode": "exact", "r": [r.numerator, r.denominator],
                "p": [p.numerator, p.denominator], "e": [e.numerator, e.denominator]}
    n = rng.choice([1, 3, 8, 50, 400])
    x = gen_unit(nrng, rng.choice(["typical", "uniform", "loguniform", "zeros"]), n)
    x[(x > 0) & (x < 1e-250)] = 1e-250      # keep x p / e_s inside the normal range
    p = 10.0 ** nrng.uniform(2, math.log10(1.1e5), n)
    T = nrng.uniform(100, 400, n)
    if rng.random() < 0.3:
        T = np.sort(np.concatenate([T, branch_temperatures(rng, rng.choice(["lo", "hi"]), 0)]))
        x = np.resize(x, T.size)
        p = np.resize(p, T.size)
    return {"kind": "rh", "mode": "float", "x": x.tolist(), "p": p.tolist(), "T": T.tolist(),
            "e_eq": rng.choice(E_EQ), "containers": [rng.choice(["1d", "pyfloat", "0d", "2d"])
                                                     if n <= 8 else rng.choice(["1d", "2d"])]}


def _present(cont, arrs):
    """Yield argument tuples for the container (one tuple for arrays, one per element else)."""
    arrs = [np.asarray(a, dtype=float) for a in arrs]
    if cont == "pyfloat":
        for i in range(arrs[0].size):
            yield tuple(float(a[i]) for a in arrs), slice(i, i + 1)
    elif cont == "0d":
        for i in range(arrs[0].size):
            yield tuple(np.array(a[i]) for a in arrs), slice(i, i + 1)
    elif cont == "2d":
        k = 2 if arrs[0].size % 2 == 0 else 1
        yield tuple(a.reshape(k, -1).copy() for a in arrs), slice(None)
    else:
        yield tuple(a.copy() for a in arrs), slice(None)


def check_rh(rec, case):
    from vt.models import atmosphere_model as am
    atm = install_contracts(_mon["rec"])
    r2x, x2r = atm.relative_humidity2vmr, atm.vmr2relative_humidity
    try:
        if case["mode"] == "exact":
            r, p, e = (Fraction(*case[k]) for k in ("r", "p", "e"))
            T = Fraction(280)

            def sat(_T):
                return e
            rec.ev(5)
            rec.count("rh.exact")
            x = r2x(r, p, T, e_eq=sat)
            back = x2r(x, p, T, e_eq=sat)
            if not isinstance(x, (Fraction, int)):
                rec.inconc("relative_humidity2vmr does not propagate Fractions")
                return
            if back != r:
                rec.violation("rh-vmr-not-inverse", case, {"direction": "rh>vmr>rh",
                                                           "got": str(back), "want": str(r)})
            back2 = r2x(x2r(r, p, T, e_eq=sat), p, T, e_eq=sat)   # r used as a vmr
            if back2 != r:
                rec.violation("rh-vmr-not-inverse", case, {"direction": "vmr>rh>vmr",
                                                           "got": str(back2), "want": str(r)})
            one = x2r(e / p, p, T, e_eq=sat)
            if one != 1:
                rec.violation("rh-definition", case, {"what": "RH at x = e_s/p", "got": str(one)})
            if r > 0:
                rec.nontriv(["rh", "exact"], [case["r"], case["p"], case["e"]])
            return
        f = _e_eq(atm, case["e_eq"])
        kw = {} if f is None else {"e_eq": f}
        x = np.asarray(case["x"], dtype=float)
        p = np.asarray(case["p"], dtype=float)
        T = np.asarray(case["T"], dtype=float)
        g5 = am.gamma(5)
        for cont in case["containers"]:
            back = np.empty(x.size)
            back2 = np.empty(x.size)
            sat1 = np.empty(x.size)
            with np.errstate(all="ignore"):
                for (xa, pa, Ta), sl in _present(cont, [x, p, T]):
                    rh = x2r(xa, pa, Ta, **kw)
                    back[sl] = np.asarray(r2x(rh, pa, Ta, **kw)).reshape(-1)
                    v = r2x(xa, pa, Ta, **kw)           # x used as an RH
                    back2[sl] = np.asarray(x2r(v, pa, Ta, **kw)).reshape(-1)
                    es = (f or atm.e_eq_water_mk)(Ta)
                    sat1[sl] = np.asarray(x2r(es / pa, pa, Ta, **kw)).reshape(-1)
                    rec.ev(5)
            rec.count("rh.float_elements", x.size)
            tiny = 8 * 2.0 ** -1074
            for which, b in (("vmr>rh>vmr", back), ("rh>vmr>rh", back2)):
                badm = ~(np.abs(b - x) <= g5 * np.abs(x) + tiny)
                if badm.any():
                    j = int(np.argmax(badm))
                    rec.violation("rh-vmr-not-inverse", case,
                                  {"direction": which, "index": j, "container": cont,
                                   "x": float(x[j]), "p": float(p[j]), "T": float(T[j]),
                                   "got": float(b[j])})
            badm = ~(np.abs(sat1 - 1) <= g5)
            if badm.any():
                j = int(np.argmax(badm))
                rec.violation("rh-definition", case,
                              {"index": j, "container": cont, "p": float(p[j]),
                               "T": float(T[j]), "got": float(sat1[j])})
        if case["e_eq"] == "default":
            with np.errstate(all="ignore"):
                a = np.asarray(x2r(x, p, T))
                b = np.asarray(x2r(x, p, T, e_eq=atm.e_eq_water_mk))
            rec.ev(2)
            if not np.array_equal(a, b):
                rec.count("rh.default_not_liquid")
                rec.note("vmr2relative_humidity default saturation function differs from "
                         "e_eq_water_mk")
        if np.any(x > 0):
            rec.nontriv(["rh", case["e_eq"], case["containers"]],
                        [case["x"][:8], case["p"][:8], case["T"][:8], len(case["x"])])
    except ContractBreach as exc:
        rec.violation(exc.key, case, exc.detail)
    except Exception as exc:
        rec.violation(_exc_key(exc, "rh-exception", case), case, _exc_detail(exc))


# ---------------------------------------------------------------------------------------
# 10  moist lapse rate
# ---------------------------------------------------------------------------------------
def gen_lapse_case(rng, nrng):
    n = rng.choice([1, 3, 8, 60, 400])
    cls = rng.choice(["uniform", "cold", "warm-low-p", "surface", "hot-thin"])
    if cls == "uniform":
        p = 10.0 ** nrng.uniform(2, math.log10(1.1e5), n)
        T = nrng.uniform(100, 400, n)
    elif cls == "cold":
        p = 10.0 ** nrng.uniform(2, math.log10(1.1e5), n)
        T = nrng.uniform(100, 200, n)
    elif cls == "warm-low-p":
        p = 10.0 ** nrng.uniform(2, 4, n)
        T = nrng.uniform(250, 330, n)
    elif cls == "hot-thin":     # e_s(T) around and above p
        p = 10.0 ** nrng.uniform(2, 5, n)
        T = nrng.uniform(250, 400, n)
    else:
        p = nrng.uniform(8e4, 1.1e5, n)
        T = nrng.uniform(230, 320, n)
    return {"kind": "lapse", "cls": cls, "p": p.tolist(), "T": T.tolist(),
            "e_eq": rng.choice(["default", "water", "ice", "mixed", "magnus"]),
            "containers": [rng.choice(["1d", "pyfloat", "0d", "2d"]) if n <= 8
                           else rng.choice(["1d", "2d"])]}


def check_lapse(rec, case):
    from typhon import constants as C
    from vt.models import atmosphere_model as am
    atm = install_contracts(_mon["rec"])
    LD = am.LD
    name = case["e_eq"]
    f = _e_eq(atm, name)
    kw = {} if f is None else {"e_eq": f}
    p = np.asarray(case["p"], dtype=float)
    T = np.asarray(case["T"], dtype=float)
    # oracle saturation pressure and its relative bound
    if name in ("default", "water"):
        es, S = am.liq_ld(T)
        be = am.liq_rel_bound(S)
    elif name == "ice":
        es, S = am.ice_ld(T)
        be = am.ice_rel_bound(S)
    elif name == "mixed":
        es, err, _ = am.mixed_ld(T)
        be = err / np.asarray(es, dtype=float)
    else:
        es = magnus(T).astype(LD)
        be = np.full(T.size, 8 * am.U)
    x = (es / p.astype(LD)).astype(float)
    ok = x <= 0.99                      # e_s(T) < p: the saturation mixing ratio is defined
    # where e_s(T) >= p (hot and thin: inside the stated 100..400 K x 1..1100 hPa box) only the bounds
    # are demanded; the measure-zero set e_s == p, where the mixing ratio is 1/0, is left out
    sup = ~ok & (np.abs(x - 1) > 1e-6)
    if sup.any():
        gd0 = float(C.earth_standard_gravity / C.isobaric_mass_heat_capacity)
        try:
            with np.errstate(all="ignore"):
                gs = np.asarray(atm.moist_lapse_rate(p[sup].copy(), T[sup].copy(), **kw), dtype=float).reshape(-1)
            rec.ev()
            rec.count("lapse.supersaturated_elements", int(sup.sum()))
            badm = ~((gs > 0) & (gs <= gd0 * (1 + 4 * am.U)))
            if badm.any():
                j = int(np.argmax(badm))
                rec.violation("lapse-out-of-bounds", case,
                              {"index": int(np.flatnonzero(sup)[j]), "container": "1d", "p": float(p[sup][j]),
                               "T": float(T[sup][j]), "got": float(gs[j]), "dry": gd0,
                               "e_s_over_p": float(x[sup][j])})
        except ContractBreach as exc:
            rec.violation(exc.key, case, exc.detail)
        except Exception as exc:
            rec.violation(_exc_key(exc, "lapse-exception", case), case, _exc_detail(exc))
    if not ok.any():
        return
    p, T, es, be, x = p[ok], T[ok], es[ok], be[ok], x[ok]
    # pressures and temperatures that broadcast against each other (a column of levels against a row of
    # temperatures; a length-1 temperature): entry [i, j] is the rate for (p_i, T_j)
    k = min(4, p.size)
    if k >= 2:
        rec.ev()
        rec.count("lapse.broadcast_calls")
        try:
            with np.errstate(all="ignore"):
                flat = np.asarray(atm.moist_lapse_rate(np.repeat(p[:k], k), np.tile(T[:k], k), **kw),
                                  dtype=float).reshape(k, k)
                for pa, Ta, ws in ((p[:k, None].copy(), T[:k].copy(), (k, k)),
                                   (p[:k].copy(), T[:1].copy(), (k,))):
                    got2 = np.asarray(atm.moist_lapse_rate(pa, Ta, **kw), dtype=float)
                    ref2 = flat if ws == (k, k) else flat[:, 0]
                    okm = np.isfinite(ref2)
                    if got2.shape != ws or not np.all(np.abs(got2[okm] - ref2[okm]) <= 8 * am.U * np.abs(ref2[okm])):
                        rec.violation("lapse-broadcast", case,
                                      {"p_shape": list(np.shape(pa)), "T_shape": list(np.shape(Ta)),
                                       "got_shape": list(got2.shape), "want_shape": list(ws)})
                        break
        except ContractBreach as exc:
            rec.violation(exc.key, case, exc.detail)
        except Exception as exc:
            rec.violation(_exc_key(exc, "lapse-exception", case), case,
                          dict(_exc_detail(exc), where="p and T broadcast against each other"))
    Mw, Md = (float(t) for t in am.molar_fractions())
    want, gd, A, B, w = am.lapse_ld(p, T, es, C.earth_standard_gravity,
                                    C.isobaric_mass_heat_capacity, C.heat_of_vaporization,
                                    C.gas_constant_dry_air, C.gas_constant_water_vapor, Mw, Md)
    gd = float(gd)
    rel_w = (be + 4 * am.U) / (1 - x)           # relative uncertainty of typhon's w_s
    try:
        for cont in case["containers"]:
            got = np.empty(p.size)
            with np.errstate(all="ignore"):
                for (pa, Ta), sl in _present(cont, [p, T]):
                    got[sl] = np.asarray(atm.moist_lapse_rate(pa, Ta, **kw)).reshape(-1)
                    rec.ev()
            rec.count("lapse.elements", p.size)
            badm = ~((got > 0) & (got <= gd * (1 + 4 * am.U)))
            if badm.any():
                j = int(np.argmax(badm))
                rec.violation("lapse-out-of-bounds", case,
                              {"index": j, "container": cont, "p": float(p[j]), "T": float(T[j]),
                               "got": float(got[j]), "dry": gd})
            lower = gd / (1 + np.asarray(B, dtype=float) * (1 + rel_w)) * (1 - 16 * am.U)
            badm = ~(got >= lower)
            if badm.any():
                j = int(np.argmax(badm))
                rec.violation("lapse-not-approaching-dry", case,
                              {"index": j, "container": cont, "p": float(p[j]), "T": float(T[j]),
                               "got": float(got[j]), "dry": gd, "B": float(B[j]),
                               "w_s": float(w[j]), "lower_bound": float(lower[j])})
            rel = np.abs(got / np.asarray(want, dtype=float) - 1)
            mism = rel > rel_w + 16 * am.U
            rec.maxi("lapse.dev_over_bound", float(np.max(rel / (rel_w + 16 * am.U))))
            if mism.any():
                rec.count("lapse.formula_mismatch", int(mism.sum()))
                rec.note("moist_lapse_rate deviates from Bohren-Albrecht 6.111 beyond rounding "
                         "(observation, not demanded by the statement)")
            rec.count("lapse.near_dry", int(np.sum(np.asarray(B, dtype=float) < 1e-6)))
        rec.nontriv(["lapse", case["cls"], name, case["containers"]],
                    [case["p"][:8], case["T"][:8], len(case["p"])])
    except ContractBreach as exc:
        rec.violation(exc.key, case, exc.detail)
    except Exception as exc:
        rec.violation(_exc_key(exc, "lapse-exception", case), case, _exc_detail(exc))


def check_big(rec, case):
    """Input size: one array of more than a million temperatures, answered at once, against the same
    function applied to pieces of 65536 elements (the functions are element-wise; 1e-12 leaves room
    for vector / scalar loop differences of numpy)."""
    atm = install_contracts(_mon["rec"])
    n = int(np.prod(case["shape"]))
    T = 150.0 + ((np.arange(n, dtype=float) * 0.6180339887498949) % 1.0) * 200.0
    T = np.asarray(T.reshape(case["shape"]), order=case.get("order", "C"))
    flat = T.ravel(order="K")
    for name, tname in SAT_FUNCS.items():
        fn = getattr(atm, tname)
        o = _mon["orig"][tname]
        rec.ev()
        rec.count("sat.big_arrays")
        with np.errstate(all="ignore"):
            try:
                got = np.asarray(fn(T))
            except ContractBreach as exc:
                rec.violation(exc.key, case, dict(exc.detail, function=name, elements=n))
                continue
            ref = np.concatenate([np.asarray(o(flat[i:i + 65536])) for i in range(0, n, 65536)])
        if got.shape != T.shape:
            rec.violation("saturation-large-array", case, {"function": name, "shape": list(got.shape),
                                                          "want_shape": list(T.shape)})
            continue
        g = np.asarray(got, order=case.get("order", "C")).ravel(order="K")   # same element order as flat
        bad = ~(np.abs(g - ref) <= 1e-12 * np.abs(ref))
        if bad.any():
            i = int(np.flatnonzero(bad)[0])
            rec.violation("saturation-large-array", case,
                          {"function": name, "elements": n, "first_bad_flat_index": i,
                           "n_bad": int(bad.sum()), "T": float(flat[i]), "got": float(g[i]),
                           "piecewise": float(ref[i])})
    rec.nontriv(["big", case["shape"], case.get("order", "C")], case["shape"])


CHECKERS = {"big": check_big, "exact": check_exact, "float": check_float, "sat": check_sat, "branch": check_sat,
            "reject": check_reject, "rh": check_rh, "lapse": check_lapse}


# ---------------------------------------------------------------------------------------
# driver
# ---------------------------------------------------------------------------------------
def fixed_cases():
    """Deterministic witnesses driven every run (regression cases of repaired defects)."""
    return [
        {"kind": "sat", "cls": "fixed-0d", "T": [260.0], "containers": ["1d", "0d"]},
        # whole-kelvin grids given as integers (np.arange(100, 401, 7) and python ints)
        {"kind": "sat", "cls": "fixed-int", "T": [float(t) for t in range(100, 401, 7)],
         "containers": ["1d", "int1d", "pyint"]},
        {"kind": "branch", "cls": "fixed-branch",
         "T": [250.16, 250.16000000000003, 250.15999999999997, 273.15999999999997, 273.16,
               273.16000000000003],
         "containers": ["1d", "pyfloat", "npfloat", "0d"]},
    ]


def run_shard(spec, rec):
    from vt.models import atmosphere_model as am
    if not am.LD_OK:
        rec.inconc("numpy.longdouble has no 64-bit mantissa on this platform")
        return
    install_contracts(rec)
    kind = spec["kind"]
    rng = rng_for(spec["seed"], "c09-" + kind, spec["shard"])
    nrng = np_rng_for(spec["seed"], "c09-" + kind, spec["shard"])
    if kind == "reject":
        for case in reject_inputs(rng):
            run_case(rec, dict(case, kind="reject"))
        for case in fixed_cases():
            run_case(rec, case)
        for case in ({"kind": "big", "shape": [2 ** 20 + 12345]},
                     {"kind": "big", "shape": [1031, 1025], "order": "F"}):
            run_case(rec, case, shrink=False)
        return
    gen = {"exact": gen_exact_case, "float": gen_float_case, "sat": gen_sat_case,
           "branch": lambda r, n: gen_sat_case(r, n, branch=True),
           "rh": gen_rh_case, "lapse": gen_lapse_case}[kind]
    for i in range(spec["n"]):
        case = gen(rng, nrng)
        if i < 1:
            rec.sample({k: (v[:6] if isinstance(v, list) else v) for k, v in case.items()})
        run_case(rec, case)


def replay(case, rec):
    from vt.models import atmosphere_model as am
    if not am.LD_OK:
        rec.inconc("numpy.longdouble has no 64-bit mantissa on this platform")
        return
    install_contracts(rec)
    run_case(rec, case, shrink=False)
