"""C12 - compress/decompress round-trip any content and never leave debris.

Clauses and where decided (run_scenario unless noted)
  * bytes read inside decompress() == bytes written inside compress(), all four formats
  * the stored file is a genuine archive: gzip / bz2 / lzma / zipfile of the standard library
    open it and give the same bytes (stdlib_read)
  * names without compression suffix pass through untouched (passthrough_case)
  * no temporary file/directory remains, the decompressed copy is gone - after a normal exit and
    after an exception raised (a) in the caller's compress block before/after writing, (b) in the
    caller's decompress block, (c) from the audit hook at every file-system 'open'/'mkstemp'/
    'mkdtemp' event of a golden run (source-free fault injection), (d) by a sys.monitoring
    failpoint at every executed line of compress / compress_as / decompress (except the cleanup
    line itself), (e) by corrupt / truncated archives (corrupt_cases)
  * an exception inside a compress block creates no target and leaves an existing one
    byte-for-byte as it was
Monitors: audit-hook file-system trace (conservation of temporaries, write-set confinement),
directory snapshots before/after, byte comparison.
"""
import bz2
import gzip
import hashlib
import inspect
import lzma
import os
import shutil
import tempfile
import time
import traceback
import zipfile

from vt.core import rng_for, scratch_dir
from vt.monitors import audit, lineprobe

ID = "C12"
LEVEL = "fault_enumeration"
RULE = ("scenarios = format (gz,bz2,zip,xz) x via (suffix | fmt=) x content class (empty, 1 byte, "
        "64KiB-1/64KiB/64KiB+1, random binary, already compressed, text; >100MiB in thorough) x name "
        "(several dots, spaces) x tmpdir (explicit|default) x pre-existing target; for each golden run "
        "every recorded fs event (open/mkstemp/mkdtemp) and every executed line of compress/compress_as/"
        "decompress is a fault site, plus body exceptions and corrupt archives. non-trivial = a run whose "
        "injected fault was actually reached; distinct by (scenario, fault site)")
ASSUMPTIONS = [
    "a fault injected *into the cleanup step itself* (the unlink in decompress' finally, the removal "
    "events of TemporaryDirectory) is not a fault 'while writing, compressing or decompressing' and is not injected",
    "for faults inside compress_as the statement demands 'no temporary remains'; a partially written "
    "target is counted as an observation (observed.partial_target), not a violation",
    "line failpoints are not placed on bare 'try:'/'else:'/'finally:' lines (no statement executes there)",
    "tempfile.tempdir is pointed at a harness-owned directory so that the default temporary location is observable",
]
MIN_NONTRIVIAL = {"quick": 400, "thorough": 4000}
REQUIRED_COUNTERS = {"concurrent.roundtrips": 100, "roundtrip.ok": 40, "fault.audit.fired": 100, "fault.line.fired": 100,
                     "fault.body": 40, "corrupt.runs": 40, "passthrough.calls": 8,
                     "stdlib.opened": 40}
SHARD_TIMEOUT = {"quick": 900, "thorough": 7200}

FORMATS = ["gz", "bz2", "zip", "xz"]
CONTENTS = ["empty", "one", "64k-1", "64k", "64k+1", "random", "compressed", "text"]


class BodyError(Exception):
    pass


def shards(tier, seed):
    out = []
    i = 0
    for fmt in FORMATS:
        for part in range(4):
            out.append({"kind": "faults", "seed": seed, "shard": i, "fmt": fmt, "part": part,
                        "n": 3 if tier == "quick" else 120})
            i += 1
    if tier == "thorough":
        out.append({"kind": "large", "seed": seed, "shard": i, "n": 1})
    return out


def content_bytes(kind, seed):
    r = rng_for(seed, "content", kind)
    if kind == "empty":
        return b""
    if kind == "one":
        return bytes([r.randrange(256)])
    if kind in ("64k-1", "64k", "64k+1"):
        n = 65536 + {"64k-1": -1, "64k": 0, "64k+1": 1}[kind]
        return r.randbytes(n)
    if kind == "random":
        return r.randbytes(r.choice([1000, 200000, 300001]))
    if kind == "compressed":
        return gzip.compress(r.randbytes(5000) + b"A" * 20000)
    if kind == "text":
        return ("line %d\n" % r.randrange(10 ** 6)).encode() * r.choice([1, 500, 20000])
    if kind == "large":
        return r.randbytes(1 << 20) * 101 + b"tail"
    raise KeyError(kind)


MAGIC = {"gz": b"\x1f\x8b", "bz2": b"BZh", "xz": b"\xfd7zXZ\x00", "zip": b"PK"}


def stdlib_read(path, fmt):
    with open(path, "rb") as fh:
        head = fh.read(6)
    if not head.startswith(MAGIC[fmt]):
        # gzip/bz2/lzma readers accept a zero-length file as an empty stream; it is not an archive
        raise ValueError("file does not start with the %s magic number: %r" % (fmt, head))
    if fmt == "gz":
        with gzip.open(path, "rb") as fh:
            return fh.read()
    if fmt == "bz2":
        with bz2.open(path, "rb") as fh:
            return fh.read()
    if fmt == "xz":
        with lzma.open(path, "rb") as fh:
            return fh.read()
    if fmt == "zip":
        with zipfile.ZipFile(path) as zf:
            names = zf.namelist()
            if len(names) != 1:
                raise ValueError("zip archive with members %r" % (names,))
            return zf.read(names[0])
    raise KeyError(fmt)


def codes():
    import typhon.files.utils as U
    return {"compress": lineprobe.code_of(U.compress), "compress_as": lineprobe.code_of(U.compress_as),
            "decompress": lineprobe.code_of(U.decompress)}


def cleanup_lines():
    """(function name, line) of statements that ARE the cleanup: not fault sites."""
    import typhon.files.utils as U
    out = set()
    for name in ("compress", "compress_as", "decompress"):
        fn = getattr(U, name)
        while hasattr(fn, "__wrapped__"):
            fn = fn.__wrapped__
        src, first = inspect.getsourcelines(fn)
        for i, text in enumerate(src):
            t = text.strip()
            if t.startswith("os.unlink(") or t.startswith("os.remove("):
                out.add((name, first + i))
            if t in ("try:", "else:", "finally:"):
                # pure syntax: no statement that could raise; a failpoint there would
                # manufacture a fault between two statements that the program cannot have
                out.add((name, first + i))
    return out


def fault_filter(kind, path, args):
    if kind in ("mkstemp", "mkdtemp"):
        return True
    if kind == "open":
        return not os.path.isdir(path)
    return False


def scenario_name(sc):
    base = {"plain": "data", "dots": "a.b.c.tar", "space": "my file v1.0",
            "long": "granule_" + "x" * 400}[sc["name"]]
    ext = "." + sc["fmt"] if sc["via"] == "suffix" else ".bin"
    if sc["name"] == "long":
        base = base[:255 - len(ext)]       # a legal name of exactly 255 bytes
    return base + ext


def run_scenario(rec, sc, fault=None, golden=None):
    """Executes one scenario; returns dict(events=..., lines=...) for golden runs."""
    import typhon.files.utils as U
    root = scratch_dir("c12")
    old_tmp = tempfile.tempdir
    other_dir = None
    case = {"kind": "scenario", "sc": sc, "fault": fault}
    try:
        tdir = os.path.join(root, "target")
        xtmp = os.path.join(root, "xtmp")
        systmp = os.path.join(root, "systmp")
        for d in (tdir, xtmp, systmp):
            os.mkdir(d)
        if sc["tmpdir"] == "otherfs":
            # the explicit temporary directory lies on another file system than the target (a RAM disk
            # for scratch data, the archive on a data disk): rename() across them is refused (EXDEV)
            other = other_filesystem_dir(root)
            if other is None:
                rec.count("tmpdir.other_filesystem_unavailable")
                return None
            xtmp = other_dir = other
            rec.count("tmpdir.other_filesystem_runs")
        tempfile.tempdir = systmp
        tmparg = xtmp if sc["tmpdir"] in ("explicit", "otherfs") else None
        target = os.path.join(tdir, scenario_name(sc))
        fmtarg = None if sc["via"] == "suffix" else sc["fmt"]
        content = content_bytes(sc["content"], sc["cseed"])
        previous = None
        if sc["pre"]:
            previous = b"previous content " + bytes([sc["cseed"] % 256]) * 100
            with open(target, "wb") as fh:
                fh.write(previous)
            if sc["cseed"] % 2:
                # the existing archive carries a time stamp from the future (clock skew, a restore)
                future = time.time() + 86400
                os.utime(target, (future, future))
        dtarget = os.path.join(tdir, "explicit_decompressed.tmp") if sc.get("dtarget") else None
        pre_dtarget = bool(dtarget and sc.get("dtarget_pre"))
        cs = codes()
        fp = None
        tr_args = {}
        if fault and fault[0] == "audit":
            tr_args = dict(fault_at=fault[1], fault_filter=fault_filter)
        trace = audit.Trace([root], **tr_args)
        if fault and fault[0] == "line":
            fp = lineprobe.Failpoint(list(cs.values()), fault[1], fault[2], 1,
                                     audit.InjectedFault("line %s:%d" % (fault[1], fault[2])))
        rec_lines = lineprobe.LineRecorder(list(cs.values())) if golden else None
        probe = fp or rec_lines
        injected = None
        phase = "compress"
        data_back = None
        yielded = None
        rec.ev()
        with trace:
            if probe:
                probe.__enter__()
            try:
                try:
                    with U.compress(target, fmt=fmtarg, tmpdir=tmparg) as tf:
                        yielded = tf
                        if fault and fault[0] == "body" and fault[1] == "before":
                            raise BodyError("before writing")
                        with open(tf, "wb") as fh:
                            fh.write(content)
                        if fault and fault[0] == "body" and fault[1] == "after":
                            raise BodyError("after writing")
                except (audit.InjectedFault, BodyError) as exc:
                    injected = ("compress", exc)
                if injected is None and sc["via"] == "suffix":
                    phase = "decompress"
                    if pre_dtarget:
                        # the explicit target already exists and is longer than what will be written
                        # (the harness' own file operation: not part of the observed trace)
                        trace.paused = True
                        with open(dtarget, "wb") as fh:
                            fh.write(b"OLD-CONTENT-" * (len(content) // 6 + 50))
                        trace.paused = False
                    try:
                        with U.decompress(target, tmpdir=tmparg, target=dtarget) as path:
                            yielded_d = path
                            with open(path, "rb") as fh:
                                data_back = fh.read()
                            if fault and fault[0] == "dbody":
                                raise BodyError("in decompress block")
                        if os.path.exists(yielded_d):
                            rec.violation("decompressed-copy-remains", case,
                                          {"path": os.path.relpath(yielded_d, root)})
                    except (audit.InjectedFault, BodyError) as exc:
                        injected = ("decompress", exc)
                        if "yielded_d" in locals() and os.path.exists(yielded_d):
                            rec.violation("decompressed-copy-remains", case,
                                          {"path": os.path.relpath(yielded_d, root),
                                           "after": repr(exc)})
            except Exception as exc:
                rec.violation("compress-exception", case,
                              {"phase": phase, "exception": repr(exc),
                               "trace": traceback.format_exc()[-1200:]})
                return None
            finally:
                if probe:
                    probe.__exit__(None, None, None)
        # ---------------- verdicts ------------------------------------------
        reached = injected is not None
        if fault is not None:
            kind = fault[0]
            if kind == "audit":
                reached = trace.fired is not None
                rec.count("fault.audit.fired" if reached else "fault.audit.not_reached")
            elif kind == "line":
                reached = fp.fired
                rec.count("fault.line.fired" if reached else "fault.line.not_reached")
            else:
                rec.count("fault.body")
        # debris: both temp locations must be empty, target dir holds at most the target
        for name, d in (("explicit tmpdir", xtmp), ("default tmpdir", systmp)):
            left = audit.snapshot(d)
            if left:
                rec.violation("debris", case, {"where": name, "left": left[:5],
                                               "after": repr(injected[1]) if injected else "normal exit"})
        allowed = {os.path.basename(target)}
        if pre_dtarget and os.path.exists(dtarget):
            with open(dtarget, "rb") as fh:
                if fh.read() == b"OLD-CONTENT-" * (len(content) // 6 + 50):
                    # typhon never got as far as opening the pre-existing explicit target
                    allowed.add(os.path.basename(dtarget))
        extra = [n for n in os.listdir(tdir) if n not in allowed]
        if extra:
            rec.violation("debris", case, {"where": "target directory", "left": extra[:5],
                                           "after": repr(injected[1]) if injected else "normal exit"})
        created, removed = trace.temporaries()
        held = [p for p in created if p not in removed and os.path.exists(p)]
        if held:
            rec.violation("debris", case, {"where": "audit: temporary created, never removed",
                                           "left": [os.path.relpath(p, root) for p in held]})
        rec.count("audit.temporaries_created", len(created))
        ok_paths = (target, dtarget)
        for p in trace.written():
            if p in ok_paths or p.startswith(xtmp + os.sep) or p.startswith(systmp + os.sep):
                continue
            if p in (xtmp, systmp):  # tempfile probes the directory itself (O_TMPFILE)
                continue
            rec.violation("write-set", case, {"path": os.path.relpath(p, root)})
        rec.count("audit.events", len(trace.events))
        if injected and injected[0] == "compress":
            in_body = isinstance(injected[1], BodyError)
            if os.path.exists(target):
                now = open(target, "rb").read()
                if previous is None:
                    if in_body:
                        rec.violation("target-after-body-exception", case,
                                      {"why": "exception in the compress block created the target",
                                       "size": len(now)})
                    else:
                        rec.count("observed.partial_target")
                elif now != previous:
                    if in_body:
                        rec.violation("target-after-body-exception", case,
                                      {"why": "exception in the compress block altered the existing target"})
                    else:
                        rec.count("observed.partial_target")
            elif previous is not None and in_body:
                rec.violation("target-after-body-exception", case,
                              {"why": "exception in the compress block removed the existing target"})
        if injected is None:
            # full success: round trip + genuine archive
            if not os.path.exists(target):
                rec.violation("roundtrip", case, {"why": "target missing after compress"})
            else:
                try:
                    via_std = stdlib_read(target, sc["fmt"])
                    rec.count("stdlib.opened")
                    if via_std != content:
                        rec.violation("roundtrip", case, {"why": "standard library reads other bytes",
                                                          "len": [len(via_std), len(content)]})
                except Exception as exc:
                    rec.violation("not-an-archive", case,
                                  {"why": "standard library cannot open the stored file as " + sc["fmt"],
                                   "exception": repr(exc), "yielded": os.path.basename(yielded or "")})
                if sc["via"] == "suffix":
                    if data_back != content:
                        rec.violation("roundtrip", case, {
                            "why": "decompress returned other bytes",
                            "len": [None if data_back is None else len(data_back), len(content)]})
                    else:
                        rec.count("roundtrip.ok")
        if fault is not None and reached:
            rec.nontriv([sc["fmt"], sc["via"], fault[0], phase], [sc, fault])
        elif fault is None:
            rec.setadd("golden_scenarios", [sc["fmt"], sc["via"], sc["content"], sc["name"],
                                            sc["tmpdir"], sc["pre"], bool(sc.get("dtarget"))])
        if golden:
            sites = [i for i, (k, p, m, s) in enumerate(
                [e for e in trace.events if fault_filter(e[0], e[1], None)])]
            return {"n_sites": len(sites), "lines": sorted(set(rec_lines.trace))}
        return None
    finally:
        tempfile.tempdir = old_tmp
        shutil.rmtree(root, ignore_errors=True)
        if other_dir:
            shutil.rmtree(other_dir, ignore_errors=True)


def other_filesystem_dir(root):
    """A new directory on a file system other than the one of `root` (None when there is none)."""
    dev = os.stat(root).st_dev
    for base in ("/dev/shm", "/run/shm", "/var/tmp", "/tmp", os.path.expanduser("~")):
        try:
            if os.path.isdir(base) and os.stat(base).st_dev != dev and os.access(base, os.W_OK):
                return tempfile.mkdtemp(prefix="vt-c12-otherfs-", dir=base)
        except OSError:
            continue
    return None


def passthrough_case(rec, rng):
    import typhon.files.utils as U
    root = scratch_dir("c12p")
    try:
        for name in ("plain.dat", "x.nc", "noext", "a.gz.txt", "b.zipx", "UPPER.GZ", "Mixed.Zip",
                     "data.nc.XZ", "x.BZ2"):
            p = os.path.join(root, name)
            rec.ev()
            rec.count("passthrough.calls")
            case = {"kind": "passthrough", "name": name}
            # a suffix spelling a format in upper case is not an advertised format: passing the name
            # through and treating it as that format both satisfy the statement - what must hold either
            # way is that the bytes written are the bytes read and that the data is stored under the name
            strict = name.rsplit(".", 1)[-1].lower() not in ("gz", "bz2", "zip", "xz")
            same1 = same2 = data = None
            try:
                with audit.Trace([root]) as tr:
                    with U.compress(p) as tf:
                        same1 = tf == p
                        with open(tf, "wb") as fh:
                            fh.write(b"payload")
                    with U.decompress(p) as tf:
                        same2 = tf == p
                        data = open(tf, "rb").read()
            except Exception as exc:
                rec.violation("passthrough", case, {"exception": repr(exc), "stored": os.path.exists(p)})
                if os.path.exists(p):
                    os.remove(p)
                continue
            if data != b"payload" or not os.path.exists(p):
                rec.violation("passthrough", case, {"read": repr(data), "stored": os.path.exists(p)})
            elif strict and not (same1 and same2 and open(p, "rb").read() == b"payload"):
                rec.violation("passthrough", case, {"same": [same1, same2]})
            if strict and tr.written() - {p}:
                rec.violation("write-set", case, {"paths": sorted(tr.written() - {p})[:4]})
            if not strict:
                rec.count("passthrough.uppercase_suffix")
            os.remove(p)
        if os.listdir(root):
            rec.violation("debris", {"kind": "passthrough"}, {"left": os.listdir(root)})
    finally:
        shutil.rmtree(root, ignore_errors=True)


def symlink_case(rec, rng, fmt):
    """Population class: the name given to compress / decompress is a symbolic link whose destination is
    spelled differently (latest.nc.<fmt> -> store/0001; plain.bin -> store/legacy.<fmt>). The name the
    caller gives decides about the format."""
    import typhon.files.utils as U
    root = scratch_dir("c12s")
    try:
        os.makedirs(root + "/store")
        os.makedirs(root + "/t")
        content = content_bytes(rng.choice(CONTENTS[:4]), rng.randrange(10 ** 6))
        for link, dest, as_fmt in (("t/latest.nc." + fmt, "store/0001", fmt),
                                   ("t/plain.bin", "store/legacy." + fmt, None)):
            lp, dp = os.path.join(root, link), os.path.join(root, dest)
            open(dp, "wb").close()
            os.symlink(dp, lp)
            case = {"kind": "symlink", "fmt": fmt, "link": link, "dest": dest}
            rec.ev()
            rec.count("symlink.cases")
            try:
                with U.compress(lp) as tf:
                    with open(tf, "wb") as fh:
                        fh.write(content)
                with U.decompress(lp) as tf:
                    with open(tf, "rb") as fh:
                        back = fh.read()
                stored = stdlib_read(lp, as_fmt) if as_fmt else open(lp, "rb").read()
            except Exception as exc:
                rec.violation("roundtrip", case, {"exception": repr(exc), "why": "name is a symbolic link"})
                continue
            if back != content or stored != content:
                rec.violation("roundtrip", case, {"why": "name is a symbolic link",
                                                  "read_back_equal": back == content,
                                                  "stored_as_named_format": stored == content})
                continue
            rec.nontriv(["symlink", fmt, bool(as_fmt)], [fmt, link])
    finally:
        shutil.rmtree(root, ignore_errors=True)


def corrupt_cases(rec, rng, fmt, n):
    import typhon.files.utils as U
    root = scratch_dir("c12c")
    old_tmp = tempfile.tempdir
    try:
        tdir, systmp = os.path.join(root, "t"), os.path.join(root, "systmp")
        os.mkdir(tdir)
        os.mkdir(systmp)
        tempfile.tempdir = systmp
        good = os.path.join(tdir, "good." + fmt)
        content = content_bytes("text", 7) + content_bytes("random", 7)[:5000]
        with U.compress(good) as tf:
            open(tf, "wb").write(content)
        raw = open(good, "rb").read()
        positions = sorted(set([0, 1, 2, 5, 10, len(raw) // 2, len(raw) - 9, len(raw) - 1] +
                               [rng.randrange(len(raw)) for _ in range(n)]))
        for pos in positions:
            for how in ("truncate", "flip"):
                if how == "truncate":
                    bad = raw[:pos]
                else:
                    bad = raw[:pos] + bytes([raw[pos] ^ (1 << rng.randrange(8))]) + raw[pos + 1:]
                p = os.path.join(tdir, "bad." + fmt)
                open(p, "wb").write(bad)
                rec.ev()
                rec.count("corrupt.runs")
                case = {"kind": "corrupt", "fmt": fmt, "how": how, "pos": pos}
                raised = None
                yielded = None
                try:
                    with U.decompress(p) as path:
                        yielded = path
                        open(path, "rb").read()
                except Exception as exc:
                    raised = exc
                    rec.count("corrupt.raised")
                left = audit.snapshot(systmp)
                if left or (yielded and os.path.exists(yielded)):
                    rec.violation("debris", case, {"where": "default tmpdir after corrupt archive",
                                                   "left": left[:4], "raised": repr(raised)})
                if sorted(os.listdir(tdir)) != ["bad." + fmt, "good." + fmt]:
                    rec.violation("debris", case, {"where": "archive directory",
                                                   "left": sorted(os.listdir(tdir))})
                if raised is not None:
                    rec.nontriv([fmt, "corrupt", how], [fmt, how, pos])
                os.remove(p)
    finally:
        tempfile.tempdir = old_tmp
        shutil.rmtree(root, ignore_errors=True)


def concurrent_case(rec, rng, fmt):
    """Several threads compress and decompress different contents at the same time (as the parallel
    workers of FileSet.map / move do); every thread must read back exactly its own bytes."""
    import threading
    import typhon.files.utils as U
    root = scratch_dir("c12t")
    old_tmp = tempfile.tempdir
    try:
        systmp = os.path.join(root, "systmp")
        os.mkdir(systmp)
        tempfile.tempdir = systmp
        nthreads = 4
        contents = [rng_for(rng.randrange(10 ** 6), "cc", k).randbytes(rng.choice([70000, 400000, 1500000]))
                    for k in range(nthreads)]
        errors = []
        barrier = threading.Barrier(nthreads)

        def work(k):
            try:
                for it in range(6):
                    target = os.path.join(root, "t%d_%d.%s" % (k, it, fmt))
                    barrier.wait(timeout=60)
                    with U.compress(target) as tf:
                        with open(tf, "wb") as fh:
                            fh.write(contents[k])
                    barrier.wait(timeout=60)
                    with U.decompress(target) as path:
                        with open(path, "rb") as fh:
                            back = fh.read()
                    if back != contents[k]:
                        errors.append({"thread": k, "iteration": it, "len": [len(back), len(contents[k])],
                                       "first_diff": next((i for i, (a, b) in enumerate(zip(back, contents[k]))
                                                           if a != b), None)})
                        return
                    if stdlib_read(target, fmt) != contents[k]:
                        errors.append({"thread": k, "iteration": it, "why": "stored archive holds other bytes"})
                        return
            except threading.BrokenBarrierError:
                pass
            except Exception as exc:
                errors.append({"thread": k, "exception": repr(exc)})
                try:
                    barrier.abort()
                except Exception:
                    pass
        ths = [threading.Thread(target=work, args=(k,)) for k in range(nthreads)]
        for t in ths:
            t.start()
        for t in ths:
            t.join(300)
        rec.ev(nthreads * 6)
        rec.count("concurrent.roundtrips", nthreads * 6)
        case = {"kind": "concurrent", "fmt": fmt}
        if errors:
            rec.violation("roundtrip", case, {"why": "concurrent compress/decompress returned other bytes",
                                              "errors": errors[:3]})
        left = audit.snapshot(systmp)
        if left:
            rec.violation("debris", case, {"where": "default tmpdir after concurrent use", "left": left[:4]})
        if not errors:
            rec.nontriv(["concurrent", fmt], [fmt, len(contents[0])])
    finally:
        tempfile.tempdir = old_tmp
        shutil.rmtree(root, ignore_errors=True)


def nested_case(rec, rng, fmt):
    """Two archives with the same base name in different directories, decompressed in nested blocks
    (and the same archive opened twice): each block sees its own bytes, each copy is gone afterwards."""
    import typhon.files.utils as U
    root = scratch_dir("c12n")
    old_tmp = tempfile.tempdir
    try:
        systmp = os.path.join(root, "systmp")
        os.mkdir(systmp)
        tempfile.tempdir = systmp
        xtmp = os.path.join(root, "xtmp")
        os.mkdir(xtmp)
        case = {"kind": "nested", "fmt": fmt}
        paths, contents = [], []
        for k in range(2):
            d = os.path.join(root, "day%d" % k)
            os.mkdir(d)
            p = os.path.join(d, "product_1200.dat." + fmt)
            c = content_bytes("random", 100 + k) + bytes([k])
            with U.compress(p) as tf:
                with open(tf, "wb") as fh:
                    fh.write(c)
            paths.append(p)
            contents.append(c)
        for tmparg in (None, xtmp):
            for a, b in ((0, 1), (0, 0)):
                rec.ev()
                rec.count("nested.runs")
                try:
                    with U.decompress(paths[a], tmpdir=tmparg) as pa:
                        with U.decompress(paths[b], tmpdir=tmparg) as pb:
                            db = open(pb, "rb").read()
                            da_inner = open(pa, "rb").read()
                        da = open(pa, "rb").read()
                    ok = da == contents[a] and da_inner == contents[a] and db == contents[b]
                    if not ok:
                        rec.violation("roundtrip", case, {"why": "nested decompress blocks disturb each other",
                                                          "same_archive": a == b})
                    if os.path.exists(pa) or os.path.exists(pb):
                        rec.violation("decompressed-copy-remains", case, {"same_archive": a == b})
                except Exception as exc:
                    rec.violation("compress-exception", case, {"phase": "nested decompress",
                                                               "exception": repr(exc), "same_archive": a == b})
                left = audit.snapshot(systmp) + audit.snapshot(xtmp)
                if left:
                    rec.violation("debris", case, {"where": "tmpdir after nested decompress", "left": left[:4]})
        rec.nontriv(["nested", fmt], fmt)
    finally:
        tempfile.tempdir = old_tmp
        shutil.rmtree(root, ignore_errors=True)


def gen_scenarios(rng, fmt, n):
    out = []
    for _ in range(n):
        out.append({"fmt": fmt, "via": rng.choice(["suffix", "suffix", "fmt"]),
                    "content": rng.choice(CONTENTS), "cseed": rng.randrange(10 ** 6),
                    "name": rng.choice(["plain", "dots", "space", "long"]),
                    "tmpdir": rng.choice(["explicit", "default"]),
                    "pre": rng.random() < 0.4, "dtarget": rng.random() < 0.3,
                    "dtarget_pre": rng.random() < 0.5})
    return out


def enumerate_faults(rec, sc):
    g = run_scenario(rec, sc, None, golden=True)
    if g is None:
        return
    rec.sample({"scenario": sc, "fs_fault_sites": g["n_sites"], "lines": len(g["lines"])})
    skip = cleanup_lines()
    for where in ("before", "after"):
        run_scenario(rec, sc, ["body", where])
    if sc["via"] == "suffix":
        run_scenario(rec, sc, ["dbody"])
    for k in range(g["n_sites"]):
        run_scenario(rec, sc, ["audit", k])
    for name, line in g["lines"]:
        if (name, line) in skip:
            rec.count("fault.line.cleanup_lines_skipped")
            continue
        run_scenario(rec, sc, ["line", name, line])


def run_shard(spec, rec):
    rng = rng_for(spec["seed"], "c12", spec["shard"])
    if spec["kind"] == "large":
        for fmt in ("gz", "zip"):
            sc = {"fmt": fmt, "via": "suffix", "content": "large", "cseed": 1, "name": "plain",
                  "tmpdir": "explicit", "pre": False, "dtarget": False}
            run_scenario(rec, sc, None)
            run_scenario(rec, sc, ["body", "after"])
            rec.count("large.runs", 2)
        return
    fmt = spec["fmt"]
    # every content class at least once per format across the four parts
    fixed = [{"fmt": fmt, "via": "suffix" if (i + spec["part"]) % 3 else "fmt", "content": c,
              "cseed": spec["seed"] * 100 + i, "name": ["plain", "dots", "space", "long"][(i + spec["part"]) % 4],
              "tmpdir": ["explicit", "default"][(i + spec["part"]) % 2], "pre": bool(i % 2),
              "dtarget": i % 3 == 0, "dtarget_pre": i % 2 == 0}
             for i, c in enumerate(CONTENTS) if i % 4 == spec["part"]]
    for sc in fixed + gen_scenarios(rng, fmt, spec["n"]):
        enumerate_faults(rec, sc)
    for via in ("suffix", "fmt"):
        sc = {"fmt": fmt, "via": via, "content": CONTENTS[spec["part"] % len(CONTENTS)], "cseed": spec["seed"] + 17,
              "name": "plain", "tmpdir": "otherfs", "pre": via == "fmt", "dtarget": False, "dtarget_pre": False}
        run_scenario(rec, sc, None)
        run_scenario(rec, sc, ["body", "after"])
    passthrough_case(rec, rng)
    symlink_case(rec, rng_for(spec["seed"], "c12-symlink", spec["shard"]), fmt)
    corrupt_cases(rec, rng, fmt, 6 if spec["n"] <= 3 else 40)
    for _ in range(1 if spec["n"] <= 3 else 10):
        concurrent_case(rec, rng, fmt)
    nested_case(rec, rng, fmt)


def replay(case, rec):
    if case.get("kind") == "scenario":
        run_scenario(rec, case["sc"], case.get("fault"))
    elif case.get("kind") == "nested":
        nested_case(rec, rng_for(0, "r"), case["fmt"])
    elif case.get("kind") == "concurrent":
        concurrent_case(rec, rng_for(0, "r"), case["fmt"])
    elif case.get("kind") == "symlink":
        symlink_case(rec, rng_for(0, "r"), case["fmt"])
    elif case.get("kind") == "corrupt":
        corrupt_cases(rec, rng_for(0, "r"), case["fmt"], 10)
    else:
        passthrough_case(rec, rng_for(0, "r"))
