"""C16 - find_closest(t) / fileset[t] return the covering or the nearest file.

Clauses and where decided (all in check_lookup):
  * a covering file is returned whenever one exists in the neighbourhood N = model-find over
    [t - r, t + r) (r = sub-directory period, all time when there is none)
  * otherwise a minimiser of min(|t0-t|, |t1-t|) over N (ties: any)
  * restricted to files passing the filters and not excluded
  * N empty -> NoFilesError / None, never a far-away or excluded file
  * fileset[t] / fileset[t, filters] reads that very file (content = the file's unique id)
  * a single-file fileset answers with its one file (single_case)
"""
import datetime as dt
import os
import shutil
import traceback

from vt.core import rng_for, scratch_dir
from vt.models import fileset as fm
from vt.props import c01

D = dt.timedelta
ID = "C16"
LEVEL = "exploration"
RULE = ("C01 populations (gaps, overlaps, discrete files, exact ties) under the template grammar; "
        "timestamps inside a file, in a gap, exactly on t0/t1 (+-1 s), before the first / after the "
        "last file, far away (empty neighbourhood), exactly the name of an excluded file; filters. "
        "non-trivial = neighbourhood has >= 2 candidate files and the timestamp is not covered, or the "
        "covering file is not the only candidate; distinct by (layout, timestamp class, options | "
        "population + timestamp)")
ASSUMPTIONS = [
    "oracle: the statement's rule evaluated over the harness' registry of created files",
    "neighbourhood radius r: year 366 d, month 31 d, day 1 d, hour 1 h (one sub-directory period as "
    "typhon documents it), semi-open [t-r, t+r) like find()",
    "timestamps at the resolution of the file names: whole seconds, milliseconds for the millisecond style",
]
MIN_NONTRIVIAL = {"quick": 150, "thorough": 2500}
REQUIRED_COUNTERS = {"closest.calls": 400, "getitem.calls": 100, "closest.none_expected": 10}
SHARD_TIMEOUT = {"quick": 900, "thorough": 7200}


def shards(tier, seed):
    n = 80 if tier == "quick" else 9000
    return [{"kind": "closest", "seed": seed, "shard": i, "n": n} for i in range(16)]


def reader(file_info):
    with open(file_info.path, "rb") as fh:
        return int(fh.read())


def dist(f, t):
    return min(abs(f["t0"] - t), abs(f["t1"] - t))


def gen_timestamps(rng, files, k, ms=False):
    pts = []
    for f in files:
        pts += [f["t0"], f["t1"]]
    if not pts:
        pts = [dt.datetime(2017, 3, 1)]
    out = []
    for _ in range(k):
        c = rng.randrange(8)
        if c == 0:
            t = rng.choice(pts)
        elif c == 1:
            t = rng.choice(pts) + D(seconds=rng.choice([-1, 1]))
        elif c == 2 and files:
            f = rng.choice(files)
            t = f["t0"] + (f["t1"] - f["t0"]) / 2
        elif c == 3:
            t = min(pts) - D(seconds=rng.choice([1, 3600, 86400 * 3, 86400 * 45]))
        elif c == 4:
            t = max(pts) + D(seconds=rng.choice([1, 3600, 86400 * 3, 86400 * 45]))
        elif c == 5:
            t = rng.choice(pts) + D(days=rng.choice([-800, 800, 3000]))  # far away
        elif c == 6 and len(pts) >= 2:
            a, b = rng.sample(pts, 2)
            t = a + (b - a) / 2  # often a gap, possibly an exact tie
        else:
            t = rng.choice(pts) + D(seconds=rng.randint(-90000, 90000))
        out.append(t.replace(microsecond=0) if not ms else
                   t.replace(microsecond=t.microsecond // 1000 * 1000) +
                   D(milliseconds=rng.choice([0, 0, 1, -1, 250, -400])))
    return out


def check_lookup(rec, fs, reg, layout, files, t, filters, names, periods, case, via, shared=None,
                 sub_case=None):
    # the caller keeps one dictionary per filter setting and passes that same object to every search
    # of the case (a loop over timestamps); the oracle works on the harness' own copy
    call_filters = filters
    if filters is not None and shared is not None:
        import copy
        import json
        call_filters, earlier = shared.setdefault(json.dumps(filters, sort_keys=True),
                                                  (copy.deepcopy(filters), []))
        rec.count("closest.shared_filter_dict_calls")
    else:
        earlier = []
    N = fm.neighbourhood(reg, layout, t, filters, names, periods)
    covering = [p for p in N if reg[p]["t0"] <= t <= reg[p]["t1"]]
    # (a replay repeats the earlier searches that were given the same dictionary)
    sub = dict(case, stamps=list(earlier) + [[t.isoformat(), filters, via]])
    earlier.append([t.isoformat(), filters, via])
    if sub_case is not None:
        sub = sub_case
    rec.ev()
    rec.count("closest.calls" if via == "closest" else "getitem.calls")
    got_path, got_none = None, False
    try:
        if via == "closest":
            res = fs.find_closest(t, filters=call_filters)
            if res is None:
                got_none = True
            else:
                got_path = os.fspath(res)
        else:
            res = fs[t] if filters is None else fs[t, call_filters]
            if res is None:
                got_none = True
            else:
                by_id = {f["id"]: p for p, f in reg.items()}
                got_path = by_id.get(res, "<content %r>" % (res,))
    except Exception as exc:
        if type(exc).__name__ == "NoFilesError":
            got_none = True
        else:
            rec.violation("closest-exception", sub, {"exception": repr(exc),
                                                     "trace": traceback.format_exc()[-1200:]})
            return
    if not N:
        rec.count("closest.none_expected")
    detail = None
    if got_none:
        if N:
            detail = {"why": "no file reported although the neighbourhood holds files",
                      "neighbourhood": [os.path.basename(p) for p in N][:5]}
    else:
        if got_path not in reg:
            detail = {"why": "unknown file returned", "got": got_path}
        elif got_path in names or any(reg[got_path]["t0"] <= p1 and reg[got_path]["t1"] >= p0
                                      for p0, p1 in periods):
            detail = {"why": "excluded file returned", "got": os.path.basename(got_path)}
        elif not fm.passes_filters(reg[got_path], layout, filters):
            detail = {"why": "file rejected by the filters returned",
                      "got": os.path.basename(got_path), "filters": filters}
        elif not N:
            detail = {"why": "file returned although the neighbourhood is empty",
                      "got": os.path.basename(got_path)}
        elif covering:
            g = reg[got_path]
            if not (g["t0"] <= t <= g["t1"]):
                detail = {"why": "a covering file exists but a non-covering one was returned",
                          "got": os.path.basename(got_path),
                          "covering": os.path.basename(covering[0])}
        else:
            best = min(dist(reg[p], t) for p in N)
            if got_path not in N:
                detail = {"why": "file outside the neighbourhood returned",
                          "got": os.path.basename(got_path)}
            elif dist(reg[got_path], t) != best:
                detail = {"why": "not a nearest file", "got": os.path.basename(got_path),
                          "got_dist_s": dist(reg[got_path], t).total_seconds(),
                          "best_dist_s": best.total_seconds()}
    if detail is not None:
        key = "closest-excluded-file" if detail["why"] == "excluded file returned" else \
            "closest-wrong-answer"
        rec.violation(key, sub, detail)
    if len(N) >= 2 and (not covering or len(covering) < len(N)):
        cls = "covered" if covering else "gap"
        if not covering:
            ds = sorted(dist(reg[p], t) for p in N)
            if ds[0] == ds[1]:
                cls = "tie"
        rec.nontriv([via, layout.dirs_name, layout.end_style, cls, bool(filters), bool(names),
                     bool(periods)], [case["files"], t.isoformat(), filters, case["excl"]])
        rec.count("closest.nontrivial")


def run_case(rec, case):
    from typhon.files import FileHandler
    layout = fm.layout_from_json(case["layouts"][0])
    files = fm._deser_files(case["files"])
    periods = [(c01.uniso(a), c01.uniso(b)) for a, b in case["excl"]["periods"]]
    base = scratch_dir("c16")
    fs_kw = {}
    if case.get("handler_info") and layout.end_style == "disc":
        # info_via="handler": the names carry the start only, the real coverage (wider) comes from the
        # file handler - the harness' table answers for it
        widen = rng_for(0, "widen", len(files))
        # (a file lasts no longer than one period of the finest directory level - the statement's
        # precondition on the layout)
        cap = layout.max_duration() if layout.finest else dt.timedelta(days=1)
        files = [dict(f, t1=f["t0"] + min(cap, (f["t1"] - f["t0"])
                                          + dt.timedelta(seconds=widen.choice([0, 600, 3600, 7200]))))
                 for f in files]
        if case.get("real_t1"):
            files = [dict(f, t1=dt.datetime.fromisoformat(case["real_t1"][str(f["id"])])) for f in files]
        table = {}

        def info_fn(file_info):
            from typhon.files import FileInfo
            f = table[os.path.abspath(file_info.path)]
            return FileInfo(file_info.path, [f["t0"], f["t1"]], {"sat": f["sat"]} if layout.with_sat else {})
        fs_kw = {"info_via": "handler", "_info": info_fn, "_table": table}
        rec.count("closest.handler_info_filesets")
    try:
        reg = fm.materialise(base, layout, files, rng=rng_for(0, "junk", 0))
        rec.count("population.stray_date_like_directories", fm.LAST["strays"])
        if fs_kw:
            fs_kw.pop("_table").update({os.path.abspath(p): f for p, f in reg.items()})
        by_id = {f["id"]: p for p, f in reg.items()}
        names = [by_id[i] for i in case["excl"]["names_idx"] if i in by_id]
        excl = list(names) + list(periods)
        if case.get("prev_dirs"):
            # object history: the FileSet was built on another directory layout (nothing there), asked
            # once, and then pointed to the real files by assigning its path
            prev = [d for d in fm.DIR_LAYOUTS if d[0] == case["prev_dirs"]][0]
            lay0 = fm.Layout(prev[0], prev[1], prev[2], layout.end_style, with_sat=layout.with_sat,
                             wildcard=False, coverage=layout.coverage)
            fs = fm.make_fileset(base + "/elsewhere", lay0, name="F", exclude=excl or None,
                                 handler=FileHandler(reader=reader, info=fs_kw.pop("_info", None)), **fs_kw)
            try:
                fs.find_closest(dt.datetime(2017, 6, 1))
            except Exception:
                pass
            fs.path = base.rstrip("/") + "/" + layout.template
            rec.count("closest.path_reassigned_filesets")
        else:
            fs = fm.make_fileset(base, layout, name="F", exclude=excl or None,
                                 handler=FileHandler(reader=reader, info=fs_kw.pop("_info", None)), **fs_kw)
        if len(files) % 2 == 0 and not case.get("no_sibling"):
            # object history across two objects: a copy is re-configured (its user placeholder limited to
            # one value, another path - as move() / map(output=...) do with their copies) and searched;
            # the look-ups below go to the original
            try:
                sib = fs.copy()
                if layout.with_sat:
                    sib.set_placeholders(sat="zz-n18-b")
                try:
                    sib.find_closest(dt.datetime(2017, 6, 1))
                except Exception:
                    pass
                sib.path = base.rstrip("/") + "/elsewhere/{year}/{month}/x_{day}{hour}{minute}{second}.bin"
                rec.count("closest.with_reconfigured_copy")
            except Exception as exc:
                rec.violation("closest-exception", case, {"where": "copy() of the fileset re-configured",
                                                          "exception": repr(exc)})
        shared = {}
        # population history: some files (whole new directories among them) arrive while the object is
        # in use - they are held back outside the tree and moved in after the first searches
        late = {p for p, f in reg.items() if f["id"] in set(case.get("late_ids", []))}
        hold = base + "-late"
        for p in late:
            os.renames(p, hold + p[len(base):])
        cur = {p: f for p, f in reg.items() if p not in late} if late else reg
        arrive_at = case.get("late_after", 0)
        stamps = list(case["stamps"])
        lazy = None
        if case.get("lazy_find_open") and layout.with_sat:
            # interleaving on one object: a filtered, unsorted find() is being consumed lazily (one item
            # taken) while the look-ups below run - as in a loop body
            try:
                lazy = fs.find(dt.datetime(2000, 1, 1), dt.datetime(2030, 1, 1), sort=False,
                               filters={"sat": "metop"}, no_files_error=False)
                next(lazy, None)
                rec.count("closest.lazy_filtered_find_open")
            except Exception:
                lazy = None
        if case.get("handler_info") and layout.end_style == "disc" and not case.get("extra_stamps_done"):
            # a direct name hit (timestamp = start of a file), then a timestamp inside the part of that
            # file's real coverage that its name does not show
            wide = [f for f in files if f["t1"] > f["t0"]]
            # preferably files whose real end lies nearer to another file's start than to their own
            wide.sort(key=lambda f: min([abs((g["t0"] - f["t1"]).total_seconds()) for g in files if g is not f]
                                        or [1e18]))
            for f in wide[:4]:
                stamps.append([f["t0"].isoformat(), None, "closest"])
                stamps.append([f["t1"].isoformat(), None, "closest"])
                stamps.append([(f["t1"] - dt.timedelta(seconds=1)).isoformat(), None, "closest"])
            rec.count("closest.direct_hit_then_inside", (len(stamps) - len(case["stamps"])) // 3)
        for idx, (ts, filters, via) in enumerate(stamps):
            if case.get("new_coverage_s") is not None and idx == case.get("new_coverage_after", 0) \
                    and layout.end_style == "cov":
                # object history: the files' duration is re-assigned on the live object after searches
                newc = dt.timedelta(seconds=case["new_coverage_s"])
                fs.time_coverage = newc
                layout.coverage = newc
                for f in files:
                    f["t1"] = f["t0"] + newc
                rec.count("closest.time_coverage_reassigned")
            if late and idx == arrive_at:
                for p in late:
                    os.renames(hold + p[len(base):], p)
                cur = reg
                rec.count("closest.populations_grown_between_searches")
            if filters and not layout.with_sat:
                continue
            check_lookup(rec, fs, cur, layout, files, dt.datetime.fromisoformat(ts), filters,
                         set(names), periods, case, via, shared=shared,
                         sub_case=dict(case, stamps=stamps[:idx + 1], extra_stamps_done=True)
                         if (late or len(stamps) > len(case["stamps"])
                             or case.get("new_coverage_s") is not None) else None)
        if lazy is not None:
            lazy.close()
    finally:
        shutil.rmtree(base, ignore_errors=True)
        shutil.rmtree(base + "-late", ignore_errors=True)


def single_case(rec, rng):
    from typhon.files import FileSet, FileHandler
    base = scratch_dir("c16s")
    try:
        p = base + "/the_one_file.dat"
        open(p, "w").write("77")
        for cov in ((dt.datetime(2017, 1, 1), dt.datetime(2017, 1, 2)), None):
            kw = {} if cov is None else {"time_coverage": cov}
            fs = FileSet(path=p, handler=FileHandler(reader=reader), **kw)
            for t in (dt.datetime(2017, 1, 1, 12), dt.datetime(2017, 1, 1), dt.datetime(2017, 1, 2),
                      dt.datetime(1990, 1, 1), dt.datetime(2050, 1, 1)):
                rec.ev()
                rec.count("single.calls")
                case = {"kind": "single", "t": t.isoformat(), "time_coverage": cov is not None}
                try:
                    got = fs.find_closest(t)
                    content = fs[t]
                except Exception as exc:
                    rec.violation("closest-wrong-answer", case,
                                  {"why": "single-file fileset", "exception": repr(exc)})
                    continue
                if got is None or os.fspath(got) != p or content != 77:
                    rec.violation("closest-wrong-answer", case,
                                  {"why": "single-file fileset", "got": repr(got), "content": repr(content)})
    finally:
        shutil.rmtree(base, ignore_errors=True)


def gen_case(rng):
    layout = fm.random_layout(rng)
    files = fm.random_population(rng, [layout], rng.choice([0, 1, 2, 3, 5, 9, 20]))
    names_idx, periods = [], []
    if files and rng.random() < 0.5:
        names, periods = c01.gen_exclude(rng, {str(f["id"]): f for f in files})
        names_idx = [int(n) for n in names]
    stamps = []
    ts = gen_timestamps(rng, files, rng.choice([8, 16]), ms=layout.end_style == "fullms")
    for t in ts:
        filters = None
        if layout.with_sat and rng.random() < 0.4:
            filters = rng.choice([{"sat": "n18"}, {"sat": ["n18", "metop"]}, {"!sat": "n18"},
                                  {"!sat": ["xn18", "metop"]}, {"sat": "zz-n18-b"}])
        stamps.append([t.isoformat(), filters, "closest" if rng.random() < 0.7 else "getitem"])
    # the exact name of an excluded file (exact-name short cut vs exclusion)
    for i in names_idx[:2]:
        stamps.append([files[i]["t0"].isoformat(), None, "closest"])
    for a, b in periods[:1]:
        for f in files:
            if f["t0"] <= b and f["t1"] >= a:
                stamps.append([f["t0"].isoformat(), None, "closest"])
                break
    case = c01.make_case([layout], files, names_idx, periods, [])
    case["kind"] = "closest"
    case["stamps"] = stamps
    if len(files) >= 2 and len(stamps) >= 4 and rng.random() < 0.3:
        k = rng.randrange(1, len(files))
        case["late_ids"] = sorted(f["id"] for f in rng.sample(files, k))
        case["late_after"] = rng.randrange(1, len(stamps) - 1)
    if layout.end_style == "disc" and rng.random() < 0.6:
        case["handler_info"] = True
    if layout.with_sat and rng.random() < 0.4:
        case["lazy_find_open"] = True
    if rng.random() < 0.25:
        case["prev_dirs"] = rng.choice([d[0] for d in fm.DIR_LAYOUTS
                                        if not any("{sat}" in x or "*" in x for x in d[1])
                                        and d[0] != layout.dirs_name])
    return case


def name_order_case(rng):
    """File names that do not sort chronologically inside a directory (the name starts with the satellite):
    the nearest file sits in the following day's directory behind a lexically earlier, later-starting one."""
    dirs = rng.choice([d for d in fm.DIR_LAYOUTS if d[2] == "day" and not any("{sat}" in x or "*" in x for x in d[1])])
    layout = fm.Layout(dirs[0], dirs[1], dirs[2], rng.choice(["full", "fulldoy", "disc"]), with_sat=True,
                       wildcard=False)
    day = dt.datetime(2017, rng.randrange(1, 13), rng.randrange(2, 27))
    dur = D(0) if layout.end_style == "disc" else D(minutes=rng.choice([0, 10, 50]))
    late = day + D(days=1, hours=rng.choice([15, 18, 22]))
    early = day + D(days=1, hours=rng.choice([1, 6, 9]))
    files = [{"id": 0, "t0": late, "t1": late + dur, "sat": "metop"},
             {"id": 1, "t0": early, "t1": early + dur, "sat": "zz-n18-b"},
             {"id": 2, "t0": day - D(days=2, hours=3), "t1": day - D(days=2, hours=3) + dur, "sat": "n18"}]
    t = day + D(hours=rng.choice([11, 12, 13]))
    case = c01.make_case([layout], files, [], [], [])
    case["kind"] = "closest"
    case["stamps"] = [[t.isoformat(), None, "closest"], [(t + D(minutes=7)).isoformat(), None, "getitem"]]
    return case


def coverage_reassigned_case(rng):
    """Template without end fields: searches, then another time_coverage is assigned to the live object and
    the same timestamps are asked again (a gap becomes covered, or the other way round)."""
    dirs = rng.choice([d for d in fm.DIR_LAYOUTS if d[2] == "day" and not any("{sat}" in x or "*" in x for x in d[1])])
    grow = rng.random() < 0.5
    c0, c1 = (600, 3600) if grow else (3600, 600)
    layout = fm.Layout(dirs[0], dirs[1], dirs[2], "cov", with_sat=rng.random() < 0.5, wildcard=False,
                       coverage=D(seconds=c0))
    day = dt.datetime(2018, rng.randrange(1, 13), rng.randrange(2, 27), rng.choice([0, 5, 13]))
    files = [{"id": k, "t0": day + D(hours=k), "t1": day + D(hours=k, seconds=c0), "sat": "n18"}
             for k in range(3)]
    case = c01.make_case([layout], files, [], [], [])
    case["kind"] = "closest"
    case["no_sibling"] = True
    q = [day + D(minutes=5), day + D(minutes=50), day + D(hours=1, minutes=40)]
    case["stamps"] = [[t.isoformat(), None, "closest"] for t in q] + \
                     [[t.isoformat(), None, via] for t in q for via in ("closest", "getitem")]
    case["new_coverage_s"] = c1
    case["new_coverage_after"] = len(q)
    return case


def handler_coverage_case(rng):
    """Names show the start only, the file handler knows the real (longer) coverage: a direct name hit on
    the long file, then a timestamp late in its coverage that is nearer to the next file's start."""
    dirs = rng.choice([d for d in fm.DIR_LAYOUTS if d[2] == "day" and not any("{sat}" in x or "*" in x for x in d[1])])
    layout = fm.Layout(dirs[0], dirs[1], dirs[2], "disc", with_sat=rng.random() < 0.5, wildcard=False)
    day = dt.datetime(2018, rng.randrange(1, 13), rng.randrange(2, 27))
    a0 = day + D(hours=rng.choice([0, 2]))
    a1 = a0 + D(hours=rng.choice([5, 6]))
    b0 = a1 + D(hours=1)
    files = [{"id": 0, "t0": a0, "t1": a0, "sat": "n18"}, {"id": 1, "t0": b0, "t1": b0, "sat": "n18"},
             {"id": 2, "t0": day + D(days=1, hours=3), "t1": day + D(days=1, hours=3), "sat": "metop"}]
    case = c01.make_case([layout], files, [], [], [])
    case["kind"] = "closest"
    case["handler_info"] = True
    case["extra_stamps_done"] = True
    case["real_t1"] = {"0": a1.isoformat(), "1": (b0 + D(hours=1)).isoformat(),
                       "2": (day + D(days=1, hours=4)).isoformat()}
    case["stamps"] = [[a0.isoformat(), None, "closest"], [(a1 - D(minutes=30)).isoformat(), None, "closest"],
                      [(a1 - D(minutes=20)).isoformat(), None, "getitem"]]
    return case


def run_shard(spec, rec):
    rng = rng_for(spec["seed"], "c16", spec["shard"])
    for _ in range(2):
        run_case(rec, name_order_case(rng))
        rec.count("closest.name_order_cases")
        run_case(rec, handler_coverage_case(rng))
        rec.count("closest.handler_coverage_cases")
        run_case(rec, coverage_reassigned_case(rng_for(spec["seed"], "c16-cov", spec["shard"] * 2 + _)))
    for i in range(spec["n"]):
        case = gen_case(rng)
        if i == 0:
            rec.sample({k: (v if k != "files" else v[:5]) for k, v in case.items()})
        run_case(rec, case)
        if i % 10 == 0:
            single_case(rec, rng)


def replay(case, rec):
    if case.get("kind") == "single":
        return single_case(rec, rng_for(0, "x"))
    run_case(rec, case)
