"""C19 - retrieval scores behave as proper error measures (typhon/retrieval/scores.py).

Runtime monitoring: the real quantile_score / mean_quantile_score / mape / bias are executed on
generated samples; every decision is taken by vt.models.scores_model (longdouble / Fractions).

Where each clause of the statement is decided
  pinball value  tau|d| below, (1-tau)|d| above ........ check_values()  (element-wise, 4 eps)
  non-negative; zero exactly when estimate == observation  check_values() + icontract
                                                          postcondition post_nonneg_zero_iff_equal
  result has shape (n, k) ................................ icontract postcondition post_shape
  minimiser of mean_quantile_score over constants is a
  tau-quantile (order-statistic definition) .............. check_minimiser()
  accepts consistent shapes (n,), (n,1), (n,k) ........... check_values() over SHAPE_COMBOS
  rejects inconsistent shapes with ValueError ............ check_rejects()
  mape/bias = 0 for perfect predictions .................. check_rel("perfect")
  mape = p, bias = +p / -p for uniform offsets ........... check_rel("offset")
  mape/bias ignore the order of the samples .............. check_rel -> permutation
  mape/bias unchanged under common scaling ............... check_rel -> scaling
  all of the above for shapes (n,), (n,1), (n,k) ......... check_rel over REL_SHAPES
"""
import hashlib
import traceback

import numpy as np

from vt.core import np_rng_for
from vt.models import scores_model as M

ID = "C19"
LEVEL = "exploration"
RULE = ("samples of 1..10^4 values from classes normal / ties / heavy (Cauchy, Pareto) / const / "
        "two-valued / sorted / integer dtype x tau in {1e-3, 0.5, 1-1e-3, k/n, uniform} and tau "
        "vectors x shape combinations (n,), (n,1), (n,k); truth vectors of mixed sign without "
        "zeros x offsets p. The minimiser search is exhaustive over the distinct sample values "
        "for n <= 1000, else over the 400 order statistics around tau*n, 300 random sample "
        "values and both extremes. non-trivial = a sample with >= 2 distinct values (pinball: at "
        "least one estimate below and one above its observation); distinct by (class, size "
        "bucket, tau class, shapes | sha1 of the arrays)")
ASSUMPTIONS = [
    "oracle: pinball loss / documented mape and bias formulas evaluated in numpy.longdouble on "
    "the float inputs as given; order-statistic test #{y<c} <= tau*n <= #{y<=c} decided exactly "
    "with Fractions",
    "value tolerance 4 eps*|want|: fl(a-b), fl(1-tau), one product = 3 roundings",
    "minimiser: the binary64 argmin may differ from the exact one only when the exact mean "
    "losses differ by less than the forward error (n+4) eps * mean|y-c| of the summation; "
    "inside that band (counted as minimiser.dont_care) either answer is accepted",
    "mape/bias tolerance (n+6) eps * mean(100(|p|+|t|)/|t|) covers every evaluation order of "
    "the documented formula; offsets: y_pred = fl(y*(1+p/100)) adds 100*2 eps*(1+|p|/100)",
    "`<` vs `<=` in the np.where of quantile_score changes the value only at equality where "
    "both branches are 0: observationally indistinguishable, not claimed",
    "inputs are numpy arrays (as documented); NaN handling of nanmean is not part of the "
    "statement and is not exercised",
]
MIN_NONTRIVIAL = {"quick": 1500, "thorough": 15000}
REQUIRED_COUNTERS = {"quantile_score.value_calls": 500, "minimiser.decided": 500,
                     "reject.calls": 200, "mape.calls": 500, "bias.calls": 500,
                     "contract.quantile_score.post": 500}
SHARD_TIMEOUT = {"quick": 600, "thorough": 5400}

EPS = M.EPS


def shards(tier, seed):
    n = 260 if tier == "quick" else 3500
    return [{"kind": "scores", "seed": seed, "shard": i, "n": n} for i in range(16)]


def sha(*arrs):
    h = hashlib.sha1()
    for a in arrs:
        h.update(np.ascontiguousarray(np.asarray(a, dtype=float)).tobytes())
    return h.hexdigest()[:14]


def bucket(n):
    for b in (1, 2, 3, 10, 100, 1000):
        if n <= b:
            return b
    return 10000


# --------------------------------------------------------------------------
# contracts on the real functions
# --------------------------------------------------------------------------
_installed = {}


def install_contracts(rec):
    import icontract
    from typhon.retrieval import scores
    if _installed:
        _installed["rec"][0] = rec
        return
    holder = [rec]
    _installed["rec"] = holder

    def post_shape(y_tau, y_test, taus, result):
        holder[0].count("contract.quantile_score.post")
        k = np.asarray(taus).size
        return result.shape == (np.asarray(y_tau).size // k, k)

    def post_nonneg_zero_iff_equal(y_tau, y_test, taus, result):
        k = np.asarray(taus).size
        yt = np.asarray(y_tau).reshape(-1, k)
        yo = np.asarray(y_test).reshape(-1, 1)
        if not (np.all(np.isfinite(yt)) and np.all(np.isfinite(yo))):
            return True
        t = np.asarray(taus, dtype=float).reshape(1, -1)
        if not np.all((t > 0) & (t < 1)):
            return True
        eq = np.broadcast_to(yt == yo, result.shape)
        # tau*|d| cannot underflow for the generated magnitudes (|d| >= 1e-290 or 0)
        return bool(np.all(result >= 0) and np.all((result == 0) == eq))

    orig = scores.quantile_score
    wrapped = icontract.ensure(
        post_shape,
        error=lambda y_tau, y_test, taus, result: icontract.ViolationError(
            "quantile_score: result shape %r is not (n, k)" % (result.shape,)))(orig)
    wrapped = icontract.ensure(
        post_nonneg_zero_iff_equal,
        error=lambda y_tau, y_test, taus, result: icontract.ViolationError(
            "quantile_score: negative, or zero-pattern differs from estimate == observation"))(
        wrapped)
    scores.quantile_score = wrapped
    _installed["orig"] = orig


# --------------------------------------------------------------------------
# generators
# --------------------------------------------------------------------------
KINDS = ["normal", "ties", "heavy", "pareto", "const", "two", "sorted", "intdtype", "wide"]
SIZES = [1, 1, 2, 2, 3, 3, 4, 5, 7, 10, 10, 16, 31, 64, 100, 100, 257, 1000, 1000, 3000, 10000]


def gen_sample(rng, kind, n):
    if kind == "normal":
        y = rng.normal(rng.choice([0.0, 5.0, -300.0]), rng.choice([1e-3, 1.0, 50.0]), n)
    elif kind == "ties":
        y = rng.integers(-3, 4, n).astype(float) * rng.choice([1.0, 0.5, 1e6])
    elif kind == "heavy":
        y = rng.standard_cauchy(n) * rng.choice([1.0, 1e3])
        y = np.clip(y, -1e12, 1e12)
    elif kind == "pareto":
        y = rng.pareto(0.7, n) + 1e-3
        y = np.clip(y, 0, 1e12)
    elif kind == "const":
        y = np.full(n, float(rng.choice([0.0, 1.5, -7.0, 1e9])))
    elif kind == "two":
        a, b = rng.normal(0, 10, 2)
        y = np.where(rng.random(n) < rng.choice([0.1, 0.5, 0.9]), a, b)
    elif kind == "sorted":
        y = np.sort(rng.normal(0, 3, n))
        if rng.random() < 0.5:
            y = y[::-1].copy()
    elif kind == "intdtype":
        y = rng.integers(-1000, 1000, n)
    else:  # wide: many orders of magnitude, both signs
        y = rng.choice([-1.0, 1.0], n) * 10.0 ** rng.uniform(-8, 8, n)
    return y


def gen_tau(rng, n):
    c = rng.integers(0, 8)
    if c == 0:
        return float(rng.choice([1e-3, 4e-4, 1e-6, 3e-9])), "lo"
    if c == 1:
        return 0.5, "half"
    if c == 2:
        return 1 - float(rng.choice([1e-3, 4e-4, 1e-6, 3e-9])), "hi"
    if c == 3:  # tau*n an exact integer (dyadic tau): flat stretch of the loss
        k = 2 ** int(rng.integers(1, 6))
        return float(rng.integers(1, k)) / k, "dyadic"
    if c == 4:  # k/n: tau*n numerically next to an integer
        k = int(rng.integers(1, max(2, n)))
        t = k / max(n, 2)
        if not 0 < t < 1:
            t = 0.25
        return t, "k/n"
    return float(rng.uniform(0.01, 0.99)), "unif"


# --------------------------------------------------------------------------
# quantile_score: values, shapes
# --------------------------------------------------------------------------
def shape_arrays(y_tau2d, y_test1d, taus1d, combo):
    """combo = (tau-estimate shape, observation shape, taus form)."""
    st, so, sq = combo
    n, k = y_tau2d.shape
    if st == "n":
        yt = y_tau2d.reshape(n)           # only for k == 1
    elif st == "n1":
        yt = y_tau2d.reshape(n, 1)        # only for k == 1
    else:
        yt = y_tau2d
    yo = y_test1d if so == "n" else y_test1d.reshape(n, 1)
    if sq == "float":
        tq = float(taus1d[0])             # only for k == 1
    elif sq == "0d":
        tq = np.asarray(taus1d[0])        # only for k == 1
    elif sq == "list":
        tq = [float(t) for t in taus1d]
    else:
        tq = np.asarray(taus1d)
    return yt, yo, tq


def combos_for(k):
    out = []
    for st in (("n", "n1", "nk") if k == 1 else ("nk",)):
        for so in ("n", "n1"):
            for sq in (("float", "0d", "list", "array") if k == 1 else ("list", "array")):
                out.append((st, so, sq))
    return out


def check_values(rec, case):
    """Element-wise pinball value, sign and zero pattern, shape acceptance."""
    from typhon.retrieval import scores
    y_tau = np.asarray(case["y_tau"], dtype=case.get("dtype", "float64"))
    y_test = np.asarray(case["y_test"], dtype=case.get("dtype", "float64"))
    taus = np.asarray(case["taus"], dtype=float)
    n, k = len(y_test), len(taus)
    y_tau = y_tau.reshape(n, k)
    if case.get("mixed"):
        with np.errstate(over="ignore"):
            y32 = y_tau.astype(np.float32)
        if np.isfinite(y32).all():
            y_tau = y32          # the estimates are these single-precision values
            rec.count("quantile_score.mixed_precision_calls")
    combo = tuple(case["combo"])
    yt, yo, tq = shape_arrays(y_tau, y_test, taus, combo)
    rec.ev()
    rec.count("quantile_score.value_calls")
    rec.setadd("shape_combos", list(combo))
    try:
        got = scores.quantile_score(yt, yo, tq)
    except Exception as exc:
        key = "quantile-score-contract" if "ViolationError" in type(exc).__name__ \
            else "quantile-score-rejects-consistent-shapes"
        rec.violation(key, shrink_values(case, None),
                      {"exception": repr(exc)[:400], "combo": combo,
                       "trace": traceback.format_exc()[-600:]})
        return
    want = M.pinball(y_tau, y_test, taus)
    got = np.asarray(got)
    if got.shape != (n, k):
        rec.violation("quantile-score-shape", shrink_values(case, None),
                      {"got_shape": list(got.shape), "want_shape": [n, k]})
        return
    wf = want.astype(float)
    bad = ~(np.abs(got.astype(M.LD) - want) <= 4 * EPS * np.abs(want))
    bad |= got < 0
    bad |= (got == 0) != (y_tau.astype(M.LD) == y_test.astype(M.LD).reshape(-1, 1))
    rec.count("quantile_score.elements", int(got.size))
    d = y_tau.astype(M.LD) - y_test.astype(M.LD).reshape(-1, 1)
    nb, na, ne = int((d < 0).sum()), int((d > 0).sum()), int((d == 0).sum())
    rec.count("quantile_score.below", nb)
    rec.count("quantile_score.above", na)
    rec.count("quantile_score.equal", ne)
    if bad.any():
        i, j = [int(v) for v in np.argwhere(bad)[0]]
        dd = float(d[i, j])
        key = "pinball-value"
        # mechanism: which branch disagrees
        sub = shrink_values(case, (i, j))
        rec.violation(key, sub, {"i": i, "j": j, "d": dd, "tau": float(taus[j]),
                                 "got": float(got[i, j]), "want": float(wf[i, j]),
                                 "side": "below" if dd < 0 else "above" if dd > 0 else "equal"})
        return
    # the mean over the samples, one value per tau (also for a single sample with several taus)
    rec.ev()
    rec.count("mean_quantile_score.value_calls")
    try:
        mq = np.asarray(scores.mean_quantile_score(yt, yo, tq))
    except Exception as exc:
        rec.violation("mean-quantile-score-exception", shrink_values(case, None),
                      {"exception": repr(exc)[:300], "combo": combo})
        return
    wantm = want.sum(axis=0) / M.LD(n)
    if mq.size != k:
        rec.violation("mean-quantile-score-shape", shrink_values(case, None),
                      {"got_shape": list(mq.shape), "n": n, "k": k})
        return
    badm = ~(np.abs(mq.reshape(-1).astype(M.LD) - wantm) <= (n + 4) * EPS * np.abs(wantm))
    if badm.any():
        j = int(np.argmax(badm))
        rec.violation("mean-quantile-score-value", shrink_values(case, None),
                      {"tau": float(taus[j]), "got": float(mq.reshape(-1)[j]), "want": float(wantm[j]),
                       "n": n, "k": k})
        return
    if n == 1 and k > 1:
        rec.count("mean_quantile_score.single_sample_many_taus")
    if nb and na:
        rec.nontriv(["value", case.get("kind"), bucket(n), k, list(combo)],
                    sha(y_tau, y_test, taus))


def shrink_values(case, ij):
    if ij is None:
        n = len(case["y_test"])
        k = len(case["taus"])
        keep = min(n, 3)
        yt = np.asarray(case["y_tau"]).reshape(n, k)[:keep]
        return dict(case, sub="values", y_tau=yt.tolist(),
                    y_test=np.asarray(case["y_test"])[:keep].tolist())
    i, j = ij
    n = len(case["y_test"])
    k = len(case["taus"])
    yt = np.asarray(case["y_tau"]).reshape(n, k)
    return {"sub": "values", "kind": case.get("kind"), "dtype": case.get("dtype", "float64"),
            "mixed": case.get("mixed"),
            "y_tau": [[yt[i, j].item()]], "y_test": [np.asarray(case["y_test"])[i].item()],
            "taus": [float(case["taus"][j])], "combo": ["nk", "n", "array"]}


def check_rejects(rec, case):
    """Inconsistent shapes must raise ValueError (nothing else, and no result)."""
    from typhon.retrieval import scores
    n, k, how = case["n"], case["k"], case["how"]
    rng = np.random.default_rng(case["s"])
    taus = np.sort(rng.uniform(0.05, 0.95, k))
    y_tau = rng.normal(size=(n, k))
    if how == "test_longer":
        y_test = rng.normal(size=n + case["extra"])
    elif how == "test_shorter":
        y_test = rng.normal(size=max(0, n - case["extra"]))
        if y_test.size == n:
            return
    elif how == "test_nk":          # k > 1: observations given once per quantile
        y_test = rng.normal(size=(n, k))
    elif how == "test_2col":
        y_test = rng.normal(size=(n, 2))
    else:                           # tau_ragged: size of y_tau is not a multiple of k
        y_tau = rng.normal(size=n * k + 1 + (case["extra"] % max(1, k - 1)))
        if y_tau.size % k == 0:
            return
        y_test = rng.normal(size=y_tau.size // k)
    _reject_one(rec, case, how, y_tau, y_test, taus)
    # widths that differ although one of them is 1 (numpy would broadcast them): several estimate columns
    # for a single fraction, one estimate column for several fractions
    k2 = max(2, k)
    one = np.array([0.3]) if case["s"] % 2 else 0.3
    _reject_one(rec, case, "est_wide_one_tau", rng.normal(size=(n, k2)), rng.normal(size=n), one)
    narrow = rng.normal(size=n) if case["s"] % 2 else rng.normal(size=(n, 1))
    _reject_one(rec, case, "est_narrow_many_taus", narrow, rng.normal(size=n),
                np.sort(rng.uniform(0.05, 0.95, k2)))


def _reject_one(rec, case, how, y_tau, y_test, taus):
    from typhon.retrieval import scores
    n, k = case["n"], case["k"]
    rec.ev()
    rec.count("reject.calls")
    rec.setadd("reject_classes", how)
    try:
        res = scores.quantile_score(y_tau, y_test, taus)
    except ValueError:
        rec.nontriv(["reject", how, bucket(n), k], [n, k, case["extra"], case["s"]])
        return
    except Exception as exc:
        rec.violation("quantile-score-wrong-exception", dict(case, sub="reject", how=how),
                      {"exception": repr(exc)[:300]})
        return
    rec.violation("quantile-score-accepts-inconsistent-shapes", dict(case, sub="reject", how=how),
                  {"y_tau": list(np.shape(y_tau)), "y_test": list(np.shape(y_test)),
                   "taus": int(np.size(taus)), "result_shape": list(np.shape(res))})


# --------------------------------------------------------------------------
# minimiser of the mean pinball loss is a tau-quantile
# --------------------------------------------------------------------------
def candidates(rng, ys, tau):
    uniq = np.unique(ys)
    if len(ys) <= 1000:
        return uniq, True
    n = len(ys)
    k = int(tau * n)
    lo, hi = max(0, k - 200), min(n, k + 200)
    pick = np.concatenate([ys[lo:hi], rng.choice(ys, 300), ys[:1], ys[-1:]])
    return np.unique(pick), False


def check_minimiser(rec, case):
    from typhon.retrieval import scores
    y = np.asarray(case["y"], dtype=case.get("dtype", "float64"))
    taus = [float(t) for t in case["taus"]]
    n = len(y)
    ys = np.sort(y.astype(float))
    rng = np.random.default_rng(case.get("s", 0))
    for tau in taus:
        cand, exhaustive = candidates(rng, ys, tau)
        # one real call evaluates a block of constant estimates: column j = constant cand[j]
        block = max(1, int(500_000 // n))
        losses = np.empty(len(cand))
        ok = True
        for b in range(0, len(cand), block):
            cc = cand[b:b + block]
            y_tau = np.broadcast_to(cc.reshape(1, -1), (n, len(cc))).copy()
            tt = np.full(len(cc), tau)
            rec.ev()
            rec.count("minimiser.calls")
            try:
                res = scores.mean_quantile_score(y_tau, y, tt if len(cc) > 1 or case.get(
                    "vec", True) else tau)
                if np.size(res) != len(cc):
                    raise ValueError("result has %d values for %d taus" % (np.size(res), len(cc)))
                losses[b:b + len(cc)] = np.asarray(res).reshape(-1)
            except Exception as exc:
                rec.violation("mean-quantile-score-exception", shrink_min(case, tau),
                              {"exception": repr(exc)[:300], "tau": tau})
                ok = False
                break
        if not ok:
            continue
        rec.count("minimiser.candidates", len(cand))
        if exhaustive:
            rec.count("minimiser.exhaustive")
        # mean loss itself against the model (all terms >= 0: summation error <= n eps)
        j0 = int(rng.integers(0, len(cand)))
        ref = float(M.mean_pinball_const(y, cand[j0], tau))
        if not abs(losses[j0] - ref) <= (n + 4) * EPS * abs(ref):
            rec.violation("mean-quantile-score-value", shrink_min(case, tau),
                          {"c": float(cand[j0]), "tau": tau, "got": float(losses[j0]),
                           "want": ref})
            continue
        best = float(np.min(losses))
        arg = cand[losses == best]
        q = M.a_tau_quantile(ys, tau)
        lq = M.mean_pinball_const(y, q, tau)
        band = (n + 4) * EPS
        decided = True
        for c in arg:
            isq, lo, hi = M.is_tau_quantile(ys, c, tau)
            if isq:
                continue
            lc = M.mean_pinball_const(y, c, tau)
            scale = float(np.mean(np.abs(ys.astype(M.LD) - M.LD(c))))
            if float(lc - lq) <= 2 * band * scale:
                rec.count("minimiser.dont_care")
                decided = False
                continue
            rec.violation("minimiser-not-tau-quantile", shrink_min(case, tau),
                          {"tau": tau, "n": n, "minimiser": float(c), "count_below": lo,
                           "count_le": hi, "tau_n": tau * n, "a_tau_quantile": float(q),
                           "loss_at_minimiser": float(lc), "loss_at_quantile": float(lq)})
            decided = False
            break
        if decided:
            rec.count("minimiser.decided")
        if len(np.unique(ys)) >= 2:
            rec.nontriv(["minimiser", case.get("kind"), bucket(n), case.get("taukind", {}).get(
                repr(tau), "?"), bool(exhaustive)], [sha(y), tau])


def _min_fails(y, tau):
    """Used only for shrinking: does the (exhaustive) minimiser test fail on this sample?"""
    from typhon.retrieval import scores
    ys = np.sort(np.asarray(y, dtype=float))
    n = len(ys)
    cand = np.unique(ys)
    try:
        y_tau = np.broadcast_to(cand.reshape(1, -1), (n, len(cand))).copy()
        losses = np.asarray(scores.mean_quantile_score(
            y_tau, np.asarray(y, dtype=float), np.full(len(cand), tau))).reshape(-1)
    except Exception:
        return True
    best = losses.min()
    q = M.a_tau_quantile(ys, tau)
    lq = M.mean_pinball_const(ys, q, tau)
    for c in cand[losses == best]:
        if M.is_tau_quantile(ys, c, tau)[0]:
            continue
        lc = M.mean_pinball_const(ys, c, tau)
        scale = float(np.mean(np.abs(ys - c)))
        if float(lc - lq) > 2 * (n + 4) * EPS * scale:
            return True
    return False


def shrink_min(case, tau):
    y = list(np.asarray(case["y"], dtype=float).tolist())
    if len(y) <= 1000:
        # greedy halving, then element removal, while the failure persists
        for _ in range(40):
            if len(y) <= 3:
                break
            h = len(y) // 2
            for part in (y[:h], y[h:], y[::2], y[1::2]):
                if len(part) >= 1 and _min_fails(part, tau):
                    y = part
                    break
            else:
                break
        i = 0
        while i < len(y) and len(y) > 1 and len(y) <= 64:
            part = y[:i] + y[i + 1:]
            if _min_fails(part, tau):
                y = part
            else:
                i += 1
    if len(y) > 200:
        return {"sub": "regen", "seed": case.get("seed"), "shard": case.get("shard"),
                "i": case.get("i"), "only": "minimiser"}
    return {"sub": "minimiser", "kind": case.get("kind"), "y": y, "taus": [tau], "s": 0}


# --------------------------------------------------------------------------
# mape / bias
# --------------------------------------------------------------------------
REL_SHAPES = ["n|n", "n1|n1", "nk|nk", "n1|n", "n|n1"]


def reshape_rel(a, shp, kcols):
    n = a.size
    if shp == "n":
        return a.reshape(n)
    if shp == "n1":
        return a.reshape(n, 1)
    return a.reshape(n // kcols, kcols)


def call_rel(fn, yp, yt, shapes, kcols):
    sp, st = shapes.split("|")
    return fn(reshape_rel(yp, sp, kcols), reshape_rel(yt, st, kcols))


def check_rel(rec, case):
    """One truth vector; perfect / +p / -p predictions; permutation; scaling; shapes."""
    from typhon.retrieval import scores
    yt = np.asarray(case["y_test"], dtype=float)
    n = yt.size
    p = float(case["p"])
    shapes = case["shapes"]
    kcols = int(case.get("kcols", 1))
    mode = case["mode"]          # perfect | high | low | free
    if mode == "perfect":
        yp = yt.copy()
        claim = {"mape": 0.0, "bias": 0.0}
    elif mode == "high":
        yp = yt * (1 + p / 100)
        claim = {"mape": p, "bias": p}
    elif mode == "low":
        yp = yt * (1 - p / 100)
        claim = {"mape": p, "bias": -p}
    else:
        yp = np.asarray(case["y_pred"], dtype=float)
        claim = None
    perm = np.random.default_rng(case.get("s", 0)).permutation(n)
    if "nk" in shapes:
        # permute whole samples; with (n, k) arrays every element is a sample
        pass
    scale = float(case["scale"])
    for name, fn, ref in (("mape", scores.mape, M.mape_ref), ("bias", scores.bias, M.bias_ref)):
        if case.get("only_fn") and case["only_fn"] != name:
            continue
        want, terms = ref(yp, yt)
        want = float(want)
        tol = M.rel_tol_terms(yp, yt, n)
        results = {}
        for what, a, b in (("plain", yp, yt), ("perm", yp[perm], yt[perm]),
                           ("scaled", yp * scale, yt * scale)):
            rec.ev()
            rec.count(name + ".calls")
            try:
                r = call_rel(fn, a, b, shapes, kcols)
                r = float(np.asarray(r).reshape(-1)[0]) if np.size(r) == 1 else r
            except Exception as exc:
                r = exc
            results[what] = r
        if shapes == "nk|nk" and kcols > 1:
            # same values, other memory layouts: Fortran-ordered prediction against C-ordered truth and
            # a strided (every second row of a larger buffer) truth
            A, B = reshape_rel(yp, "nk", kcols), reshape_rel(yt, "nk", kcols)
            big = np.zeros((2 * B.shape[0], kcols))
            big[::2] = B
            for what, a, b in (("fortran-pred", np.asfortranarray(A), B), ("strided-truth", A, big[::2])):
                rec.ev()
                rec.count(name + ".layout_calls")
                try:
                    r = fn(a, b)
                    r = float(np.asarray(r).reshape(-1)[0]) if np.size(r) == 1 else r
                except Exception as exc:
                    r = exc
                results[what] = r
        bad = None
        for what, r in results.items():
            if isinstance(r, Exception):
                bad = (what, "exception", repr(r)[:200])
                break
            if not np.isscalar(r):
                bad = (what, "not-a-scalar", list(np.shape(r)))
                break
            # scaled inputs carry one more rounding each: |p-t| is perturbed by eps(|p|+|t|)
            t = tol * (3 if what == "scaled" else 1)
            if not abs(r - want) <= t:
                bad = (what, "value", {"got": r, "want": want, "tol": t})
                break
        if bad is None and claim is not None:
            c = claim[name]
            tc = tol + 100 * 2 * EPS * (1 + abs(p) / 100)
            if not abs(results["plain"] - c) <= tc:
                bad = ("plain", "claim", {"got": results["plain"], "claimed": c, "tol": tc})
        if bad is not None:
            key = classify_rel(name, fn, yp, yt, shapes, kcols, want, tol)
            rec.violation(key, shrink_rel(case, name, fn, key),
                          {"function": name, "which": bad[0], "why": bad[1], "info": bad[2],
                           "shapes": shapes, "mode": mode, "p": p})
            continue
        rec.count(name + ".decided")
        if n >= 2 and len(np.unique(yt)) >= 2:
            rec.nontriv([name, mode, shapes, bucket(n), case.get("kind")],
                        [sha(yp, yt), p, scale])
    # input form: prediction and truth stored as narrow integers (counts, digital numbers); predictions
    # exactly 50 percent too high / too low
    if np.all(yt == np.rint(yt)) and np.all(np.abs(yt) <= 4) and np.all(yt != 0) and not case.get("only_fn"):
        for dtype, unit in ((np.int8, 10), (np.int16, 1000), (np.int32, 10 ** 8)):
            ti = (np.rint(yt) * unit).astype(dtype)
            for sign, label in ((1, "high"), (-1, "low")):
                pi = (ti + sign * (ti // 2)).astype(dtype)
                for name, fn, claimed in (("mape", scores.mape, 50.0), ("bias", scores.bias, 50.0 * sign)):
                    rec.ev()
                    rec.count(name + ".narrow_integer_calls")
                    try:
                        r = float(np.asarray(fn(pi, ti)).reshape(-1)[0])
                    except Exception as exc:
                        r = exc
                    if isinstance(r, Exception) or not abs(r - claimed) <= 1e-9:
                        rec.violation(name + "-formula", dict(case, sub="rel", narrow=str(np.dtype(dtype))),
                                      {"function": name, "why": "narrow integer arrays, predictions 50 percent " + label,
                                       "dtype": str(np.dtype(dtype)), "got": repr(r), "claimed": claimed,
                                       "truth": ti[:4].tolist(), "prediction": pi[:4].tolist()})
                        return


def classify_rel(name, fn, yp, yt, shapes, kcols, want, tol):
    """Mechanism: does the documented value come out for plain (n,) vectors?  If so the
    disagreement is caused by the array shapes (broadcasting), otherwise by the formula."""
    try:
        r = float(fn(yp.reshape(-1), yt.reshape(-1)))
        flat_ok = abs(r - want) <= tol
    except Exception:
        flat_ok = False
    if not flat_ok:
        return name + "-formula"
    return name + "-broadcast" if shapes != "n|n" else name + "-value"


def shrink_rel(case, name, fn, key):
    """Smallest prefix of the truth vector that still gives the same mechanism."""
    yt = np.asarray(case["y_test"], dtype=float)
    kcols = int(case.get("kcols", 1))
    for m in (1, 2, 3, 4, 6, 8, 16):
        if m >= yt.size or m % kcols:
            continue
        sub = dict(case, y_test=yt[:m].tolist(), only_fn=name, sub="rel")
        if case["mode"] == "free":
            sub["y_pred"] = np.asarray(case["y_pred"], dtype=float)[:m].tolist()
        from vt.core import Recorder
        probe = Recorder("C19", {})
        check_rel(probe, sub)
        if any(v["key"] == key for v in probe.violations):
            return {k: v for k, v in sub.items() if k not in ("seed", "shard", "i")}
    if yt.size > 200:
        return {"sub": "regen", "seed": case.get("seed"), "shard": case.get("shard"),
                "i": case.get("i"), "only": "rel"}
    return dict(case, only_fn=name, sub="rel")


# --------------------------------------------------------------------------
# case generation / driver
# --------------------------------------------------------------------------
def gen_case(seed, shard, i):
    rng = np_rng_for(seed, "c19", shard, i)
    kind = KINDS[int(rng.integers(0, len(KINDS)))]
    n = int(SIZES[int(rng.integers(0, len(SIZES)))])
    y = gen_sample(rng, kind, n)
    dtype = "int64" if kind == "intdtype" else "float64"
    out = {"seed": seed, "shard": shard, "i": i, "kind": kind, "n": n}
    # -- minimiser --------------------------------------------------------
    taus, tk = [], {}
    for _ in range(int(rng.choice([1, 1, 2, 3]))):
        t, k = gen_tau(rng, n)
        taus.append(t)
        tk[repr(t)] = k
    out["minimiser"] = {"kind": kind, "y": y, "dtype": dtype, "taus": taus, "taukind": tk,
                        "s": int(rng.integers(0, 2 ** 31)), "seed": seed, "shard": shard, "i": i}
    # -- values -------------------------------------------------------------
    nv = min(n, 2000)
    k = int(rng.choice([1, 1, 1, 2, 3, 5, 9]))
    vt = np.sort(rng.uniform(0.001, 0.999, k))
    if rng.random() < 0.3:
        vt[0] = rng.choice([1e-3, 0.5, 1 - 1e-3, 2e-5, 1 - 2e-5, 1e-9, 1 - 1e-9])
        vt = np.sort(vt)
    yo = y[:nv]
    if dtype == "int64":
        est = yo.reshape(-1, 1) + rng.integers(-3, 4, (nv, k))
    else:
        est = yo.reshape(-1, 1) + rng.normal(0, 1, (nv, k)) * (np.abs(yo).reshape(-1, 1) + 1) \
            * rng.choice([1e-9, 1e-2, 1.0])
        eqmask = rng.random((nv, k)) < 0.15         # estimate == observation
        est = np.where(eqmask, yo.reshape(-1, 1), est)
    combos = combos_for(k)
    combo = combos[int(rng.integers(0, len(combos)))]
    out["values"] = {"kind": kind, "dtype": dtype, "y_tau": est, "y_test": yo, "taus": vt,
                     "combo": list(combo)}
    if dtype == "float64" and i % 4 == 1:
        # estimates in single precision (a network's output) scored against float64 observations
        out["values"]["mixed"] = True
    # -- rejects ------------------------------------------------------------
    hows = ["test_longer", "test_shorter", "tau_ragged", "test_2col"]
    kk = int(rng.choice([1, 2, 3, 4, 7]))
    if kk > 1:
        hows.append("test_nk")
    nn = int(rng.choice([1, 2, 3, 5, 10, 100]))
    how = hows[int(rng.integers(0, len(hows)))]
    if how == "tau_ragged" and kk == 1:
        how = "test_longer"
    if how == "test_2col" and (nn == 0):
        how = "test_longer"
    out["reject"] = {"n": nn, "k": kk, "how": how, "extra": int(rng.integers(1, 4)),
                     "s": int(rng.integers(0, 2 ** 31))}
    # -- mape / bias --------------------------------------------------------
    nr = min(n, 5000)
    mag = 10.0 ** rng.uniform(-3, 3, nr) if kind in ("wide", "heavy", "pareto") else \
        np.abs(rng.normal(5, 3, nr)) + 0.1
    if kind == "const":
        mag = np.full(nr, float(rng.uniform(0.5, 9)))
    if kind in ("ties", "intdtype", "two"):
        mag = rng.integers(1, 5, nr).astype(float)
    sign = rng.choice([-1.0, 1.0], nr) if rng.random() < 0.6 else np.ones(nr)
    truth = sign * mag
    if i % 5 == 2 and kind not in ("ties", "intdtype", "two", "const"):
        # one truth vector whose magnitudes span 24 decades (trace-gas amounts next to column totals)
        truth = truth * 10.0 ** (((np.arange(nr) * 7) % 25) - 12.0)
    shapes = REL_SHAPES[int(rng.integers(0, len(REL_SHAPES)))]
    kcols = 1
    if shapes == "nk|nk":
        divs = [d for d in (2, 3, 4, 5, 8) if nr % d == 0 and nr // d >= 1]
        if divs:
            kcols = int(rng.choice(divs))
        else:
            shapes = "n|n"
    mode = ["perfect", "high", "low", "free"][int(rng.integers(0, 4))]
    p = float(rng.choice([0.0, 1e-6, 0.5, 1.0, 10.0, 25.0, 50.0, 99.0, 100.0, 150.0, 300.0,
                          float(rng.uniform(0, 200))]))
    if mode in ("high", "low") and p == 0.0:
        p = 12.5
    # incl. scales that bring the truth down to ppb/ppt magnitudes (<= 1e-8) and up to 1e12
    sc = float(rng.choice([2.0, 0.5, -1.0, 3.0, 1e-5, 1e7, -0.3, float(rng.uniform(0.1, 10)),
                           1e-9, 1e-12, -1e-15, 1e12]))
    rel = {"kind": kind, "y_test": truth, "p": p, "shapes": shapes, "kcols": kcols,
           "mode": mode, "scale": sc, "s": int(rng.integers(0, 2 ** 31)),
           "seed": seed, "shard": shard, "i": i}
    if mode == "free":
        rel["y_pred"] = truth * (1 + rng.normal(0, 0.3, nr))
    out["rel"] = rel
    return out


def run_case(rec, c, only=None):
    if only in (None, "values"):
        check_values(rec, c["values"])
        check_history(rec, c)
    if only in (None, "reject"):
        check_rejects(rec, c["reject"])
    if only in (None, "minimiser"):
        check_minimiser(rec, c["minimiser"])
    if only in (None, "rel"):
        check_rel(rec, c["rel"])


def check_history(rec, c):
    """Call histories on caller-owned buffers (see vt/monitors/history.py)."""
    from typhon.retrieval import scores
    from vt.monitors import history
    v = c["values"]
    y_test = np.asarray(v["y_test"], dtype=float)
    taus = np.asarray(v["taus"], dtype=float)
    n, k = len(y_test), len(taus)
    y_tau = np.asarray(v["y_tau"], dtype=float).reshape(n, k)
    r = c["rel"]
    yt = np.asarray(r["y_test"], dtype=float)
    yp = yt * 1.1 if r["mode"] != "free" else np.asarray(r["y_pred"], dtype=float)
    for name, fn, args in (("quantile_score", scores.quantile_score, (y_tau, y_test, taus)),
                           ("mean_quantile_score", scores.mean_quantile_score, (y_tau, y_test, taus)),
                           ("mape", scores.mape, (yp, yt)), ("bias", scores.bias, (yp, yt))):
        rec.ev()
        # taus stay as they are (a reversed tau vector with a reversed y_tau is another valid input, but
        # reversing rows only keeps the case simple): pass taus as a tuple so that it is not updated
        a = tuple(x if i != 2 else tuple(x.tolist()) for i, x in enumerate(args))
        verdict, detail = history.reuse_check(fn, a)
        rec.count("history.reuse_" + verdict.replace("/", ""))
        if verdict == "stale":
            rec.violation("stale-state", {"sub": "regen", "seed": c.get("seed"), "shard": c.get("shard"),
                                          "i": c.get("i"), "only": "values"},
                          dict(detail, function=name))


FIXED = [
    # fixed small witnesses, driven every run
    {"sub": "rel", "y_test": [1.0, 2.0, 4.0], "p": 10.0, "shapes": "n|n", "kcols": 1,
     "mode": "high", "scale": 2.0, "s": 1, "kind": "fixed"},
    {"sub": "rel", "y_test": [1.0, 2.0, 4.0], "p": 0.0, "shapes": "n1|n1", "kcols": 1,
     "mode": "perfect", "scale": 2.0, "s": 1, "kind": "fixed"},
    {"sub": "rel", "y_test": [1.0, -2.0, 4.0, 5.0], "p": 20.0, "shapes": "n1|n", "kcols": 1,
     "mode": "low", "scale": -1.0, "s": 1, "kind": "fixed"},
    {"sub": "minimiser", "kind": "fixed", "y": [1.0, 2.0, 3.0, 4.0, 5.0, 6.0, 7.0, 8.0, 9.0, 10.0],
     "taus": [0.1, 0.25, 0.9], "s": 0},
    {"sub": "values", "kind": "fixed", "y_tau": [[0.0], [2.0], [1.0]], "y_test": [1.0, 1.0, 1.0],
     "taus": [0.25], "combo": ["n1", "n", "float"]},
]


def run_shard(spec, rec):
    install_contracts(rec)
    if spec["shard"] == 0:
        for case in FIXED:
            replay(case, rec)
    for i in range(spec["n"]):
        c = gen_case(spec["seed"], spec["shard"], i)
        if i < 1:
            rec.sample({"kind": c["kind"], "n": c["n"], "taus": c["minimiser"]["taus"],
                        "values_combo": c["values"]["combo"], "reject": c["reject"],
                        "rel": {k: v for k, v in c["rel"].items()
                                if k not in ("y_test", "y_pred")}})
        run_case(rec, c)


def replay(case, rec):
    install_contracts(rec)
    sub = case.get("sub")
    if sub == "regen":
        c = gen_case(case["seed"], case["shard"], case["i"])
        run_case(rec, c, case.get("only"))
    elif sub == "values":
        check_values(rec, case)
    elif sub == "reject":
        check_rejects(rec, case)
    elif sub == "minimiser":
        check_minimiser(rec, case)
    elif sub == "rel":
        check_rel(rec, case)
    else:
        rec.inconc("unknown replay case %r" % (sub,))
