"""C15 - the file-info cache survives restarts and interrupted saves.

Clauses and where decided
  * save_cache -> load_cache / constructor restores path, times (us) and attributes    roundtrip_case
  * ... across interpreter restarts through the constructor + atexit registration     restart_case
  * find() gives the same answers with or without the cache                            find_case
  * interrupted save: previously saved cache still complete and loadable
      - in-process: InjectedFault at every file-system event of save_cache (audit hook), at every
        executed line (sys.monitoring failpoint), after every k-th write() of json.dump
        (module-global open() of typhon.files.fileset shadowed by a proxy)              fault_cases
      - real crashes: strace injects SIGKILL at the N-th openat/write/close/rename that touches
        <cache>.backup or <cache>; a fresh interpreter then inspects the file            kill_cases
      - ordering (strace log of an uninjected save): the cache path is never opened for writing,
        the backup is closed before the one rename(backup -> cache)                    kill_cases
  * missing / unreadable / malformed cache file: warning + empty cache, no exception,
    no invented entries                                                                 corrupt_cases
"""
import datetime as dt
import json
import os
import shutil
import subprocess
import sys
import traceback
import warnings

from vt.core import rng_for, scratch_dir
from vt.monitors import audit, lineprobe

D = dt.timedelta
ID = "C15"
LEVEL = "fault_enumeration"
RULE = ("cache contents: 0-2000 entries, user attributes (str/int/float/nested/unicode), times incl. "
        "datetime.min/max, years 1/999/1000, microseconds 1 and 999999. Crash points: every audit fs event, "
        "every executed line of save_cache, every k-th write() call (stride for big documents), and real "
        "SIGKILLs at the N-th openat/write/close/rename syscall on the backup/cache path (strace). Corruption: "
        "truncation at byte offsets, wrong JSON types, missing keys, bad time strings, directory in place of "
        "the file. non-trivial = a crash/fault point actually reached with a non-empty previous cache, or a "
        "round trip with >= 1 boundary time; distinct by (kind, site | contents seed)")
ASSUMPTIONS = [
    "after a crash the cache file may be the OLD complete document or (once the rename happened) the NEW "
    "complete document - anything else (truncated, mixed, unparsable) is a violation",
    "the harness runs as root: an unreadable file cannot be produced with permissions; a directory in place "
    "of the cache file is used instead",
    "a missing cache file: the statement lists it among the warned cases, the code is silent -> recorded as "
    "open known finding 'missing-cache-no-warning' (benign), only 'no exception, empty cache' is demanded",
    "kill = SIGKILL of the process (OS buffers survive), not power loss",
]
MIN_NONTRIVIAL = {"quick": 300, "thorough": 3000}
REQUIRED_COUNTERS = {"roundtrip.entries": 1000, "fault.audit.fired": 20, "fault.line.fired": 50,
                     "fault.write.fired": 50, "kill.points": 5, "corrupt.cases": 100,
                     "restart.runs": 2, "restart.reset_runs": 1, "find.with_cache": 10}
SHARD_TIMEOUT = {"quick": 900, "thorough": 7200}

BOUNDARY_TIMES = [
    dt.datetime.min, dt.datetime.max, dt.datetime(1, 1, 1, 0, 0, 0, 1),
    dt.datetime(999, 12, 31, 23, 59, 59, 999999), dt.datetime(1000, 1, 1),
    dt.datetime(99, 5, 5, 5, 5, 5, 5), dt.datetime(2016, 2, 29, 23, 59, 59, 999999),
    dt.datetime(2017, 1, 1, 0, 0, 0, 1), dt.datetime(9999, 1, 1),
]


def shards(tier, seed):
    q = tier == "quick"
    out = []
    for i in range(4):
        out.append({"kind": "roundtrip", "seed": seed, "shard": i, "n": 40 if q else 3000})
    for i in range(3):
        out.append({"kind": "faults", "seed": seed, "shard": i, "n": 3 if q else 100})
    for i in range(2):
        out.append({"kind": "corrupt", "seed": seed, "shard": i, "n": 4 if q else 200})
    nk = 6 if q else 16
    for i in range(nk):
        out.append({"kind": "kill", "seed": seed, "shard": i, "of": nk, "n": 1 if q else 0})
    return out


# ---------------------------------------------------------------------------
def gen_entries(rng, n, boundary=True):
    out = []
    for i in range(n):
        if boundary and rng.random() < 0.25:
            t0 = rng.choice(BOUNDARY_TIMES)
        else:
            t0 = dt.datetime(2000, 1, 1) + D(seconds=rng.randint(0, 10 ** 9),
                                            microseconds=rng.choice([0, 0, 1, 999999,
                                                                     rng.randint(0, 999999)]))
        if rng.random() < 0.2:
            t1 = dt.datetime.max if t0 == dt.datetime.min else t0
        else:
            try:
                t1 = t0 + D(seconds=rng.randint(0, 10 ** 6), microseconds=rng.choice([0, 1, 999999]))
            except OverflowError:
                t1 = t0
        attr = {}
        for _ in range(rng.choice([0, 0, 1, 2, 4])):
            k = rng.choice(["sat", "orbit", "v", "note", "näme", "x y"])
            attr[k] = rng.choice(["noaa18", "", "☃ snow", 42, -1, 3.5, True, None,
                                  [1, 2, "a"], {"a": {"b": 1}}, "q\"uote\\back", "line\nbreak"])
        # (incl. a name whose bytes are not valid UTF-8: python carries it as a lone surrogate)
        out.append({"path": "/data/%s/f%05d_%d.nc" % (rng.choice(["a", "b b", "ü", "caf\udce9"]), i,
                                                       rng.randrange(10 ** 6)),
                    "t0": t0, "t1": t1, "attr": attr})
    return out


def ser(entries):
    return [[e["path"], e["t0"].isoformat(), e["t1"].isoformat(), e["attr"]] for e in entries]


def deser(rows):
    return [{"path": p, "t0": dt.datetime.fromisoformat(a), "t1": dt.datetime.fromisoformat(b),
             "attr": at} for p, a, b, at in rows]


_STUB = {}


_FAIL = set()


class InfoUnavailable(OSError):
    """The harness' handler cannot read this file right now."""


def _stub_info(file_info):
    """Harness handler: the information of a file comes from the harness' own table."""
    from typhon.files import FileInfo
    if file_info.path in _FAIL:
        raise InfoUnavailable("harness: cannot read " + file_info.path)
    e = _STUB[file_info.path]
    return FileInfo(file_info.path, [e["t0"], e["t1"]], json.loads(json.dumps(e["attr"])))


def new_fileset(cache=None, **kw):
    from typhon.files import FileSet, FileHandler
    return FileSet(path="/vt-nonexistent/{year}/{month}/{day}/f_{hour}{minute}{second}.nc",
                   info_cache=cache, handler=FileHandler(info=_stub_info), info_via="handler", **kw)


def fill(fs, entries):
    """Populate the cache through the public route (FileSet.get_info with info_via='handler'),
    not by writing into info_cache - so that any bookkeeping typhon does on that route is exercised."""
    for e in entries:
        _STUB[e["path"]] = e
        fs.get_info(e["path"])
    missing = [e["path"] for e in entries if e["path"] not in fs.info_cache]
    if missing:
        raise AssertionError("get_info did not cache %r" % missing[:2])


def compare_cache(cache, entries):
    """None if cache == entries else a description of the first difference."""
    want = {e["path"]: e for e in entries}
    if set(cache) != set(want):
        return {"why": "paths differ", "missing": sorted(set(want) - set(cache))[:3],
                "extra": sorted(set(cache) - set(want))[:3], "n": [len(cache), len(want)]}
    for p, info in cache.items():
        e = want[p]
        if info.path != p or list(info.times) != [e["t0"], e["t1"]]:
            return {"why": "times differ", "path": p, "got": [str(t) for t in info.times],
                    "want": [str(e["t0"]), str(e["t1"])]}
        if info.attr != e["attr"]:
            return {"why": "attributes differ", "path": p, "got": info.attr, "want": e["attr"]}
    return None


def load_fresh(path, expect_warning=False):
    """Constructor path of a fresh FileSet; returns (cache dict, list of warnings, exception)."""
    with warnings.catch_warnings(record=True) as w:
        warnings.simplefilter("always")
        try:
            fs = new_fileset(cache=path)
        except Exception as exc:
            return None, [str(x.message) for x in w], exc
    import atexit
    from typhon.files import FileSet
    try:
        atexit.unregister(FileSet.save_cache)  # the harness' throw-away filesets must not save at exit
    except Exception:
        pass
    return fs.info_cache, [str(x.message) for x in w if "cache" in str(x.message).lower()], None


# ---------------------------------------------------------------------------
def roundtrip_case(rec, rng, entries, via):
    root = scratch_dir("c15")
    case = {"kind": "roundtrip", "entries": ser(entries), "via": via}
    try:
        path = os.path.join(root, "cache.json")
        fs = new_fileset()
        fill(fs, entries)
        rec.ev()
        try:
            fs.save_cache(path)
        except Exception as exc:
            rec.violation("cache-roundtrip", case, {"where": "save_cache", "exception": repr(exc)})
            return
        if not os.path.exists(path):
            if entries:
                rec.violation("cache-roundtrip", case, {"why": "save_cache() wrote no cache file",
                                                        "n_entries": len(entries)})
            else:
                rec.count("observed.empty_cache_not_written")
            return
        if sorted(os.listdir(root)) != ["cache.json"]:
            rec.violation("cache-debris", case, {"left": os.listdir(root)})
        if via == "load":
            fs2 = new_fileset()
            with warnings.catch_warnings(record=True) as w:
                warnings.simplefilter("always")
                fs2.load_cache(path)
            cache, warns = fs2.info_cache, [str(x.message) for x in w]
        else:
            cache, warns, exc = load_fresh(path)
            if exc is not None:
                rec.violation("cache-roundtrip", case, {"where": "constructor", "exception": repr(exc)})
                return
        diff = compare_cache(cache, entries)
        if diff or warns:
            rec.violation("cache-roundtrip", case, dict(diff or {}, warnings=[x[:200] for x in warns]))
        elif via == "load" and entries:
            # call history on the loading object: the cache is emptied (reset_cache / time_coverage set
            # anew) and the unchanged file is loaded once more
            for how in ("reset_cache", "time_coverage"):
                if how == "reset_cache":
                    fs2.reset_cache()
                else:
                    fs2.time_coverage = dt.timedelta(hours=3)
                with warnings.catch_warnings(record=True) as w:
                    warnings.simplefilter("always")
                    fs2.load_cache(path)
                d2 = compare_cache(fs2.info_cache, entries)
                w2 = [str(x.message) for x in w]
                rec.count("roundtrip.reload_after_reset")
                if d2 or w2:
                    rec.violation("cache-roundtrip", dict(case, history="load, %s, load again" % how),
                                  dict(d2 or {}, warnings=[x[:200] for x in w2]))
                    break
        rec.count("roundtrip.entries", len(entries))
        has_boundary = any(e["t0"] in BOUNDARY_TIMES or e["t0"].microsecond in (1, 999999)
                           for e in entries)
        if has_boundary:
            rec.nontriv(["roundtrip", via, len(entries) > 100], ser(entries)[:20])
        # call history on the saving object: save to a second file, and save again after the first
        # file was removed / truncated - every save_cache() must (re)write a complete document
        for how in ("second-file", "removed", "truncated"):
            target = path
            if how == "second-file":
                target = os.path.join(root, "cacheB.json")
            elif how == "removed":
                os.remove(path)
            else:
                with open(path, "r+b") as fh:
                    fh.truncate(max(0, os.path.getsize(path) // 2))
            try:
                fs.save_cache(target)
                c2, w2, e2 = load_fresh(target)
            except Exception as exc:
                rec.violation("cache-roundtrip", dict(case, history=how),
                              {"where": "save_cache again", "exception": repr(exc)})
                break
            d2 = compare_cache(c2 or {}, entries) if e2 is None else {"exception": repr(e2)}
            if d2 or w2:
                rec.violation("cache-roundtrip", dict(case, history=how),
                              dict(d2 or {}, why2="save_cache() after '%s' did not restore the cache" % how,
                                   warnings=[x[:150] for x in w2]))
                break
            rec.count("roundtrip.resave_histories")
        # call history: the cached entries of the live object change at the same paths (the time
        # coverage of the fileset is set anew - which empties the cache -, or a cached FileInfo is
        # corrected in place) and the cache is saved again: the file holds the entries as they are now
        if entries:
            for how in ("time_coverage set, files seen again", "times corrected in place"):
                shifted = [dict(e, t0=e["t0"], t1=min(e["t1"] + dt.timedelta(hours=5, microseconds=7),
                                                       dt.datetime.max)
                                if e["t1"] < dt.datetime.max - dt.timedelta(days=1) else e["t1"])
                           for e in entries]
                try:
                    if how.startswith("time_coverage"):
                        fs.time_coverage = dt.timedelta(hours=6)
                        if fs.info_cache:
                            rec.violation("cache-find", dict(case, history=how),
                                          {"why": "cache not reset when time_coverage changes"})
                            break
                        fill(fs, shifted)
                    else:
                        fill(fs, entries)
                        for e in shifted:
                            fs.info_cache[e["path"]].times = [e["t0"], e["t1"]]
                    fs.save_cache(path)
                    c2, w2, e2 = load_fresh(path)
                except Exception as exc:
                    rec.violation("cache-roundtrip", dict(case, history=how),
                                  {"where": "save_cache after entries changed", "exception": repr(exc)})
                    break
                finally:
                    for e in entries:
                        _STUB[e["path"]] = e
                d2 = compare_cache(c2 or {}, shifted) if e2 is None else {"exception": repr(e2)}
                if d2 or w2:
                    rec.violation("cache-roundtrip", dict(case, history=how),
                                  dict(d2 or {}, why2="second save_cache() after '%s' does not hold the "
                                                      "current entries" % how,
                                       warnings=[x[:150] for x in w2]))
                    break
                rec.count("roundtrip.resave_after_change")
            fs = new_fileset()
            fill(fs, entries)
            fs.save_cache(path)
        # call history: the information of one file cannot be retrieved (the handler fails), the caller
        # catches that and carries on; the cache is saved; later the file is readable and saved again
        if len(entries) >= 2:
            fsf = new_fileset()
            fill(fsf, entries[:-1])
            last = entries[-1]
            _STUB[last["path"]] = last
            _FAIL.add(last["path"])
            try:
                try:
                    fsf.get_info(last["path"])
                    rec.count("observed.failing_handler_did_not_raise")
                except InfoUnavailable:
                    pass
                finally:
                    _FAIL.discard(last["path"])
                pf = os.path.join(root, "cacheF.json")
                fsf.save_cache(pf)
                cF, wF, eF = load_fresh(pf)
                have = dict(cF or {})
                have.pop(last["path"], None)          # (absent, or present: judged below)
                dF = compare_cache(have, entries[:-1]) if eF is None else {"exception": repr(eF)}
                if not dF and cF and last["path"] in cF:
                    dF = compare_cache({last["path"]: cF[last["path"]]}, [last])
                fsf.get_info(last["path"])
                fsf.save_cache(pf)
                cG, wG, eG = load_fresh(pf)
                dG = compare_cache(cG or {}, entries) if eG is None else {"exception": repr(eG)}
                rec.count("roundtrip.save_after_failed_get_info")
                if dF or wF or dG or wG:
                    rec.violation("cache-roundtrip", dict(case, history="get_info failed for one file, save, "
                                                                        "retry, save"),
                                  dict(dF or dG or {}, warnings=[x[:150] for x in (wF + wG)]))
            except Exception as exc:
                rec.violation("cache-roundtrip", dict(case, history="get_info failed for one file, then save"),
                              {"where": "save_cache after a failed get_info", "exception": repr(exc)})
        # second generation: save what was loaded, must be a fixed point
        fs3 = new_fileset()
        fill(fs3, [{"path": p_, "t0": i_.times[0], "t1": i_.times[1], "attr": i_.attr}
                   for p_, i_ in cache.items()])
        fs3.save_cache(path + "2")
        if not os.path.exists(path + "2") or not os.path.exists(path):
            if cache:
                rec.violation("cache-roundtrip", case, {"why": "save_cache() of a loaded cache wrote no file"})
        elif open(path).read() != open(path + "2").read():
            d1 = json.load(open(path))
            d2 = json.load(open(path + "2"))
            if d1 != d2:
                rec.violation("cache-roundtrip", case, {"why": "save(load(save(x))) != save(x)"})
    finally:
        shutil.rmtree(root, ignore_errors=True)


def shrink_roundtrip(rec, entries, via):
    """Report single failing entries instead of a 500-entry case."""
    from vt.core import Recorder
    for e in entries:
        r2 = Recorder("C15", {})
        roundtrip_case(r2, None, [e], via)
        if r2.violations:
            v = r2.violations[0]
            key = "cache-early-year" if e["t0"].year < 1000 or e["t1"].year < 1000 else v["key"]
            rec.violation(key, v["case"], v["detail"])
            return True
    return False


def find_case(rec, rng):
    """find() with an empty cache, with a warm cache and with a cache loaded from file."""
    from vt.models import fileset as fm
    from vt.props import c01
    layout = fm.random_layout(rng, end_style=rng.choice(["full", "hms", "cov"]))
    files = fm.random_population(rng, [layout], rng.choice([3, 8, 20]))
    root = scratch_dir("c15f")
    case = {"kind": "find", "layout": fm.layout_to_json(layout), "files": fm._ser_files(files)}
    try:
        reg = fm.materialise(root + "/tree", layout, files)
        cpath = root + "/cache.json"
        fs = fm.make_fileset(root + "/tree", layout, name="c")
        qs = c01.gen_queries(rng, files, layout, 6)
        first = []
        for q in qs:
            q = dict(q, filters=None, bundle=None, only_path=False)
            s, e = c01.uniso(q["start"]), c01.uniso(q["end"])
            first.append([f.path for f in fs.find(s, e, no_files_error=False)])
        fs.save_cache(cpath)
        cache, warns, exc = load_fresh(cpath)
        fs2 = fm.make_fileset(root + "/tree", layout, name="c2")
        fs2.info_cache.update(cache or {})
        n_cached = len(fs2.info_cache)
        for q, a in zip(qs, first):
            s, e = c01.uniso(q["start"]), c01.uniso(q["end"])
            want = fm.visible(reg, layout, s or dt.datetime.min, e or dt.datetime.max)
            rec.ev()
            rec.count("find.with_cache")
            got = [f.path for f in fs2.find(s, e, no_files_error=False)]
            if sorted(got) != sorted(want) or sorted(a) != sorted(want):
                rec.violation("cache-find", dict(case, query=q),
                              {"with_cache": len(got), "without": len(a), "model": len(want)})
        if files and n_cached:
            rec.nontriv(["find", layout.dirs_name, layout.end_style], case["files"])
        # a changed time_coverage must not be answered from stale cache entries
        if layout.end_style == "cov":
            fs2.time_coverage = D(seconds=1)
            if fs2.info_cache:
                rec.violation("cache-find", case, {"why": "cache not reset when time_coverage changes"})
    finally:
        shutil.rmtree(root, ignore_errors=True)


CHILD = r'''
import sys, json, datetime as dt, warnings
warnings.simplefilter("ignore")
sys.path.insert(0, %(home)r)
from vt.props import c15
mode, cache, rows = sys.argv[1], sys.argv[2], sys.argv[3]
if mode == "save":          # populate and save explicitly (strace target)
    fs = c15.new_fileset()
    c15.fill(fs, c15.deser(json.load(open(rows))))
    print("READY", flush=True)
    fs.save_cache(cache)
    print("SAVED", flush=True)
elif mode == "atexit":      # constructor registers the save; exit by the given route
    fs = c15.new_fileset(cache=cache)
    c15.fill(fs, c15.deser(json.load(open(rows))))
    route = sys.argv[4]
    if len(sys.argv) > 5:   # the live object drops its cache, then caches other entries
        fs.reset_cache()
        c15.fill(fs, c15.deser(json.load(open(sys.argv[5]))))
    if route == "exception":
        raise RuntimeError("uncaught")
    if route == "sysexit":
        sys.exit(3)
elif mode == "dump":        # fresh interpreter: what does a new FileSet see?
    with warnings.catch_warnings(record=True) as w:
        warnings.simplefilter("always")
        try:
            fs = c15.new_fileset(cache=cache)
            out = {"entries": [[p, i.times[0].isoformat(), i.times[1].isoformat(), i.attr]
                               for p, i in fs.info_cache.items()],
                   "warnings": [str(x.message)[:200] for x in w if "cache" in str(x.message).lower()],
                   "exception": None}
        except Exception as exc:
            out = {"entries": None, "warnings": [], "exception": repr(exc)}
    import atexit
    from typhon.files import FileSet
    atexit.unregister(FileSet.save_cache)
    print("DUMP " + json.dumps(out), flush=True)
'''


C_LOCALE = {"LC_ALL": "C", "LANG": "C", "PYTHONUTF8": "0", "PYTHONCOERCECLOCALE": "0"}


def child(root, *args, strace=None, timeout=120, env=None, cwd=None):
    script = os.path.join(root, "child.py")
    if not os.path.exists(script):
        with open(script, "w") as fh:
            fh.write(CHILD % {"home": os.environ.get("VT_HOME", "/verif")})
    cmd = [sys.executable, "-X", "faulthandler", script] + list(args)
    if strace:
        cmd = strace + cmd
    try:
        return subprocess.run(cmd, capture_output=True, text=True, timeout=timeout, cwd=cwd,
                              env=None if env is None else dict(os.environ, **env))
    except subprocess.TimeoutExpired:
        return None


def dump_fresh(root, cache, env=None, cwd=None):
    r = child(root, "dump", cache, "-", env=env, cwd=cwd)
    if r is None:
        return None
    for line in r.stdout.splitlines():
        if line.startswith("DUMP "):
            return json.loads(line[5:])
    return {"entries": None, "warnings": [], "exception": "child died: " + r.stderr[-500:]}


def restart_case(rec, rng, reset=None, relative=None):
    root = scratch_dir("c15r")
    try:
        cache = os.path.join(root, "cache.json")
        gen1 = gen_entries(rng, rng.choice([1, 5, 60]))
        gen2 = gen_entries(rng, rng.choice([1, 5, 60]))
        if reset is None:
            reset = rng.random() < 0.5
        gen3 = gen_entries(rng, rng.choice([1, 5, 60])) if reset else None
        cwd = None
        if relative or (relative is None and len(gen1) == 5):
            # the cache file is named without a directory (info_cache="cache.json") and every run starts in
            # the same working directory
            cache, cwd = "cache.json", root
            rec.count("restart.bare_relative_cache_name")
        # every other restart runs in processes whose locale encoding is not UTF-8
        loc = C_LOCALE if rng.random() < 0.5 else None
        if loc:
            rec.count("restart.c_locale_runs")
        for g, route in ((gen1, "normal"), (gen2, rng.choice(["exception", "sysexit"]))):
            rows = os.path.join(root, "rows.json")
            json.dump(ser(g), open(rows, "w"))
            extra = []
            if reset and g is gen2:
                # second run: loads gen1 from the file, caches gen2, reset_cache(), caches gen3, exits
                rows3 = os.path.join(root, "rows3.json")
                json.dump(ser(gen3), open(rows3, "w"))
                extra = [rows3]
                rec.count("restart.reset_runs")
            r = child(root, "atexit", cache, rows, route, *extra, env=loc, cwd=cwd)
            rec.ev()
            rec.count("restart.runs")
            if r is None:
                rec.inconc("restart child timed out")
                return
        d = dump_fresh(root, cache, env=loc, cwd=cwd)
        if reset:
            want = {e["path"]: e for e in gen3}
        else:
            want = {e["path"]: e for e in gen1}
            want.update({e["path"]: e for e in gen2})
        case = {"kind": "restart", "reset": reset, "relative": bool(cwd), "gen1": ser(gen1)[:5], "gen2": ser(gen2)[:5]}
        if d is None or d["exception"] or d["entries"] is None:
            rec.violation("cache-restart", case, {"dump": d})
            return
        got = {p: (a, b, at) for p, a, b, at in d["entries"]}
        exp = {p: (e["t0"].isoformat(), e["t1"].isoformat(), e["attr"]) for p, e in want.items()}
        if got != exp or d["warnings"]:
            rec.violation("cache-restart", case,
                          {"n_got": len(got), "n_want": len(exp), "warnings": d["warnings"][:2]})
        else:
            rec.nontriv(["restart", reset], [ser(gen1)[:3], ser(gen2)[:3]])
    finally:
        shutil.rmtree(root, ignore_errors=True)


# ---------------------------------------------------------------------------
# in-process fault enumeration
# ---------------------------------------------------------------------------
class WriteProxy:
    def __init__(self, fh, box):
        self._fh, self._box = fh, box

    def write(self, data):
        self._box["writes"] += 1
        if self._box["fail_at"] is not None and self._box["writes"] == self._box["fail_at"]:
            self._box["fired"] = True
            raise audit.InjectedFault("write #%d" % self._box["writes"])
        return self._fh.write(data)

    def __enter__(self):
        self._fh.__enter__()
        return self

    def __exit__(self, *a):
        return self._fh.__exit__(*a)

    def __getattr__(self, name):
        return getattr(self._fh, name)


def check_after_fault(rec, case, root, cache, old_bytes, old_entries, new_entries, what):
    names = sorted(os.listdir(root))
    now = open(cache, "rb").read() if os.path.exists(cache) else None
    if now != old_bytes:
        # the only other acceptable state: the complete new document
        ok = False
        if now is not None:
            try:
                doc = json.loads(now)
                ok = sorted(d["path"] for d in doc) == sorted(e["path"] for e in new_entries)
            except Exception:
                ok = False
        if not ok:
            rec.violation("cache-crash-consistency", case,
                          {"why": "cache file neither the old nor the complete new document", "after": what,
                           "old_len": None if old_bytes is None else len(old_bytes),
                           "now_len": None if now is None else len(now), "dir": names})
            return
        expect = new_entries
    else:
        expect = old_entries
    loaded, warns, exc = load_fresh(cache)
    if exc is not None:
        rec.violation("cache-crash-consistency", case, {"why": "constructor raised after a crash",
                                                        "after": what, "exception": repr(exc)})
        return
    if old_bytes is not None or now is not None:
        diff = compare_cache(loaded, expect)
        if diff or warns:
            rec.violation("cache-crash-consistency", case, dict(diff or {}, after=what,
                                                                warnings=[w[:150] for w in warns]))


def fault_cases(rec, rng):
    import typhon.files.fileset as fsmod
    n_old = rng.choice([0, 1, 3, 40])
    n_new = rng.choice([1, 3, 40, 400])
    old_entries = gen_entries(rng, n_old, boundary=False)
    new_entries = gen_entries(rng, n_new, boundary=False)
    case0 = {"kind": "fault", "old": ser(old_entries)[:3], "n_old": n_old, "new": ser(new_entries)[:3],
             "n_new": n_new, "eseed": rng.randrange(10 ** 9)}
    save_code = fsmod.FileSet.save_cache.__code__

    def fresh_dir():
        root = scratch_dir("c15x")
        cache = os.path.join(root, "cache.json")
        old_bytes = None
        if n_old or rng.random() < 0.5:
            fs0 = new_fileset()
            fill(fs0, old_entries)
            fs0.save_cache(cache)
            if os.path.exists(cache):
                old_bytes = open(cache, "rb").read()
            elif old_entries:
                rec.violation("cache-roundtrip", case0, {"why": "save_cache() wrote no file"})
        fs = new_fileset()
        fill(fs, new_entries)
        return root, cache, old_bytes, fs

    # golden run: events, lines, number of write() calls
    root, cache, old_bytes, fs = fresh_dir()
    box = {"writes": 0, "fail_at": None, "fired": False}
    real_open = open

    def proxy_open(*a, **kw):
        return WriteProxy(real_open(*a, **kw), box)
    try:
        with audit.Trace([root]) as tr, lineprobe.LineRecorder([save_code]) as lr:
            fsmod.open = proxy_open
            try:
                fs.save_cache(cache)
            finally:
                del fsmod.open
        events = list(tr.events)
        lines = sorted(set(l for _, l in lr.trace))
        n_writes = box["writes"]
        # ordering monitor on the golden trace
        kinds = [(k, os.path.basename(p), m, None if s is None else os.path.basename(s))
                 for k, p, m, s in events]
        opened_w = [e for e in kinds if e[0] == "open" and e[2] and any(c in e[2] for c in "wxa+")]
        if any(e[1] == "cache.json" for e in opened_w):
            rec.violation("cache-write-order", case0, {"why": "cache file itself opened for writing",
                                                       "events": kinds})
        renames = [e for e in kinds if e[0] in ("rename", "move") and e[3] == "cache.json"]
        if not renames:
            rec.violation("cache-write-order", case0, {"why": "no rename onto the cache file",
                                                       "events": kinds})
        rec.count("golden.events", len(events))
        rec.count("golden.writes", n_writes)
    finally:
        shutil.rmtree(root, ignore_errors=True)
    rec.sample({"fault_golden": {"events": [list(map(str, e)) for e in kinds], "lines": lines,
                                 "write_calls": n_writes, "n_old": n_old, "n_new": n_new}})

    def one(kind, site):
        root, cache, old_bytes, fs = fresh_dir()
        case = dict(case0, fault=[kind, site])
        box.update(writes=0, fail_at=None, fired=False)
        fired = False
        rec.ev()
        try:
            try:
                if kind == "audit":
                    with audit.Trace([root], fault_at=site,
                                     fault_filter=lambda k, p, a: k in ("open", "rename", "move",
                                                                        "remove")) as tr:
                        fs.save_cache(cache)
                    fired = tr.fired is not None
                elif kind == "line":
                    with lineprobe.Failpoint([save_code], "save_cache", site, 1,
                                             audit.InjectedFault("line %d" % site)) as fp:
                        fs.save_cache(cache)
                    fired = fp.fired
                else:
                    box["fail_at"] = site
                    fsmod.open = proxy_open
                    try:
                        fs.save_cache(cache)
                    finally:
                        del fsmod.open
                    fired = box["fired"]
            except audit.InjectedFault:
                fired = True
            except Exception as exc:
                rec.violation("cache-crash-consistency", case,
                              {"why": "unexpected exception", "exception": repr(exc),
                               "trace": traceback.format_exc()[-800:]})
                return
            rec.count("fault.%s.%s" % (kind, "fired" if fired else "not_reached"))
            check_after_fault(rec, case, root, cache, old_bytes, old_entries, new_entries,
                              "%s fault at %s" % (kind, site))
            if fired and old_bytes is not None and n_old:
                rec.nontriv(["fault", kind, n_old > 3, n_new > 40], [kind, site, case0["eseed"]])
            # history continues: a later complete save must work and load
            if fired:
                try:
                    fs.save_cache(cache)
                    loaded, warns, exc = load_fresh(cache)
                    diff = compare_cache(loaded or {}, new_entries)
                    if exc or diff or warns:
                        rec.violation("cache-crash-consistency", case,
                                      {"why": "save after an interrupted save does not load",
                                       "diff": diff, "exception": repr(exc)})
                except Exception as exc:
                    rec.violation("cache-crash-consistency", case,
                                  {"why": "save after an interrupted save raised", "exception": repr(exc)})
        finally:
            shutil.rmtree(root, ignore_errors=True)

    n_ev = len([e for e in events if e[0] in ("open", "rename", "move", "remove")])
    for k in range(n_ev):
        one("audit", k)
    for line in lines:
        one("line", line)
    stride = max(1, n_writes // 60)
    for k in sorted(set(list(range(1, n_writes + 1, stride)) + [1, 2, n_writes - 1, n_writes])):
        if 1 <= k <= n_writes:
            one("write", k)


# ---------------------------------------------------------------------------
# real kills through strace
# ---------------------------------------------------------------------------
SYSCALLS = "openat,open,creat,write,close,rename,renameat,renameat2,unlink,unlinkat"


def strace_cmd(log, cache, inject=None):
    cmd = ["strace", "-f", "-qq", "-o", log, "-P", cache + ".backup", "-P", cache,
           "-e", "trace=" + SYSCALLS]
    if inject:
        cmd += ["-e", "inject=%s:signal=SIGKILL:when=%d" % inject]
    return cmd


def parse_strace(log):
    calls = []
    for line in open(log, errors="replace"):
        parts = line.split(None, 1)
        if len(parts) < 2:
            continue
        rest = parts[1]
        name = rest.split("(", 1)[0].strip()
        if name in SYSCALLS.split(","):
            calls.append((name, rest.strip()[:160]))
    return calls


def kill_cases(rec, rng, spec):
    if shutil.which("strace") is None:
        rec.inconc("strace not available")
        return
    size = [30, 300, 1500][spec["shard"] % 3] if spec["n"] == 0 else 300
    old_entries = gen_entries(rng_for(spec["seed"], "kill-old", size), 25, boundary=False)
    new_entries = gen_entries(rng_for(spec["seed"], "kill-new", size), size, boundary=False)
    root = scratch_dir("c15k")
    try:
        rows_old, rows_new = root + "/old.json", root + "/new.json"
        json.dump(ser(old_entries), open(rows_old, "w"))
        json.dump(ser(new_entries), open(rows_new, "w"))
        master = root + "/master.json"
        fs0 = new_fileset()
        fill(fs0, old_entries)
        fs0.save_cache(master)
        old_bytes = open(master, "rb").read()
        # golden, uninjected run
        gdir = root + "/g"
        os.mkdir(gdir)
        cache = gdir + "/cache.json"
        shutil.copy(master, cache)
        log = gdir + "/strace.log"
        r = child(root, "save", cache, rows_new, strace=strace_cmd(log, cache))
        if r is None or "SAVED" not in r.stdout:
            rec.inconc("golden strace run failed: %s" % (None if r is None else r.stderr[-300:]))
            return
        calls = parse_strace(log)
        new_bytes = open(cache, "rb").read()
        per = {}
        for name, _ in calls:
            per[name] = per.get(name, 0) + 1
        rec.count("kill.golden_syscalls", len(calls))
        # ordering on the golden log: backup closed before the rename, cache never opened for writing
        names = [c[0] for c in calls]
        ren = [i for i, c in enumerate(calls) if c[0].startswith("rename")]
        opens_w = [c for c in calls if c[0] in ("openat", "open", "creat") and "cache.json\"" in c[1]
                   and ("O_WRONLY" in c[1] or "O_RDWR" in c[1])]
        case0 = {"kind": "kill", "size": size, "seed": spec["seed"]}
        if opens_w:
            rec.violation("cache-write-order", case0, {"why": "cache path opened for writing",
                                                       "call": opens_w[0][1]})
        if len(ren) != 1:
            rec.violation("cache-write-order", case0, {"why": "expected exactly one rename",
                                                       "calls": [c[1] for c in calls][-6:]})
        else:
            closes_before = [i for i, c in enumerate(calls) if c[0] == "close" and i < ren[0]]
            writes_after_last_close = [i for i, c in enumerate(calls)
                                       if c[0] == "write" and closes_before and i > closes_before[-1]
                                       and i < ren[0]]
            if not closes_before or writes_after_last_close:
                rec.violation("cache-write-order", case0,
                              {"why": "backup not closed (or still written) before the rename",
                               "tail": [c[1] for c in calls][-6:]})
        rec.sample({"kill_golden": {"per_syscall": per, "doc_bytes": len(new_bytes),
                                    "tail": [c[1][:80] for c in calls][-4:]}})
        # the list of crash points
        points = []
        for name, cnt in sorted(per.items()):
            for k in range(1, cnt + 1):
                points.append((name, k))
        mine = [p for i, p in enumerate(points) if i % spec["of"] == spec["shard"]]
        rec.count("kill.points_total", len(points) if spec["shard"] == 0 else 0)
        for name, k in mine:
            d = "%s/k_%s_%d" % (root, name, k)
            os.mkdir(d)
            cache = d + "/cache.json"
            shutil.copy(master, cache)
            log = d + "/strace.log"
            r = child(root, "save", cache, rows_new, strace=strace_cmd(log, cache, (name, k)))
            rec.ev()
            case = dict(case0, point=[name, k])
            if r is None:
                rec.inconc("kill child timed out at %s #%d" % (name, k))
                continue
            killed = "SAVED" not in r.stdout
            rec.count("kill.points")
            rec.count("kill.killed" if killed else "kill.survived")
            now = open(cache, "rb").read() if os.path.exists(cache) else None
            state = "old" if now == old_bytes else "new" if now == new_bytes else "other"
            rec.setadd("kill.states", [name, state])
            if state == "other":
                rec.violation("cache-crash-consistency", case,
                              {"why": "after SIGKILL the cache file is neither the old nor the complete new document",
                               "now_len": None if now is None else len(now), "old_len": len(old_bytes),
                               "new_len": len(new_bytes), "dir": sorted(os.listdir(d))})
                continue
            expect = old_entries if state == "old" else new_entries
            if (name, k) == mine[0]:
                # once per shard through a really fresh interpreter, otherwise a fresh FileSet
                dumped = dump_fresh(root, cache)
                rec.count("kill.fresh_interpreter_loads")
                exp = {e["path"]: (e["t0"].isoformat(), e["t1"].isoformat(), e["attr"]) for e in expect}
                bad = dumped is None or dumped["exception"] or dumped["entries"] is None or \
                    {p: (a, b, at) for p, a, b, at in dumped["entries"]} != exp or dumped["warnings"]
                info = str(dumped)[:400]
            else:
                loaded, warns, exc = load_fresh(cache)
                bad = exc is not None or warns or compare_cache(loaded, expect)
                info = repr(exc) + str(warns)[:200]
            if bad:
                rec.violation("cache-crash-consistency", case,
                              {"why": "the cache cannot be loaded after the kill", "info": info})
            if killed:
                rec.nontriv(["kill", name, state], [name, k, size])
            shutil.rmtree(d, ignore_errors=True)
    finally:
        shutil.rmtree(root, ignore_errors=True)


# ---------------------------------------------------------------------------
def corrupt_cases(rec, rng, n):
    root = scratch_dir("c15c")
    try:
        entries = gen_entries(rng, rng.choice([1, 4, 30]), boundary=False)
        good = os.path.join(root, "good.json")
        fs = new_fileset()
        fill(fs, entries)
        fs.save_cache(good)
        raw = open(good, "rb").read()
        doc = json.loads(raw)
        variants = []
        cuts = sorted(set([0, 1, 2, len(raw) // 2, len(raw) - 2, len(raw) - 1] +
                          [rng.randrange(len(raw)) for _ in range(n * 10)]))
        for c in cuts:
            variants.append(("truncate@%d" % c, raw[:c]))
        def dumpb(x):
            return json.dumps(x).encode()
        variants += [
            ("json object", dumpb({"path": "x", "times": ["a", "b"], "attr": {}})),
            ("json string", dumpb("just a string")), ("json number", b"42"), ("json null", b"null"),
            ("list of numbers", dumpb([1, 2, 3])), ("list of strings", dumpb(["a", "b"])),
            ("list of lists", dumpb([[1], [2]])),
            ("missing path", dumpb([{k: v for k, v in doc[0].items() if k != "path"}])),
            ("missing times", dumpb([{k: v for k, v in doc[0].items() if k != "times"}])),
            ("missing attr", dumpb([{k: v for k, v in doc[0].items() if k != "attr"}])),
            ("bad time string", dumpb([dict(doc[0], times=["yesterday", "2017-01-01T00:00:00.000000"])])),
            ("time without us", dumpb([dict(doc[0], times=["2017-01-01T00:00:00", "2017-01-01T00:00:00"])])),
            ("times too short", dumpb([dict(doc[0], times=["2017-01-01T00:00:00.000000"])])),
            ("one bad entry among good", dumpb(doc + [{"path": "zzz"}])),
            ("binary garbage", bytes(rng.randrange(256) for _ in range(200))),
            ("not utf8", b"\xff\xfe[]"), ("empty file", b""),
        ]
        good_paths = {e["path"] for e in entries}
        for name, data in variants:
            p = os.path.join(root, "c.json")
            with open(p, "wb") as fh:
                fh.write(data)
            rec.ev()
            rec.count("corrupt.cases")
            case = {"kind": "corrupt", "variant": name, "entries": ser(entries)[:3],
                    "data": data[:300].decode("latin1")}
            cache, warns, exc = load_fresh(p)
            valid = False
            try:
                d2 = json.loads(data)
                valid = isinstance(d2, list) and all(
                    isinstance(x, dict) and {"path", "times", "attr"} <= set(x) for x in d2) \
                    and name.startswith("truncate")
            except Exception:
                pass
            if exc is not None:
                rec.violation("cache-corrupt-raises", case, {"exception": repr(exc)})
                continue
            if valid:
                continue  # a truncation that happens to be a complete document
            if data == raw:
                continue
            if cache:
                rec.violation("cache-corrupt-invented", case,
                              {"why": "entries loaded from a malformed cache file",
                               "paths": sorted(cache)[:3]})
            elif not warns:
                rec.violation("cache-corrupt-silent", case, {"why": "no warning for a malformed cache file"})
            else:
                rec.nontriv(["corrupt", name.split("@")[0]], [name, len(data)])
            os.remove(p)
        # a directory in place of the cache file (stands in for 'unreadable')
        dpath = os.path.join(root, "adir.json")
        os.mkdir(dpath)
        cache, warns, exc = load_fresh(dpath)
        rec.count("corrupt.cases")
        case = {"kind": "corrupt", "variant": "directory in place of the file"}
        if exc is not None:
            rec.violation("cache-corrupt-raises", case, {"exception": repr(exc)})
        elif cache or not warns:
            rec.violation("cache-corrupt-silent", case, {"warnings": warns, "n": len(cache)})
        # missing file: no exception, empty cache (warning: open known finding)
        cache, warns, exc = load_fresh(os.path.join(root, "does-not-exist.json"))
        rec.count("corrupt.cases")
        case = {"kind": "corrupt", "variant": "missing file"}
        if exc is not None or cache:
            rec.violation("cache-corrupt-raises", case, {"exception": repr(exc)})
        elif not warns:
            rec.violation("missing-cache-no-warning", case,
                          {"why": "a missing cache file produces no warning (statement lists it among the warned cases)"})
    finally:
        shutil.rmtree(root, ignore_errors=True)


# ---------------------------------------------------------------------------
def run_shard(spec, rec):
    rng = rng_for(spec["seed"], "c15", spec["kind"], spec["shard"])
    kind = spec["kind"]
    if kind == "roundtrip":
        for i in range(spec["n"]):
            n = rng.choice([0, 1, 2, 5, 20, 100, 500 if i % 10 == 0 else 3, 2000 if i == 0 else 7])
            entries = gen_entries(rng, n)
            via = rng.choice(["load", "ctor"])
            from vt.core import Recorder
            r2 = Recorder("C15", {})
            roundtrip_case(r2, rng, entries, via)
            rec.evaluations += r2.evaluations
            for k, v in r2.counters.items():
                if not k.startswith("violations:"):
                    rec.count(k, v)
            rec.nontrivial |= r2.nontrivial
            if r2.violations:
                if not shrink_roundtrip(rec, entries, via):
                    v = r2.violations[0]
                    rec.violation(v["key"], dict(v["case"], entries=v["case"]["entries"][:10]), v["detail"])
            if i < 1:
                rec.sample({"roundtrip": ser(entries)[:3], "n": n})
            if i % 8 == 0:
                find_case(rec, rng)
        for k in range(1 if spec["n"] <= 40 else 12):
            restart_case(rec, rng, reset=(spec["shard"] + k) % 2 == 1, relative=(spec["shard"] // 2 + k) % 2 == 1)
    elif kind == "faults":
        for _ in range(spec["n"]):
            fault_cases(rec, rng)
    elif kind == "corrupt":
        for _ in range(spec["n"]):
            corrupt_cases(rec, rng, 4)
    elif kind == "kill":
        kill_cases(rec, rng, spec)


def replay(case, rec):
    rng = rng_for(0, "replay")
    k = case.get("kind")
    if k == "roundtrip":
        roundtrip_case(rec, rng, deser(case["entries"]), case["via"])
    elif k == "corrupt":
        corrupt_cases(rec, rng, 4)
    elif k == "fault":
        fault_cases(rec, rng_for(case.get("eseed", 0), "replay"))
    elif k == "kill":
        kill_cases(rec, rng, {"seed": case["seed"], "shard": 0, "of": 1, "n": 0})
    elif k == "restart":
        restart_case(rec, rng, reset=case.get("reset"), relative=case.get("relative"))
    elif k == "find":
        find_case(rec, rng)
