"""C10 - parallel map / imap / collect / icollect / align process each file once, in file order.

History recording at the client boundary (harness function + harness reader, unique id per file as
its content) + a controlled scheduler (vt.monitors.sched) that forces chosen completion orders of
the per-file tasks; for <= 6 files every completion order that the pool's window allows is
enumerated depth first, beyond that orders are sampled.

Clauses and where decided (check_history unless noted)
  * map(): one result per found file, in find() order, paired with its FileInfo (return_info)
  * imap()/icollect(): same sequence, lazily; collect(): contents in that order
  * imap()/icollect() never hold more than max_workers submitted-but-unconsumed tasks:
    offline over the log (started - consumed <= W at every task start) and online by a
    sys.monitoring probe on FileSet.imap (len(worker_queue) <= workers at every line)
  * an exception in a task reaches the caller (type and message); for imap after all earlier
    results were delivered
  * read errors under error_to_warning / skip_errors -> None for that file, others undisturbed
  * align(): every matched secondary handed to each primary that needs it, read once;
    sys.monitoring probe on FileSet.align: cache keys always have remaining uses, empty at the end
                                                                                       align_case
"""
import datetime as dt
import gc
import json
import os
import shutil
import sys
import threading
import traceback
import warnings

from vt.core import rng_for, scratch_dir
from vt.monitors import sched, lineprobe

D = dt.timedelta
ID = "C10"
LEVEL = "exploration"
RULE = ("executions of map/imap/collect/icollect/align on a harness-built fileset of 2-12 files under a "
        "controlled scheduler: thread and process pools, 1..n workers, period vs files= selection, "
        "bundles, functions returning None, task exceptions, reader failures with/without "
        "error_to_warning. For <= 6 files all completion orders feasible under the pool window are "
        "enumerated (depth-first over choice sequences), beyond that sampled. non-trivial = an execution in "
        "which a later task finished before an earlier one; distinct by (configuration | completion order)")
ASSUMPTIONS = [
    "the controller's quiescence detection (no new task start for 12 ms, or the modelled window filled) only "
    "produces schedules; no verdict depends on wall-clock time. A gate timeout (60 s) is inconclusive",
    "tasks are sequentialised by the gates: one task body runs at a time; interleavings inside typhon's own "
    "code are those the executor permits",
    "warnings raised in process-pool workers are not visible to the parent; the warning itself is checked "
    "for thread pools only",
]
MIN_NONTRIVIAL = {"quick": 150, "thorough": 3000}
REQUIRED_COUNTERS = {"exec.map": 40, "exec.imap": 60, "exec.align": 10, "probe.imap.lines": 500,
                     "exec.exception_cases": 15, "exec.read_error_cases": 10}
SHARD_TIMEOUT = {"quick": 900, "thorough": 7200}


def shards(tier, seed):
    q = tier == "quick"
    out = []
    i = 0
    # exhaustive enumerations of small configurations
    for method in ("map", "imap"):
        for wt in ("thread", "process"):
            for (n, w) in ((4, 2), (5, 3)) if q else ((4, 2), (5, 2), (5, 3), (6, 3), (6, 6), (5, 5)):
                out.append({"kind": "enum", "seed": seed, "shard": i, "method": method, "wt": wt,
                            "files": n, "workers": w, "budget": 40 if q else 800})
                i += 1
    for k in range(4 if q else 8):
        out.append({"kind": "sampled", "seed": seed, "shard": i, "n": 25 if q else 400})
        i += 1
    for k in range(3 if q else 4):
        out.append({"kind": "align", "seed": seed, "shard": i, "n": 25 if q else 300})
        i += 1
    return out


# ---------------------------------------------------------------------------
# code that runs inside the pools (module level: picklable)
# ---------------------------------------------------------------------------
class TaskBoom(Exception):
    pass


class ReadBoom(Exception):
    pass


def _cfg():
    d = os.environ.get(sched.ENV)
    try:
        with open(os.path.join(d, "config.json")) as fh:
            return json.load(fh)
    except Exception:
        return {}


def _fid(file_info):
    with open(os.fspath(file_info), "rb") as fh:
        return int(fh.read())


def _tid(file_info):
    if isinstance(file_info, (list, tuple)):
        return "b%d" % _fid(file_info[0])
    return "f%d" % _fid(file_info)


def task_body(tid):
    d = sched.current_dir()
    cfg = _cfg()
    if cfg.get("gate_in") == "func":
        sched.gate(tid, d=d)
    if tid in cfg.get("fail_func", []):
        sched.done(tid, d=d, outcome="raise")
        raise TaskBoom("boom " + tid)
    if cfg.get("gate_in") == "func":
        sched.done(tid, d=d)
    if tid in cfg.get("ret_none", []):
        return None
    return ["res", tid]


def f_info(file_info):
    return task_body(_tid(file_info))


def f_args_info(a, b, file_info, flag=None):
    """function with extra positional and keyword arguments: it must receive exactly those
    (args=, kwargs=) followed by the file argument."""
    r = task_body(_tid(file_info))
    return None if r is None else r + [[a, b, flag]]


def f_content_info(content, file_info):
    r = task_body(_tid(file_info))
    return None if r is None else r + [content]


def f_content(content):
    return ["res-content", content]


def gate_reader(file_info):
    fid = _fid(file_info)
    tid = "f%d" % fid
    d = sched.current_dir()
    cfg = _cfg()
    sched.log_event("read_start", tid, d=d)
    if cfg.get("gate_in") == "reader":
        sched.gate(tid, d=d)
    if tid in cfg.get("fail_read", []):
        if cfg.get("gate_in") == "reader":
            sched.done(tid, d=d, outcome="raise")
        raise ReadBoom("cannot read " + tid)
    if cfg.get("gate_in") == "reader":
        sched.done(tid, d=d)
    sched.log_event("read_end", tid, d=d)
    return fid


# ---------------------------------------------------------------------------
def build_tree(root, n, prefix="p", step=3600, length=3000, start=None):
    """n files, hourly, content = unique id.  Returns list of (path, t0, t1, id)."""
    start = start or dt.datetime(2017, 6, 1)
    out = []
    for i in range(n):
        t0 = start + D(seconds=i * step)
        t1 = t0 + D(seconds=length)
        p = "%s/%s/%s/%s-%s.dat" % (root, prefix, t0.strftime("%Y/%m/%d"),
                                    t0.strftime("%H%M%S"), t1.strftime("%H%M%S"))
        os.makedirs(os.path.dirname(p), exist_ok=True)
        fid = (1 if prefix == "p" else 1001) + i
        with open(p, "w") as fh:
            fh.write(str(fid))
        out.append((p, t0, t1, fid))
    return out


TEMPLATE = "{year}/{month}/{day}/{hour}{minute}{second}-{end_hour}{end_minute}{end_second}.dat"


def make_fs(root, prefix="p", **kw):
    from typhon.files import FileSet, FileHandler
    return FileSet(path="%s/%s/%s" % (root, prefix, TEMPLATE), name=prefix,
                   handler=FileHandler(reader=gate_reader), **kw)


class Exec:
    """One execution of one method under one choice sequence."""

    def __init__(self, cfg, choices=None, rng=None):
        self.cfg = cfg
        self.choices = choices
        self.rng = rng

    def run(self, rec):
        cfg = self.cfg
        from typhon.files import FileSet
        root = scratch_dir("c10")
        gdir = os.path.join(root, "gate")
        os.mkdir(gdir)
        try:
            files = build_tree(root, cfg["files"])
            fs = make_fs(root)
            ids = ["f%d" % f[3] for f in files]
            bundle = cfg.get("bundle")
            if bundle:
                tids = ["b%d" % files[i][3] for i in range(0, len(files), bundle)]
            else:
                tids = ids
            on_content = cfg["on_content"]
            gate_in = "reader" if (on_content and not bundle and cfg["method"] in
                                   ("collect", "icollect")) or cfg.get("gate_reader") else "func"
            conf = {"gate_in": gate_in, "fail_func": cfg.get("fail_func", []),
                    "fail_read": cfg.get("fail_read", []), "ret_none": cfg.get("ret_none", [])}
            with open(os.path.join(gdir, "config.json"), "w") as fh:
                json.dump(conf, fh)
            os.environ[sched.ENV] = gdir
            W = cfg["workers"]
            n = len(tids)
            method = cfg["method"]
            lazy = method in ("imap", "icollect")

            def expected(finished):
                if lazy:
                    consumed = 0
                    while consumed < n and tids[consumed] in finished:
                        consumed += 1
                    submitted = min(n, consumed + W)
                    return submitted - len(finished)
                return min(W, n - len(finished))
            ctl = sched.Controller(gdir, choices=self.choices, expected=expected, rng=self.rng)
            kwargs = {}
            if cfg["selection"] == "files":
                how = cfg.get("files_as", "list")
                found = fs.find(files[0][1], files[-1][2] + D(seconds=1), bundle=bundle)
                if how != "generator":
                    found = list(found)
                    found = tuple(found) if how == "tuple" else iter(found) if how == "iter" else found
                if how in ("generator", "iter"):
                    rec.count("exec.files_as_one_shot_iterable")
                kwargs["files"] = found
            else:
                kwargs["start"] = files[0][1]
                kwargs["end"] = files[-1][2] + D(seconds=1)
                if bundle:
                    kwargs["bundle"] = bundle
            extra = cfg.get("extra_args")
            if method in ("map", "imap"):
                if on_content:
                    kwargs.update(func=f_content_info, on_content=True, pass_info=True)
                elif extra:
                    user_args = ["A", 7] if extra == "list" else ("A", 7)
                    kwargs.update(func=f_args_info, args=user_args, kwargs={"flag": "k"})
                else:
                    kwargs.update(func=f_info)
                kwargs.update(worker_type=cfg["wt"], max_workers=W,
                              return_info=cfg["return_info"])
            else:
                kwargs.update(max_workers=W)
                if cfg["return_info"]:
                    kwargs["return_info"] = True
            if cfg.get("error_to_warning"):
                kwargs["error_to_warning"] = True
            results, exc = [], None
            probe_hits = {"lines": 0, "max": 0, "bad": None}
            imap_code = FileSet.imap.__code__

            def probe(code, line, frame):
                loc = frame.f_locals
                q = loc.get("worker_queue")
                w = loc.get("workers")
                if q is not None and w is not None:
                    probe_hits["lines"] += 1
                    probe_hits["max"] = max(probe_hits["max"], len(q))
                    if len(q) > w and probe_hits["bad"] is None:
                        probe_hits["bad"] = [line, len(q), w]
            ctl.start()
            caught = []
            try:
                with warnings.catch_warnings(record=True) as wlist:
                    warnings.simplefilter("always")
                    try:
                        if method == "map":
                            results = fs.map(**kwargs)
                        elif method == "collect":
                            results = fs.collect(**kwargs)
                            if cfg["return_info"]:
                                results = list(zip(*results))
                        else:
                            gen = fs.imap(**kwargs) if method == "imap" else fs.icollect(**kwargs)
                            with lineprobe.LineProbe([imap_code], probe):
                                for k, item in enumerate(gen):
                                    sched.log_event("consumed", k)
                                    results.append(item)
                    except (TaskBoom, ReadBoom) as e:
                        exc = e
                    except Exception as e:
                        exc = e
                    caught = [str(w.message) for w in wlist if "Could not read" in str(w.message)]
            finally:
                ctl.stop()
                ctl.join(5)
                try:
                    if lazy and "gen" in locals():
                        gen.close()  # shuts the pool down: no straggler outlives this execution
                except Exception:
                    pass
                os.environ.pop(sched.ENV, None)
            events = sched.read_events(gdir)
            rec.ev()
            rec.count("exec." + method)
            rec.count("probe.imap.lines", probe_hits["lines"])
            hist = {"cfg": cfg, "choices": ctl.taken, "branching": ctl.branching, "order": ctl.order}
            if cfg.get("extra_args") == "list" and "user_args" in locals() and user_args != ["A", 7]:
                rec.violation("results-wrong", {"kind": "exec", "cfg": cfg, "choices": ctl.taken},
                              {"why": "the caller's args list was modified", "args_now": repr(user_args)[:200]})
            self.check_history(rec, hist, files, tids, ids, results, exc, events, probe_hits, caught)
            return ctl.taken, ctl.branching, ctl.order
        finally:
            os.environ.pop(sched.ENV, None)
            shutil.rmtree(root, ignore_errors=True)

    # -----------------------------------------------------------------------
    def check_history(self, rec, hist, files, tids, ids, results, exc, events, probe_hits, caught):
        cfg = self.cfg
        method = cfg["method"]
        lazy = method in ("imap", "icollect")
        W = cfg["workers"]
        case = {"kind": "exec", "cfg": cfg, "choices": hist["choices"]}
        if any(e["k"] == "gate-timeout" for e in events):
            rec.inconc("gate timeout in %s" % json.dumps(cfg))
            return
        fail_func = cfg.get("fail_func", [])
        fail_read = cfg.get("fail_read", [])
        ret_none = cfg.get("ret_none", [])
        etw = cfg.get("error_to_warning")
        bundle = cfg.get("bundle")
        by_path = {f[0]: f for f in files}
        # -- expected outcome ---------------------------------------------------
        first_fail = None
        for i, t in enumerate(tids):
            if t in fail_func or (t in fail_read and not etw):
                first_fail = i
                break
        starts = [e["id"] for e in events if e["k"] == "start"]
        # 1. at most once / exactly once
        for t in set(starts):
            if starts.count(t) > 1:
                rec.violation("task-not-once", case, {"why": "task started twice", "task": t,
                                                      "starts": starts})
                return
        gated_in_func = not ((cfg["on_content"] and not bundle and method in ("collect", "icollect"))
                             or cfg.get("gate_reader"))
        exp_started = [t for t in tids if not (gated_in_func and etw and t in fail_read)]
        if first_fail is None and sorted(starts) != sorted(exp_started):
            rec.violation("task-not-once", case, {"why": "set of executed tasks differs from the found files",
                                                  "started": sorted(starts), "want": sorted(exp_started)})
            return
        # 2. exception propagation
        if first_fail is not None:
            rec.count("exec.exception_cases")
            t = tids[first_fail]
            want_type = "TaskBoom" if t in fail_func else "ReadBoom"
            if t in fail_read and not etw and t in fail_func:
                want_type = "ReadBoom"
            if exc is None:
                rec.violation("exception-lost", case, {"why": "task exception did not reach the caller",
                                                       "task": t, "results": repr(results)[:300]})
                return
            if type(exc).__name__ != want_type or t not in str(exc):
                rec.violation("exception-lost", case, {"why": "another exception reached the caller",
                                                       "got": repr(exc), "want": want_type + " " + t})
                return
            if lazy and len(results) != first_fail:
                rec.violation("exception-lost", case,
                              {"why": "imap did not deliver all earlier results before the exception",
                               "delivered": len(results), "want": first_fail})
                return
        elif exc is not None:
            rec.violation("unexpected-exception", case, {"exception": repr(exc)})
            return
        # 3. result sequence
        if first_fail is None or lazy:
            upto = len(tids) if first_fail is None else first_fail
            want = []
            for i in range(upto):
                t = tids[i]
                group = files[i * bundle:(i + 1) * bundle] if bundle else [files[i]]
                if method in ("collect", "icollect"):
                    if t in fail_read:
                        val = None
                    else:
                        val = group[0][3]
                    if method == "collect" and val is None:
                        continue  # collect drops None contents
                else:
                    if t in fail_read and etw:
                        val = None
                    elif t in ret_none:
                        val = None
                    else:
                        val = ["res", t]
                        if cfg["on_content"]:
                            val = val + [[g[3] for g in group] if bundle else group[0][3]]
                        elif cfg.get("extra_args"):
                            val = val + [["A", 7, "k"]]
                want.append(([g[0] for g in group], val))
            got = []
            for item in results:
                if cfg["return_info"]:
                    info, val = item
                    paths = [x.path for x in info] if isinstance(info, (list, tuple)) else [info.path]
                else:
                    paths, val = None, item
                got.append((paths, val))
            ok = len(got) == len(want)
            if ok:
                for (gp, gv), (wp, wv) in zip(got, want):
                    if gv != wv or (gp is not None and gp != wp):
                        ok = False
            if not ok:
                rec.violation("results-wrong", case,
                              {"why": "result sequence differs from find() order / pairing",
                               "got": repr([(p and [os.path.basename(x) for x in p], v) for p, v in got])[:500],
                               "want": repr([([os.path.basename(x) for x in p], v) for p, v in want])[:500],
                               "completion_order": hist["order"]})
                return
        if fail_read and etw:
            rec.count("exec.read_error_cases")
            if cfg["wt"] == "thread" and len(caught) < len([t for t in fail_read if t in starts]):
                rec.violation("read-error-no-warning", case, {"warnings": caught})
        # 4. in-flight bound for the lazy variants
        if lazy:
            started = consumed = 0
            for e in events:
                if e["k"] == "consumed":
                    consumed += 1
                elif e["k"] == "start":
                    started += 1
                    rec.maxi("inflight", started - consumed)
                    if started - consumed > W:
                        rec.violation("inflight-bound", case,
                                      {"why": "task started while started - consumed > max_workers",
                                       "started": started, "consumed": consumed, "max_workers": W,
                                       "task": e["id"]})
                        return
            if probe_hits["bad"]:
                rec.violation("inflight-bound", case,
                              {"why": "len(worker_queue) > workers inside FileSet.imap",
                               "line/len/workers": probe_hits["bad"]})
                return
            rec.maxi("imap.queue_len", probe_hits["max"])
        # non-trivial: a later task finished before an earlier one
        dones = [e["id"] for e in events if e["k"] == "done"]
        idx = [tids.index(t) for t in dones if t in tids]
        inverted = any(a > b for a, b in zip(idx, idx[1:]))
        rec.setadd("orders:%s/%s/%d/%d" % (method, cfg["wt"], len(tids), W), dones)
        if inverted:
            rec.nontriv([method, cfg["wt"], len(tids), W, cfg["selection"], bool(bundle),
                         cfg["on_content"], cfg["return_info"], bool(fail_func), bool(fail_read),
                         bool(etw), bool(ret_none)], dones)
            rec.count("exec.inverted")


def predict_orders(lazy, n, W):
    """Number of completion orders the window model allows (tasks sequentialised by the gates)."""
    from functools import lru_cache

    @lru_cache(None)
    def count(done):
        done_set = set(done)
        if len(done_set) == n:
            return 1
        if lazy:
            consumed = 0
            while consumed < n and consumed in done_set:
                consumed += 1
            submitted = min(n, consumed + W)
            ready = [i for i in range(submitted) if i not in done_set]
        else:
            ready = [i for i in range(n) if i not in done_set][:W]
        return sum(count(tuple(sorted(done_set | {i}))) for i in ready)
    return count(())


def base_cfg(method, wt, files, workers, **kw):
    cfg = {"method": method, "wt": wt, "files": files, "workers": workers, "selection": "period",
           "bundle": None, "on_content": False, "return_info": True, "fail_func": [],
           "fail_read": [], "ret_none": [], "error_to_warning": False}
    cfg.update(kw)
    return cfg


def run_enum(spec, rec):
    cfg = base_cfg(spec["method"], spec["wt"], spec["files"], spec["workers"])
    prefix = []
    seen = set()
    n = 0
    exhausted = False
    while n < spec["budget"]:
        taken, branching, order = Exec(cfg, choices=prefix).run(rec)
        seen.add(tuple(order))
        n += 1
        nxt = sched.next_prefix(taken, branching)
        if nxt is None:
            exhausted = True
            break
        prefix = nxt
    key = "%s/%s/%d/%d" % (spec["method"], spec["wt"], spec["files"], spec["workers"])
    rec.count("enum.executions", n)
    rec.count("enum.distinct_orders:" + key, len(seen))
    if exhausted:
        rec.count("enum.exhausted:" + key)
    predicted = predict_orders(spec["method"] == "imap", spec["files"], spec["workers"])
    rec.count("enum.predicted_orders:" + key, predicted)
    if exhausted and len(seen) == predicted:
        rec.count("enum.complete:" + key)
    rec.sample({"enum": key, "executions": n, "distinct_completion_orders": len(seen),
                "predicted_by_window_model": predicted,
                "exhausted": exhausted, "example_order": list(sorted(seen)[len(seen) // 2])})


def gen_cfg(rng):
    method = rng.choice(["map", "imap", "imap", "collect", "icollect"])
    n = rng.choice([2, 3, 4, 5, 6, 8, 12])
    wt = "thread" if method in ("collect", "icollect") else rng.choice(["thread", "process"])
    W = rng.choice([1, 2, 3, n, max(1, n - 1)])
    cfg = base_cfg(method, wt, n, W)
    cfg["selection"] = rng.choice(["period", "files"])
    # the files= argument as a list, a tuple, or a one-shot iterable (the generator find() returns,
    # iter(list)) - all are "iterables of FileInfo"
    cfg["files_as"] = rng.choice(["list", "list", "tuple", "generator", "iter"])
    cfg["return_info"] = rng.random() < 0.6
    if method in ("map", "imap"):
        cfg["on_content"] = rng.random() < 0.5
        if rng.random() < 0.3:
            cfg["bundle"] = 2
            # with an odd number of files the last bundle holds exactly one file
            cfg["on_content"] = rng.random() < 0.6
        if cfg["on_content"] and not cfg["bundle"] and rng.random() < 0.5:
            cfg["gate_reader"] = True
    else:
        cfg["on_content"] = True
    tids = ["f%d" % (1 + i) for i in range(n)] if not cfg["bundle"] else \
        ["b%d" % (1 + i) for i in range(0, n, 2)]
    r = rng.random()
    if r < 0.25 and method in ("map", "imap"):
        cfg["fail_func"] = rng.sample(tids, rng.choice([1, 1, 2]) if len(tids) > 1 else 1)
        # only *read* errors may be turned into warnings: a failing function must still raise
        cfg["error_to_warning"] = rng.random() < 0.5
    elif r < 0.5 and cfg["on_content"] and not cfg["bundle"]:
        cfg["fail_read"] = rng.sample(tids, 1 if len(tids) < 3 else rng.choice([1, 2]))
        cfg["error_to_warning"] = rng.random() < 0.7
    if method in ("map", "imap") and rng.random() < 0.3:
        cfg["ret_none"] = rng.sample(tids, 1)
    if method in ("map", "imap") and not cfg["on_content"] and rng.random() < 0.4:
        cfg["extra_args"] = rng.choice(["list", "tuple"])
    if method == "collect" and cfg["fail_read"] and cfg["error_to_warning"] and \
            len(cfg["fail_read"]) >= len(tids):
        cfg["fail_read"] = cfg["fail_read"][:1]
    return cfg


def run_sampled(spec, rec):
    rng = rng_for(spec["seed"], "c10", spec["shard"])
    for i in range(spec["n"]):
        cfg = gen_cfg(rng)
        if i < 1:
            rec.sample({"sampled_cfg": cfg})
        try:
            Exec(cfg, rng=rng_for(spec["seed"], "c10-order", spec["shard"], i)).run(rec)
        except Exception as exc:
            rec.violation("unexpected-exception", {"kind": "exec", "cfg": cfg, "choices": []},
                          {"exception": repr(exc), "trace": traceback.format_exc()[-1500:]})


# ---------------------------------------------------------------------------
# align
# ---------------------------------------------------------------------------
def align_case(rec, rng, cfg, choices=None):
    from typhon.files import FileSet
    root = scratch_dir("c10a")
    gdir = os.path.join(root, "gate")
    os.mkdir(gdir)
    try:
        prim = build_tree(root, cfg["np"], "p", step=cfg["pstep"], length=cfg["plen"])
        sec = build_tree(root, cfg["ns"], "s", step=cfg["sstep"], length=cfg["slen"],
                         start=dt.datetime(2017, 6, 1) + D(seconds=cfg["soff"]))
        fsp, fss = make_fs(root, "p"), make_fs(root, "s")
        conf = {"gate_in": "reader", "fail_read": cfg.get("fail_read", [])}
        json.dump(conf, open(os.path.join(gdir, "config.json"), "w"))
        start, end = prim[0][1], prim[-1][2] + D(seconds=1)
        # model of match (whole seconds)
        mi = cfg.get("mi") or 0
        matches = []
        ws, we = start - D(seconds=mi), end + D(seconds=mi)
        secs_found = [s for s in sec if s[1] < we and s[2] >= ws]
        for p in prim:
            if not (p[1] < we and p[2] >= ws):
                continue
            partners = [s for s in secs_found
                        if s[1] - D(seconds=mi) <= p[2] and s[2] + D(seconds=mi) >= p[1]]
            if partners:
                matches.append((p, partners))
        if not matches:
            return
        os.environ[sched.ENV] = gdir
        ctl = sched.Controller(gdir, choices=choices, rng=rng)
        probe_state = {"lines": 0, "bad": None, "final_cache": None}
        align_code = FileSet.align.__code__

        def probe(code, line, frame):
            loc = frame.f_locals
            cache, usage = loc.get("cache"), loc.get("secondary_usage")
            if cache is None or usage is None:
                return
            probe_state["lines"] += 1
            probe_state["final_cache"] = len(cache)
            probe_state["max"] = max(probe_state.get("max", 0), len(cache))
        skip = bool(cfg.get("skip_errors"))
        got, exc = [], None
        ctl.start()
        agen = None
        try:
            with warnings.catch_warnings():
                warnings.simplefilter("ignore")
                try:
                    with lineprobe.LineProbe([align_code], probe):
                        agen = fsp.align(fss, start, end, max_interval=cfg.get("mi"),
                                         skip_errors=skip)
                        for p, s in agen:
                            sched.log_event("consumed", len(got))
                            got.append((p[0].path, p[1], s[0].path, s[1]))
                except Exception as e:
                    exc = e
        finally:
            ctl.stop()
            ctl.join(5)
            try:
                if agen is not None:
                    agen.close()
                import gc
                gc.collect()  # closes the suspended loader generators -> their pools shut down
            except Exception:
                pass
            os.environ.pop(sched.ENV, None)
        events = sched.read_events(gdir)
        rec.ev()
        rec.count("exec.align")
        rec.count("probe.align.lines", probe_state["lines"])
        case = {"kind": "align", "cfg": cfg, "choices": ctl.taken}
        if ctl.error:
            rec.inconc("controller died: " + ctl.error[-600:])
            return
        if any(e["k"] == "gate-timeout" for e in events):
            rec.inconc("gate timeout in align: cfg=%s events=%s" % (json.dumps(cfg), json.dumps(
                [(e["k"], e["id"]) for e in events])[-900:]))
            return
        needed = {"f%d" % p[3] for p, _ in matches} | {"f%d" % s[3] for _, ps in matches for s in ps}
        fail = set(cfg.get("fail_read", [])) & needed
        want = []
        for p, partners in matches:
            for s in partners:
                if skip and ("f%d" % p[3] in fail or "f%d" % s[3] in fail):
                    continue
                want.append((p[0], p[3], s[0], s[3]))
        if fail and not skip:
            if exc is None or type(exc).__name__ != "ReadBoom":
                rec.violation("exception-lost", case, {"why": "read error in align did not reach the caller",
                                                       "got": repr(exc)})
            return
        if exc is not None:
            rec.violation("unexpected-exception", case, {"exception": repr(exc),
                                                         "trace": "".join(traceback.format_exception(exc))[-1200:]})
            return
        if got != want:
            rec.violation("align-wrong", case, {
                "got": [(os.path.basename(a), b, os.path.basename(c), d) for a, b, c, d in got][:8],
                "want": [(os.path.basename(a), b, os.path.basename(c), d) for a, b, c, d in want][:8]})
            return
        reads = [e["id"] for e in events if e["k"] == "read_start"]
        dup = [t for t in set(reads) if reads.count(t) > 1]
        if dup or set(reads) != needed:
            rec.violation("align-read-count", case, {"why": "a file was not read exactly once",
                                                     "twice": dup, "unread": sorted(needed - set(reads)),
                                                     "extra": sorted(set(reads) - needed)})
            return
        if probe_state["final_cache"] not in (0, None):
            rec.violation("align-cache", case, {"why": "secondary cache not empty at exhaustion",
                                                "left": probe_state["final_cache"]})
        shared = sum(1 for s in sec if sum(1 for _, ps in matches if s in ps) > 1)
        dones = [e["id"] for e in events if e["k"] == "done"]
        rec.maxi("align.cache_size", probe_state.get("max", 0))
        if shared:
            rec.nontriv(["align", cfg["np"], cfg["ns"], bool(cfg.get("mi")), bool(fail), skip],
                        [cfg, dones])
    finally:
        os.environ.pop(sched.ENV, None)
        shutil.rmtree(root, ignore_errors=True)


def gen_align_cfg(rng):
    cfg = {"np": rng.choice([1, 2, 3, 4, 6]), "ns": rng.choice([1, 2, 3, 5, 8]),
           "pstep": rng.choice([3600, 7200]), "plen": rng.choice([1800, 3599, 7000]),
           "sstep": rng.choice([1200, 3600, 5400]), "slen": rng.choice([600, 3000, 9000]),
           "soff": rng.choice([0, -1800, 900, 3600]),
           "mi": rng.choice([None, None, 600, 3600])}
    if rng.random() < 0.5:
        who = rng.choice(["p", "s"])
        k = rng.randrange(cfg["np"] if who == "p" else cfg["ns"])
        cfg["fail_read"] = ["f%d" % ((1 if who == "p" else 1001) + k)]
        cfg["skip_errors"] = rng.random() < 0.7
    return cfg


def run_align(spec, rec):
    rng = rng_for(spec["seed"], "c10-align", spec["shard"])
    for i in range(spec["n"]):
        cfg = gen_align_cfg(rng)
        if i < 1:
            rec.sample({"align_cfg": cfg})
        try:
            align_case(rec, rng_for(spec["seed"], "c10-align-order", spec["shard"], i), cfg)
        except Exception as exc:
            rec.violation("unexpected-exception", {"kind": "align", "cfg": cfg, "choices": []},
                          {"exception": repr(exc), "trace": traceback.format_exc()[-1500:]})


def reader_a(file_info):
    with open(file_info.path) as fh:
        return ("A", int(fh.read()))


def reader_b(file_info):
    with open(file_info.path) as fh:
        return ("B", int(fh.read()))


def _count_call(file_info):
    _CALLS.append(os.fspath(file_info))
    return 1


_CALLS = []


def two_filesets_case(rec, rng):
    """Two filesets with different handlers in use at the same time (generators consumed alternately,
    align with more primaries than worker threads), and an explicitly empty files= selection."""
    from typhon.files import FileSet, FileHandler
    root = scratch_dir("c10t")
    try:
        na, nb = rng.choice([5, 7]), rng.choice([5, 8])
        fa = build_tree(root, na, prefix="p")
        fb = build_tree(root, nb, prefix="s", start=dt.datetime(2017, 6, 1, 0, 20))
        A = FileSet(path="%s/p/%s" % (root, TEMPLATE), name="A", handler=FileHandler(reader=reader_a),
                    worker_type="thread")
        B = FileSet(path="%s/s/%s" % (root, TEMPLATE), name="B", handler=FileHandler(reader=reader_b),
                    worker_type="thread")
        s0, s1 = dt.datetime(2017, 6, 1), dt.datetime(2017, 6, 3)
        W = rng.choice([1, 2, 3])
        case = {"kind": "two-filesets", "na": na, "nb": nb, "max_workers": W}
        rec.ev()
        rec.count("exec.two_filesets")
        try:
            ga, gb = A.icollect(s0, s1, max_workers=W), B.icollect(s0, s1, max_workers=W)
            got_a, got_b = [], []
            for _ in range(max(na, nb) + 1):
                for g, out in ((ga, got_a), (gb, got_b)):
                    try:
                        out.append(next(g))
                    except StopIteration:
                        pass
            want_a = [("A", f[3]) for f in fa]
            want_b = [("B", f[3]) for f in fb]
            if got_a != want_a or got_b != want_b:
                rec.violation("results-wrong", case,
                              {"why": "two icollect generators of different filesets consumed alternately",
                               "got_a": got_a[:8], "want_a": want_a[:8], "got_b": got_b[:8]})
            al = list(A.align(B, start=s0, end=s1, max_interval="30 min"))
            bad = [x for x in al if not (isinstance(x, tuple) and len(x) == 2)]
            tags = []
            for item in al:
                try:
                    (fi_a, ca), (fi_b, cb) = item[0], item[1]
                    tags.append((ca[0], cb[0]))
                except Exception:
                    tags.append(("?", repr(item)[:60]))
            if bad or any(t != ("A", "B") for t in tags):
                rec.violation("results-wrong", case,
                              {"why": "align: content read through the other fileset's handler",
                               "tags": tags[:10]})
            # an explicitly empty selection selects nothing
            del _CALLS[:]
            r1 = A.map(_count_call, files=[])
            r2 = list(A.imap(_count_call, files=[]))
            r3 = list(A.icollect(files=[]))
            if r1 != [] or r2 != [] or r3 != [] or _CALLS:
                rec.violation("task-not-once", case,
                              {"why": "files=[] selected files", "map": len(r1), "imap": len(r2),
                               "icollect": len(r3), "function_calls": len(_CALLS)})
        except Exception as exc:
            rec.violation("unexpected-exception", case, {"exception": repr(exc),
                                                         "trace": traceback.format_exc()[-1500:]})
    finally:
        gc.collect()
        shutil.rmtree(root, ignore_errors=True)


_BAD = set()


def reader_scaled(file_info, scale=1):
    with open(file_info.path) as fh:
        fid = int(fh.read())
    if fid in _BAD:
        raise ReadBoom("cannot read file %d" % fid)
    return fid * scale


def sum_content(content):
    return sum(content) if isinstance(content, (list, tuple)) else content


def read_options_case(rec, rng):
    """Bundles with one unreadable member under error_to_warning, and per-call read_args followed by calls
    without them (call history on one FileSet)."""
    from typhon.files import FileSet, FileHandler
    root = scratch_dir("c10r")
    try:
        n = 6
        files = build_tree(root, n, prefix="p")
        ids = [f[3] for f in files]
        s0, s1 = dt.datetime(2017, 6, 1), dt.datetime(2017, 6, 3)
        for wt in ("thread", "process"):
            fs = FileSet(path="%s/p/%s" % (root, TEMPLATE), name="R", handler=FileHandler(reader=reader_scaled),
                         worker_type=wt, read_args={"scale": 3})
            case = {"kind": "read-options", "worker_type": wt}
            rec.ev()
            rec.count("exec.read_options")
            try:
                # 1. a bundle of two files of which one cannot be read: warning + None for that bundle
                bad = rng.choice(ids)
                _BAD.clear()
                _BAD.add(bad)
                with warnings.catch_warnings(record=True) as wl:
                    warnings.simplefilter("always")
                    got = fs.map(sum_content, start=s0, end=s1, bundle=2, on_content=True,
                                 error_to_warning=True, max_workers=2)
                _BAD.clear()
                want = [None if bad in ids[k:k + 2] else 3 * sum(ids[k:k + 2]) for k in range(0, n, 2)]
                if got != want:
                    rec.violation("results-wrong", case,
                                  {"why": "bundle with one unreadable member under error_to_warning",
                                   "got": got, "want": want, "unreadable": bad})
                elif wt == "thread" and not wl:
                    rec.violation("read-error-no-warning", case, {"warnings": []})
                # 2. per-call read arguments, then calls that rely on the fileset's defaults again
                a = fs.collect(s0, s1, read_args={"scale": 10})
                b = fs.collect(s0, s1)
                c = fs.map(sum_content, start=s0, end=s1, on_content=True, max_workers=2)
                if a != [10 * i for i in ids] or b != [3 * i for i in ids] or c != [3 * i for i in ids]:
                    rec.violation("results-wrong", case,
                                  {"why": "per-call read_args, then calls without them", "with_args": a[:4],
                                   "collect_after": b[:4], "map_after": c[:4], "ids": ids[:4]})
            except Exception as exc:
                rec.violation("unexpected-exception", case, {"exception": repr(exc),
                                                             "trace": traceback.format_exc()[-1500:]})
            finally:
                _BAD.clear()
    finally:
        gc.collect()
        shutil.rmtree(root, ignore_errors=True)


def compressed_case(rec, rng):
    """Configuration: a fileset of gzip-compressed files (read through a temporary decompressed copy) with a
    reader that fails on one file under error_to_warning; the FileInfo paired with every result - and what
    the same FileSet finds afterwards - names the file of the fileset."""
    import gzip
    from typhon.files import FileSet, FileHandler
    root = scratch_dir("c10z")
    try:
        n = 6
        files = build_tree(root, n, prefix="p")
        paths = []
        for p_, t0, t1, fid in files:
            with open(p_, "rb") as fh, gzip.open(p_ + ".gz", "wb") as gz:
                gz.write(fh.read())
            os.unlink(p_)
            paths.append(p_ + ".gz")
        ids = [f[3] for f in files]
        s0, s1 = dt.datetime(2017, 6, 1), dt.datetime(2017, 6, 3)
        for wt in ("thread", "process"):
            fs = FileSet(path="%s/p/%s.gz" % (root, TEMPLATE), name="Z", handler=FileHandler(reader=reader_scaled),
                         worker_type=wt)
            case = {"kind": "compressed", "worker_type": wt}
            rec.ev()
            rec.count("exec.compressed_filesets")
            bad = rng.choice(ids[:-2])
            try:
                _BAD.clear()
                _BAD.add(bad)
                with warnings.catch_warnings():
                    warnings.simplefilter("ignore")
                    got = fs.map(sum_content, start=s0, end=s1, on_content=True, return_info=True,
                                 error_to_warning=True, max_workers=2)
                _BAD.clear()
                got_paths = [os.path.abspath(str(info.path)) for info, _ in got]
                got_vals = [r for _, r in got]
                want_vals = [None if i == bad else i for i in ids]
                if got_paths != paths or got_vals != want_vals:
                    rec.violation("results-wrong", case,
                                  {"why": "compressed fileset, one unreadable file, return_info",
                                   "info_paths": [os.path.relpath(q, root) if q.startswith(root) else q
                                                  for q in got_paths],
                                   "want_paths": [os.path.relpath(q, root) for q in paths],
                                   "results": got_vals, "want": want_vals})
                    continue
                # the same FileSet afterwards
                again = [os.path.abspath(str(i.path)) for i in fs.find(s0, s1)]
                vals = fs.collect(s0, s1)
                if again != paths or vals != ids:
                    rec.violation("results-wrong", case,
                                  {"why": "same FileSet after a failed read of a compressed file",
                                   "found": [os.path.relpath(q, root) if q.startswith(root) else q for q in again],
                                   "collected": vals, "want": ids})
                    continue
                rec.nontriv(["compressed", wt], [wt, bad])
            except Exception as exc:
                rec.violation("unexpected-exception", case, {"exception": repr(exc),
                                                             "trace": traceback.format_exc()[-1500:]})
            finally:
                _BAD.clear()
    finally:
        gc.collect()
        shutil.rmtree(root, ignore_errors=True)


def reader_slow(file_info):
    import time
    time.sleep(0.03)
    with open(file_info.path) as fh:
        fid = int(fh.read())
    time.sleep(0.03)
    return fid


def same_basename_case(rec, rng):
    """Configuration: gzip-compressed files that all have the same base name (one per day directory), a
    FileSet with its own temp_dir, several thread workers whose reads overlap (the reader takes 60 ms)."""
    import gzip
    from typhon.files import FileSet, FileHandler
    root = scratch_dir("c10b")
    try:
        n = 6
        day0 = dt.datetime(2017, rng.randrange(1, 12), 1)
        paths, ids = [], []
        for k in range(n):
            d = day0 + D(days=k)
            p_ = "%s/q/%s/data.dat.gz" % (root, d.strftime("%Y/%m/%d"))
            os.makedirs(os.path.dirname(p_))
            with gzip.open(p_, "wb") as gz:
                gz.write(str(3001 + k).encode())
            paths.append(p_)
            ids.append(3001 + k)
        os.makedirs(root + "/tmp")
        fs = FileSet(path=root + "/q/{year}/{month}/{day}/data.dat.gz", name="B",
                     handler=FileHandler(reader=reader_slow), worker_type="thread", temp_dir=root + "/tmp")
        case = {"kind": "same-basename"}
        rec.ev()
        rec.count("exec.same_basename_filesets")
        s0, s1 = day0 - D(days=1), day0 + D(days=n + 1)
        try:
            got = fs.map(sum_content, start=s0, end=s1, on_content=True, max_workers=3)
            got2 = list(fs.icollect(s0, s1, max_workers=3))
            if got != ids or got2 != ids:
                rec.violation("results-wrong", case, {"why": "compressed files of one base name read by several "
                                                             "thread workers, FileSet with its own temp_dir",
                                                      "map": got, "icollect": got2, "want": ids})
            elif os.listdir(root + "/tmp"):
                rec.violation("results-wrong", case, {"why": "temporary files left in temp_dir",
                                                      "left": os.listdir(root + "/tmp")[:4]})
            else:
                rec.nontriv(["same-basename"], n)
        except Exception as exc:
            rec.violation("unexpected-exception", case, {"exception": repr(exc),
                                                         "trace": traceback.format_exc()[-1500:]})
    finally:
        gc.collect()
        shutil.rmtree(root, ignore_errors=True)


_LAZY = {"event": None, "last": None, "gave_up": False}


def reader_waits_for_consumer(file_info):
    """The reader of the last file only finishes once the consumer has received the result before it
    (the consumer sets the event) - the generous time-out only ends a run that would otherwise hang."""
    with open(file_info.path) as fh:
        fid = int(fh.read())
    if fid == _LAZY["last"]:
        if not _LAZY["event"].wait(timeout=40):
            _LAZY["gave_up"] = True
    return fid


def tail_laziness_case(rec, rng):
    """imap / icollect yield lazily also at the end of the file list: a finished result is handed to the
    consumer while a younger task of the last wave is still running."""
    from typhon.files import FileSet, FileHandler
    root = scratch_dir("c10z")
    try:
        n = rng.choice([3, 4, 6])
        W = rng.choice([2, 3])
        files = build_tree(root, n, prefix="p")
        fs = FileSet(path="%s/p/%s" % (root, TEMPLATE), name="Z",
                     handler=FileHandler(reader=reader_waits_for_consumer), worker_type="thread")
        _LAZY.update(event=threading.Event(), last=files[-1][3], gave_up=False)
        method = rng.choice(["icollect", "imap"])
        case = {"kind": "tail-laziness", "n": n, "max_workers": W, "method": method}
        rec.ev()
        rec.count("exec.tail_laziness")
        s0, s1 = dt.datetime(2017, 6, 1), dt.datetime(2017, 6, 3)
        got = []
        try:
            gen = fs.icollect(s0, s1, max_workers=W) if method == "icollect" else \
                fs.imap(f_content, start=s0, end=s1, on_content=True, max_workers=W)
            for item in gen:
                got.append(item)
                if len(got) == n - 1:
                    _LAZY["event"].set()      # the result before the last one has arrived
        except Exception as exc:
            rec.violation("unexpected-exception", case, {"exception": repr(exc),
                                                         "trace": traceback.format_exc()[-1200:]})
            return
        finally:
            _LAZY["event"].set()
        want = [f[3] for f in files]
        if [g if not isinstance(g, (list, tuple)) else g[-1] for g in got] != want and got != want:
            rec.violation("results-wrong", case, {"got": got[:8], "want": want[:8]})
        elif _LAZY["gave_up"]:
            rec.violation("not-lazy", case,
                          {"why": "the result before the last one was not handed to the consumer while the "
                                  "last task was still running (waited 40 s)"})
    finally:
        gc.collect()
        shutil.rmtree(root, ignore_errors=True)


def run_shard(spec, rec):
    if 4 <= spec["shard"] < 8:
        tail_laziness_case(rec, rng_for(spec["seed"], "c10-lazy", spec["shard"]))
    if 8 <= spec["shard"] < 11:
        read_options_case(rec, rng_for(spec["seed"], "c10-readopt", spec["shard"]))
    if spec["shard"] < 4:
        two_filesets_case(rec, rng_for(spec["seed"], "c10-two", spec["shard"]))
    if 11 <= spec["shard"] < 14:
        compressed_case(rec, rng_for(spec["seed"], "c10-gz", spec["shard"]))
        same_basename_case(rec, rng_for(spec["seed"], "c10-base", spec["shard"]))
    if spec["kind"] == "enum":
        run_enum(spec, rec)
    elif spec["kind"] == "sampled":
        run_sampled(spec, rec)
    else:
        run_align(spec, rec)


def evidence_extra(counters, sets):
    orders = {k[len("orders:"):]: len(v) for k, v in sets.items() if k.startswith("orders:")}
    return {"distinct_completion_orders_observed": orders}


def replay(case, rec):
    if case.get("kind") == "read-options":
        for k in range(3):
            read_options_case(rec, rng_for(k, "c10-readopt-replay"))
        return
    if case.get("kind") == "same-basename":
        for k in range(3):
            same_basename_case(rec, rng_for(k, "c10-base-replay"))
        return
    if case.get("kind") == "compressed":
        for k in range(3):
            compressed_case(rec, rng_for(k, "c10-gz-replay"))
        return
    if case.get("kind") == "tail-laziness":
        for k in range(4):
            tail_laziness_case(rec, rng_for(k, "c10-lazy-replay"))
        return
    if case.get("kind") == "two-filesets":
        for k in range(4):
            two_filesets_case(rec, rng_for(k, "c10-two-replay"))
        return
    if case.get("kind") == "align":
        align_case(rec, None, case["cfg"], choices=case.get("choices"))
    else:
        Exec(case["cfg"], choices=case.get("choices")).run(rec)
