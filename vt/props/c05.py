"""C05 - collocating filesets equals collocating all their data, for any process count.

Clauses and where decided (run_config)
  * sum over everything yielded (or over all written files) == brute force over the complete data of
    both filesets restricted to [start, end], each collocation once              oracle vt.models.colloc
  * same multiset for processes in 1..4, bundle None / 'primary' / 'daily', output to memory or to a
    Collocations fileset, and for two different splits of the same points into files   run_group
  * output files are named by the time span of the collocations they hold and read back unchanged
  * skip_file_errors: an unreadable file only removes the collocations involving that file
Monitors: id pairs carried in the data (never indices); conservation monitor inside the forked workers
(wrappers on Collocator._collocate_matches / _save_and_return logging to an O_APPEND file: pairs
yielded by the per-match collocation == pairs flushed, per process); C13 structure post-condition on
every yielded / written dataset; per-file read delays and a slow consumer vary the arrival order of
the workers' results (distinct arrival orders are counted).
Open finding (known_findings.json 'output-name-collision'): with file output two results whose
collocated primaries span the same (start, end) get the same file name; the later write replaces the
earlier.  The classifier accepts as known exactly the loss explained by such name groups.
"""
import datetime as dt
import json
import os
import pickle
import shutil
import time
import traceback
import warnings

import numpy as np

from vt.core import rng_for, scratch_dir
from vt.models import colloc as M
from vt.monitors import collocmon

D = dt.timedelta
ID = "C05"
LEVEL = "exploration"
RULE = ("two filesets of 1-12 pickle files each (different file lengths, one file covering many of the other "
        "set, gaps, points exactly on file boundaries, a primary point collocating with two adjacent secondary "
        "files) x periods cutting through files x max_interval smaller/larger than the file length x processes "
        "1-4 x bundle None/primary/daily x memory/file output x read delays + slow consumer x one unreadable "
        "file with skip_file_errors. non-trivial = >= 2 file matches and >= 1 expected pair whose files are not "
        "each other's only match; distinct by (configuration class | data seed + options)")
ASSUMPTIONS = [
    "oracle: brute force (vt.models.colloc) over the union of all points, window [start, end] closed",
    "precondition generated: every point is stored in exactly one file whose name-derived coverage contains "
    "its time; times and max_interval on whole seconds",
    "input and output files go through a pickle-based FileHandler (safe under fork/threads)",
    "a hung result queue is caught by the shard watchdog and is inconclusive",
]
MIN_NONTRIVIAL = {"quick": 20, "thorough": 400}
REQUIRED_COUNTERS = {"runs.main_delay": 5, "runs.memory": 30, "runs.file_output": 15, "runs.multi_process": 20,
                     "runs.skip_file_errors": 5, "conservation.checked": 30}
SHARD_TIMEOUT = {"quick": 900, "thorough": 7200}

SEC = M.SEC
DAY0 = dt.datetime(2018, 3, 1)
IN_TEMPLATE = "{year}{month}{day}/{hour}{minute}{second}-{end_hour}{end_minute}{end_second}.pkl"
OUT_TEMPLATE = ("out/{year}{month}{day}_{hour}{minute}{second}-"
                "{end_year}{end_month}{end_day}_{end_hour}{end_minute}{end_second}.pkl")


def shards(tier, seed):
    n = 3 if tier == "quick" else 60
    return [{"kind": "filesets", "seed": seed, "shard": i, "n": n} for i in range(16)]


# ---------------------------------------------------------------------------
# pickle handler (module level: picklable, used inside forked workers)
# ---------------------------------------------------------------------------
def _cfg():
    p = os.environ.get("VT_C05_CFG")
    if not p:
        return {}
    try:
        with open(p) as fh:
            return json.load(fh)
    except Exception:
        return {}


class Unreadable(Exception):
    pass


def pkl_read(file_info):
    cfg = _cfg()
    base = os.path.basename(file_info.path)
    delay = cfg.get("delays", {}).get(base)
    if delay:
        time.sleep(delay)
    if file_info.path in cfg.get("unreadable", []):
        raise Unreadable("harness: cannot read " + base)
    with open(file_info.path, "rb") as fh:
        return pickle.load(fh)


def pkl_write(data, file_info):
    tmp = file_info.path + ".part"
    with open(tmp, "wb") as fh:
        pickle.dump(data, fh)
    os.replace(tmp, file_info.path)


def handler():
    from typhon.files import FileHandler
    return FileHandler(reader=pkl_read, writer=pkl_write)


# ---------------------------------------------------------------------------
# data
# ---------------------------------------------------------------------------
def to_ds(pts):
    import xarray as xr
    n = pts["time"].size
    return xr.Dataset({
        "time": ("obs", pts["time"].astype("datetime64[ns]")),
        "lat": ("obs", pts["lat"]), "lon": ("obs", pts["lon"]), "id": ("obs", pts["id"]),
    }, coords={"obs": np.arange(n) * 2 + 1})


def gen_files(rng, cfg, which):
    """File coverages (whole seconds relative to DAY0): list of (t0, t1)."""
    c = cfg[which]
    t = c["first"]
    out = []
    for k in range(c["files"]):
        length = rng.choice(c["lengths"])
        out.append((t, t + length))
        gap = rng.choice(c["gaps"])
        t = t + length + gap
    return out


def gen_data(cfg):
    """Points of both sets, their files, and the registry file -> point ids."""
    rng = np.random.default_rng(cfg["seed"])
    prng = rng_for(cfg["seed"], "c05-files")
    sets = {}
    for which, base_id in (("A", 100000), ("B", 500000)):
        files = gen_files(prng, cfg, which)
        pts_t, pts_file = [], []
        grid = cfg.get("grid") if which == "B" else None
        pts_k = []
        for fi, (t0, t1) in enumerate(files):
            n = int(rng.integers(1, cfg[which]["ppf"] + 1))
            if cfg[which].get("exact_ppf"):
                n = cfg[which]["ppf"]
            if grid:      # instrument on a fixed grid: every file holds the same positions, some only a few
                n = 3 if rng.random() < grid["tiny_p"] else grid["n"]
            elif cfg.get("grid"):
                n = cfg[which]["ppf"]  # dense track
            pts_k.extend(range(n))
            ts = rng.integers(t0, t1 + 1, n)
            # points exactly on the file's boundaries (the coverage is closed; with adjoining files
            # the shared second belongs to exactly one file: the harness decides)
            if n >= 2 and rng.random() < 0.7:
                ts[0] = t0
                if not (fi + 1 < len(files) and files[fi + 1][0] == t1):
                    ts[1] = t1
            pts_t.extend(int(x) for x in ts)
            pts_file.extend([fi] * n)
        n = len(pts_t)
        lat = np.empty(n)
        lon = np.empty(n)
        for i in range(n):
            lat[i], lon[i] = M.offset_point(20.0, 30.0, rng.uniform(0, cfg["spread_km"]),
                                            rng.uniform(0, 2 * np.pi), rng)
        if grid:
            glat, glon = lat[:grid["n"]].copy(), lon[:grid["n"]].copy()
            k = np.array(pts_k)
            lat, lon = glat[k], glon[k]
        sets[which] = {"files": files, "file_of": np.array(pts_file),
                       "pts": {"time": M.T0 + np.array(pts_t, dtype=np.int64) * SEC, "lat": lat,
                               "lon": lon, "id": np.arange(n, dtype=np.int64) + base_id}}
    # collision probe: one primary point right between two adjacent secondary files
    if cfg.get("collision_probe") and len(sets["B"]["files"]) >= 2:
        A, B = sets["A"], sets["B"]
        f0, f1 = B["files"][0], B["files"][1]
        # find / create a primary point at the seam, and secondaries on both sides close to it
        seam = (f0[1] + f1[0]) // 2
        for fi, (t0, t1) in enumerate(A["files"]):
            if t0 <= seam <= t1:
                idx = np.nonzero(A["file_of"] == fi)[0][0]
                A["pts"]["time"][idx] = M.T0 + seam * SEC
                for side, fj in ((f0[1], 0), (f1[0], 1)):
                    cand = np.nonzero(B["file_of"] == fj)[0][0]
                    B["pts"]["time"][cand] = M.T0 + side * SEC
                    B["pts"]["lat"][cand] = A["pts"]["lat"][idx]
                    B["pts"]["lon"][cand] = A["pts"]["lon"][idx]
                break
    if cfg.get("end_on_file_start") and len(sets["A"]["files"]) >= 2:
        A, B = sets["A"], sets["B"]
        fi = 1 + cfg["end_on_file_start"] % (len(A["files"]) - 1)
        if cfg.get("end_on_last_file"):
            fi = len(A["files"]) - 1
        t0 = A["files"][fi][0]
        idx = np.nonzero(A["file_of"] == fi)[0][0]
        A["pts"]["time"][idx] = M.T0 + t0 * SEC
        tq = t0 - min(cfg["mi_s"] - 1, 30)
        for fj, (b0, b1) in enumerate(B["files"]):
            if b0 <= tq <= b1:
                cand = np.nonzero(B["file_of"] == fj)[0][0]
                B["pts"]["time"][cand] = M.T0 + tq * SEC
                B["pts"]["lat"][cand] = A["pts"]["lat"][idx]
                B["pts"]["lon"][cand] = A["pts"]["lon"][idx]
                cfg["edge_partner"] = True
                break
        cfg["end"] = int(t0)
        cfg["start"] = int(min(cfg["start"], max(0, t0 - 7200)))
    return sets


def file_name(root, which, t0, t1):
    a = DAY0 + D(seconds=int(t0))
    b = DAY0 + D(seconds=int(t1))
    return "%s/%s/%s/%s-%s.pkl" % (root, which, a.strftime("%Y%m%d"), a.strftime("%H%M%S"),
                                   b.strftime("%H%M%S"))


def write_sets(root, sets, split=None):
    """Materialise; returns path -> ids for each set."""
    reg = {}
    for which, s in sets.items():
        for fi, (t0, t1) in enumerate(s["files"]):
            sel = np.nonzero(s["file_of"] == fi)[0]
            p = file_name(root, which, t0, t1)
            os.makedirs(os.path.dirname(p), exist_ok=True)
            pts = {k: v[sel] for k, v in s["pts"].items()}
            with open(p, "wb") as fh:
                pickle.dump(to_ds(pts), fh)
            reg[p] = set(int(i) for i in pts["id"])
    return reg


def resplit(sets, rng):
    """The same points in other files: every file is cut in two at a random second."""
    out = {}
    for which, s in sets.items():
        files, file_of = [], np.empty_like(s["file_of"])
        tsec = (s["pts"]["time"] - M.T0) // SEC
        for fi, (t0, t1) in enumerate(s["files"]):
            sel = np.nonzero(s["file_of"] == fi)[0]
            cut = int(rng.randrange(t0, t1)) if t1 - t0 >= 2 else None
            # every file keeps at least one point (the statement speaks of data files, not empty ones)
            if cut is not None and rng.random() < 0.8 and (tsec[sel] <= cut).any() \
                    and (tsec[sel] > cut).any():
                files.append((t0, cut))
                files.append((cut + 1, t1))
                for i in sel:
                    file_of[i] = len(files) - 2 if tsec[i] <= cut else len(files) - 1
            else:
                files.append((t0, t1))
                file_of[sel] = len(files) - 1
        out[which] = {"files": files, "file_of": file_of, "pts": s["pts"]}
    return out


# ---------------------------------------------------------------------------
# conservation monitor inside the workers
# ---------------------------------------------------------------------------
_installed = {}


def install_worker_monitor():
    from typhon.collocations.collocator import Collocator
    if _installed:
        return
    import logging
    logging.getLogger("typhon").setLevel(logging.CRITICAL)  # progress bars go to logger.error
    orig_matches = Collocator._collocate_matches
    orig_save = Collocator._save_and_return

    def log(kind, n):
        p = os.environ.get("VT_C05_LOG")
        if not p:
            return
        fd = os.open(p, os.O_WRONLY | os.O_APPEND | os.O_CREAT, 0o644)
        try:
            os.write(fd, (json.dumps({"k": kind, "pid": os.getpid(), "n": n,
                                      "t": time.monotonic_ns()}) + "\n").encode())
        finally:
            os.close(fd)

    def matches(self, *a, **kw):
        for collocations, attributes in orig_matches(self, *a, **kw):
            if collocations is not None:
                log("in", int(collocations["Collocations/pairs"].shape[1]))
            yield collocations, attributes

    def save(self, collocations, attributes, output, *a, **kw):
        if isinstance(collocations, list):
            n = sum(int(c["Collocations/pairs"].shape[1]) for c in collocations)
        else:
            n = int(collocations["Collocations/pairs"].shape[1])
        log("out", n)
        return orig_save(self, collocations, attributes, output, *a, **kw)

    Collocator._collocate_matches = matches
    Collocator._save_and_return = save
    _installed["x"] = (orig_matches, orig_save)


# ---------------------------------------------------------------------------
def pairs_of(ds, names=("A", "B")):
    pairs = ds["Collocations/pairs"].values
    ia = ds[names[0] + "/id"].values
    ib = ds[names[1] + "/id"].values
    return [(int(ia[a]), int(ib[b])) for a, b in zip(pairs[0], pairs[1])]


def run_once(rec, root, cfg, opt, reg, sets, expected, case):
    """One collocate_filesets run; returns list of (result pairs, attrs) or None on harness failure."""
    from typhon.files import FileSet
    from typhon.collocations import Collocator, Collocations
    fsA = FileSet(path=root + "/A/" + IN_TEMPLATE, name="A", handler=handler())
    fsB = FileSet(path=root + "/B/" + IN_TEMPLATE, name="B", handler=handler())
    cfgfile = os.path.join(root, "run_cfg.json")
    logfile = os.path.join(root, "worker.log")
    if os.path.exists(logfile):
        os.remove(logfile)
    drng = rng_for(cfg["seed"], "delays", opt.get("delay_seed", 0))
    delays = {}
    if opt.get("delays"):
        for p in reg:
            if drng.random() < 0.6:
                delays[os.path.basename(p)] = drng.choice([0.002, 0.01, 0.03])
    with open(cfgfile, "w") as fh:
        json.dump({"delays": delays, "unreadable": opt.get("unreadable", [])}, fh)
    os.environ["VT_C05_CFG"] = cfgfile
    os.environ["VT_C05_LOG"] = logfile
    out_fs = None
    outdir = os.path.join(root, "out")
    if os.path.isdir(outdir):
        shutil.rmtree(outdir)
    if opt["output"] == "file":
        if opt.get("netcdf"):
            # the default handler chosen from the suffix (NetCDF4), as Collocations.search is documented
            out_fs = Collocations(path=root + "/" + OUT_TEMPLATE[:-4] + ".nc", read_mode="compact")
        else:
            out_fs = Collocations(path=root + "/" + OUT_TEMPLATE, handler=handler(), read_mode="compact")
    restore_makedirs = None
    if out_fs is not None and opt["processes"] >= 2 and opt.get("mkdir_rendezvous"):
        # schedule control at an existing suspension point (the system call that creates the output
        # directory): the first directory creation of two workers is made to coincide
        import multiprocessing
        bar = multiprocessing.get_context("fork").Barrier(2)
        fsys = out_fs.file_system
        orig_makedirs = fsys.makedirs
        first = {"pid": None}

        def makedirs(path, exist_ok=False, **mk):
            if first["pid"] != os.getpid():
                first["pid"] = os.getpid()
                try:
                    bar.wait(timeout=1.5)
                except Exception:
                    pass     # no second worker reaches this point: go on alone
            return orig_makedirs(path, exist_ok=exist_ok, **mk)
        fsys.makedirs = makedirs
        restore_makedirs = (fsys, orig_makedirs)
        rec.count("runs.mkdir_rendezvous")
    start = DAY0 + D(seconds=cfg["start"])
    end = DAY0 + D(seconds=cfg["end"])
    kw = dict(start=start, end=end, processes=opt["processes"], bundle=opt["bundle"],
              max_interval=cfg["mi_s"], max_distance=cfg["r_km"],
              skip_file_errors=bool(opt.get("unreadable")))
    results = []
    rec.ev()
    rec.count("runs." + ("file_output" if out_fs is not None else "memory"))
    if opt["processes"] > 1:
        rec.count("runs.multi_process")
    if opt.get("unreadable"):
        rec.count("runs.skip_file_errors")
    arrival = []
    probe = None
    if opt.get("main_delay"):
        # a legitimate suspension point of the parent: the head of its polling loop.  Sleeping there
        # lets workers finish and exit while their last results are still in the queue.
        from vt.monitors import lineprobe
        import inspect
        code = Collocator.collocate_filesets.__code__
        src, first = inspect.getsourcelines(Collocator.collocate_filesets)
        target = [first + i for i, t in enumerate(src) if t.strip().startswith("running = [")]
        hits = {"n": 0}

        def cb(c, line, frame):
            if target and line == target[-1]:
                hits["n"] += 1
                time.sleep(0.03)
        probe = lineprobe.LineProbe([code], cb)
    try:
        with warnings.catch_warnings():
            warnings.simplefilter("ignore")
            if probe:
                probe.__enter__()
            gen = Collocator().collocate_filesets([fsA, fsB], output=out_fs, **kw)
            for item in gen:
                if opt.get("slow_consumer"):
                    time.sleep(0.01)
                results.append(item)
            if probe:
                rec.count("runs.main_delay")
                rec.count("main_delay.injections", hits["n"])
    except Exception as exc:
        if type(exc).__name__ == "NoFilesError" and not expected["must"]:
            return []
        rec.violation("filesets-exception", case, {"exception": repr(exc),
                                                   "trace": traceback.format_exc()[-1500:]})
        return None
    finally:
        if probe:
            probe.__exit__(None, None, None)
        if restore_makedirs:
            try:
                del restore_makedirs[0].makedirs      # back to the class's method
            except AttributeError:
                restore_makedirs[0].makedirs = restore_makedirs[1]
        os.environ.pop("VT_C05_CFG", None)
        os.environ.pop("VT_C05_LOG", None)
    # conservation inside the workers
    if os.path.exists(logfile):
        per = {}
        order = []
        for line in open(logfile):
            e = json.loads(line)
            per.setdefault(e["pid"], {"in": 0, "out": 0})
            per[e["pid"]][e["k"]] += e["n"]
            if e["k"] == "out":
                order.append(e["pid"])
        rec.count("conservation.checked")
        pids = {p: i for i, p in enumerate(sorted(per))}
        rec.setadd("arrival_orders", [pids[p] for p in order])
        for pid, c in per.items():
            if c["in"] != c["out"]:
                rec.violation("bundle-conservation", case,
                              {"why": "pairs found by a worker != pairs it flushed",
                               "found": c["in"], "flushed": c["out"]})
                return None
    out = []
    if out_fs is None:
        for item in results:
            if not (isinstance(item, tuple) and len(item) == 2):
                rec.violation("filesets-wrong", case, {"why": "unexpected item yielded", "item": repr(item)[:200]})
                return None
            ds, attrs = item
            sv = collocmon.structure_violation(ds)
            if sv:
                rec.violation("collocation-structure", case, sv)
                return None
            out.append({"pairs": pairs_of(ds), "start": ds.attrs.get("start_time"),
                        "end": ds.attrs.get("end_time"), "ds": ds})
    else:
        names = [r for r in results if r is not None]
        files = []
        for d, _, fs in os.walk(outdir):
            files += [os.path.join(d, f) for f in fs]
        for p in sorted(files):
            if opt.get("netcdf"):
                try:
                    ds = out_fs.read(p)
                    rec.count("output.netcdf_files")
                except Exception as exc:
                    rec.violation("output-readback", case, {"why": "NetCDF collocation file cannot be read",
                                                            "exception": repr(exc),
                                                            "trace": traceback.format_exc()[-800:]})
                    return None
            else:
                with open(p, "rb") as fh:
                    ds = pickle.load(fh)
            sv = collocmon.structure_violation(ds)
            if sv:
                rec.violation("collocation-structure", case, dict(sv, file=os.path.basename(p)))
                return None
            # named by the time span of what it holds
            t = ds["A/time"].values
            lo = np.datetime64(t.min(), "s").astype(dt.datetime)
            hi = np.datetime64(t.max(), "s").astype(dt.datetime)
            want = "%s-%s.%s" % (lo.strftime("%Y%m%d_%H%M%S"), hi.strftime("%Y%m%d_%H%M%S"),
                                 "nc" if opt.get("netcdf") else "pkl")
            if os.path.basename(p) != want:
                rec.violation("output-name", case, {"why": "file name is not the time span of its content",
                                                    "name": os.path.basename(p), "want": want})
                return None
            # read back through the Collocations fileset in compact mode
            try:
                back = out_fs.read(p)
                if pairs_of(back) != pairs_of(ds):
                    rec.violation("output-readback", case, {"why": "read() differs from the stored file"})
                    return None
            except Exception as exc:
                rec.violation("output-readback", case, {"exception": repr(exc)})
                return None
            out.append({"pairs": pairs_of(ds), "file": os.path.basename(p), "ds": ds})
        rec.count("output.files", len(files))
        if len(set(names)) != len(files):
            rec.count("output.names_yielded_vs_files_differ")
    return out


def judge(rec, case, results, expected, info, what):
    got = [p for r in results for p in r["pairs"]]
    gset = set(got)
    must, may = expected["must"], expected["may"]
    if len(got) != len(gset):
        dup = sorted(set(p for p in got if got.count(p) > 1))[:3]
        rec.violation("filesets-duplicate-pairs", case, {"why": "collocation reported more than once",
                                                         "what": what, "examples": dup})
        return False
    if must - gset:
        miss = sorted(must - gset)[:3]
        rec.violation("filesets-missing-pairs", case,
                      {"why": "collocations missing", "what": what, "n_missing": len(must - gset),
                       "n_expected": len(must), "examples": miss,
                       "dt_ns/chord_km": [info[k] for k in miss]})
        return False
    if gset - must - may:
        rec.violation("filesets-extra-pairs", case,
                      {"why": "collocations reported that do not exist", "what": what,
                       "examples": sorted(gset - must - may)[:3]})
        return False
    return True


def expected_for(sets, cfg, drop_ids=()):
    P = {k: v for k, v in sets["A"]["pts"].items()}
    S = {k: v for k, v in sets["B"]["pts"].items()}
    if drop_ids:
        keep = ~np.isin(P["id"], list(drop_ids))
        P = {k: v[keep] for k, v in P.items()}
        keep = ~np.isin(S["id"], list(drop_ids))
        S = {k: v[keep] for k, v in S.items()}
    must, may, info = M.brute(P, S, cfg["mi_s"] * SEC, cfg["r_km"], M.T0 + cfg["start"] * SEC,
                              M.T0 + cfg["end"] * SEC)
    return {"must": must, "may": may}, info


def gen_cfg(rng, force=None):
    mi = rng.choice([60, 600, 1800, 7200])
    a_len = rng.choice([[600, 1200], [1800], [300, 900, 2400]])
    b_len = rng.choice([[600, 1500], [3600], [7200, 14400], [40000]])
    cfg = {"kind": "filesets", "seed": rng.randrange(2 ** 31), "mi_s": mi,
           "r_km": rng.choice([5.0, 20.0, 60.0]), "spread_km": rng.choice([10.0, 40.0]),
           "A": {"files": rng.choice([1, 2, 4, 7, 12]), "lengths": a_len,
                 "gaps": rng.choice([[0], [0, 1], [1, 300], [0, 2000]]), "first": rng.choice([0, 600, 3600]),
                 "ppf": rng.choice([3, 10, 40])},
           "B": {"files": rng.choice([1, 2, 3, 6, 10]), "lengths": b_len,
                 "gaps": rng.choice([[0], [1], [0, 600]]), "first": rng.choice([0, 300, 1800]),
                 "ppf": rng.choice([3, 10, 40])},
           "collision_probe": rng.random() < 0.3}
    if rng.random() < 0.2:
        # max_interval of a day or more: the filesets' files do not overlap in time at all
        cfg["mi_s"] = rng.choice([86400, 90000, 129600])
        cfg["B"]["first"] = rng.choice([50000, 72000, 86000])
        cfg["A"]["files"] = min(cfg["A"]["files"], 4)
        cfg["B"]["files"] = min(cfg["B"]["files"], 3)
        cfg["B"]["lengths"] = [600, 1500]
    if force == "grid" or (force is None and rng.random() < 0.15):
        # an instrument on a fixed grid (identical positions in consecutive files, a few partial files)
        # against a dense track: consecutive file pairs of one worker can reuse the spatial index
        cfg["grid"] = {"n": rng.choice([40, 100]), "tiny_p": 0.3}
        cfg["mi_s"] = rng.choice([600, 1800])
        cfg["A"].update({"files": rng.choice([1, 2]), "lengths": [7200, 10800], "gaps": [0], "first": 0,
                         "ppf": rng.choice([60, 130, 200])})
        cfg["B"].update({"files": rng.choice([6, 10]), "lengths": [600, 1500], "gaps": [0],
                         "first": rng.choice([0, 1800])})
        if force == "grid":
            # the proportions under which one worker reuses the grid's index and then meets a partial
            # file: about 50 track points in the window of a 100-point grid file
            cfg["grid"] = {"n": 100, "tiny_p": 0.3}
            cfg["mi_s"] = 600
            cfg["A"].update({"files": 1, "lengths": [9000], "ppf": 200, "exact_ppf": True})
            cfg["B"].update({"files": 10, "lengths": [900], "first": 600})
        cfg["collision_probe"] = False
    if force == "big":
        # file pairs with more than 1e6 candidate point pairs: the temporally pre-binned search
        cfg["mi_s"] = rng.choice([60, 600])
        cfg["A"].update({"files": 1, "lengths": [7200], "gaps": [0], "first": 0, "ppf": 1500,
                         "exact_ppf": True})
        cfg["B"].update({"files": rng.choice([1, 2]), "lengths": [7200], "gaps": [0, 600],
                         "first": rng.choice([0, 300]), "ppf": 1100, "exact_ppf": True})
        cfg["r_km"] = rng.choice([5.0, 20.0])
        cfg["collision_probe"] = False
        cfg["big"] = True
    # period: everything, or cutting through files
    total = 12 * 2400 + 3600
    if rng.random() < 0.5:
        cfg["start"], cfg["end"] = 0, 86400 * 3
    else:
        a = rng.randrange(0, 7200)
        cfg["start"], cfg["end"] = a, a + rng.choice([900, 3600, 20000])
    if force == "edge":
        # the period ends exactly where a primary file starts, that file's first sample sits on this
        # second and has a partner shortly before (gen_data places both)
        # (derived from the configuration's seed: the class must not shift the random stream of the others)
        cfg["A"].update({"files": max(4, cfg["A"]["files"]), "gaps": [[0], [0, 1], [300]][cfg["seed"] % 3]})
        # secondary files that touch, or lie exactly 2 * max_interval apart (their widened periods touch)
        if cfg["seed"] % 2:
            # (four files of one length: the widened periods of each pair touch in the middle between them)
            cfg["B"].update({"files": 4, "gaps": [2 * cfg["mi_s"]], "lengths": [600], "first": 0})
            cfg["A"].update({"files": max(6, cfg["A"]["files"]), "first": 0})
            cfg["end_on_last_file"] = True
        else:
            cfg["B"].update({"files": max(3, cfg["B"]["files"]), "gaps": [0], "first": 0})
        cfg["end_on_file_start"] = 1 + cfg["seed"] % 97
        cfg["collision_probe"] = False
        cfg.pop("grid", None)
    if force == "midnight" or (force is None and rng.random() < 0.15):
        # files that sit in the directory of their start day and reach into the next day; the period
        # starts on that next day
        cfg["mi_s"] = rng.choice([60, 600, 1800])
        cfg["A"].update({"files": rng.choice([8, 10, 12]), "lengths": [1800, 2400], "gaps": [0, 1],
                         "first": rng.choice([78000, 82000, 84500]), "ppf": rng.choice([10, 40])})
        cfg["B"].update({"files": rng.choice([3, 4]), "lengths": rng.choice([[7200, 14400], [3600, 5400]]),
                         "gaps": [0, 600], "first": rng.choice([76000, 81000, 85000]),
                         "ppf": rng.choice([10, 40])})
        cfg.pop("grid", None)
        cfg["collision_probe"] = False
        a = 86400 + rng.choice([0, 600, 1800, 5400])
        cfg["start"], cfg["end"] = a, a + rng.choice([3600, 7200, 86400])
        cfg["midnight"] = True
    return cfg


def run_config(rec, rng, cfg):
    install_worker_monitor()
    sets = gen_data(cfg)
    expected, info = expected_for(sets, cfg)
    root = scratch_dir("c05")
    case = dict(cfg)
    try:
        reg = write_sets(root, sets)
        n_matches_hint = len(sets["A"]["files"]) * len(sets["B"]["files"])
        opts = []
        # memory output under several process counts / bundles / schedules
        for procs in rng.sample([1, 2, 3, 4], 2):
            opts.append({"output": "memory", "processes": procs,
                         "bundle": rng.choice([None, "primary", "daily"]),
                         "delays": rng.random() < 0.6, "delay_seed": rng.randrange(100),
                         "slow_consumer": rng.random() < 0.4, "main_delay": rng.random() < 0.5})
        fopt = {"output": "file", "processes": rng.choice([1, 2, 4]), "mkdir_rendezvous": rng.random() < 0.6,
                "bundle": rng.choice([None, "primary", "daily"]), "delays": rng.random() < 0.5,
                "delay_seed": rng.randrange(100), "netcdf": rng.random() < 0.35}
        opts.append(fopt)
        nontriv = bool(expected["must"]) and len(sets["A"]["files"]) + len(sets["B"]["files"]) >= 3
        for opt in opts:
            c = dict(case, opt=opt)
            res = run_once(rec, root, cfg, opt, reg, sets, expected, c)
            if res is None:
                continue
            if opt["output"] == "memory":
                judge(rec, c, res, expected, info, "datasets yielded")
            else:
                ok = classify_file_output(rec, root, cfg, opt, reg, sets, expected, info, c, res)
            if cfg.get("grid"):
                rec.count("runs.fixed_grid")
            if nontriv:
                rec.nontriv([opt["output"], opt["processes"], opt["bundle"], bool(opt.get("delays")),
                             bool(opt.get("slow_consumer")), len(cfg["B"]["lengths"]),
                             cfg["mi_s"] >= 1800], [cfg["seed"], opt])
        # one unreadable file with skip_file_errors
        if len(reg) >= 3:
            bfiles = sorted(p for p in reg if "/B/" in p)
            # preferably a secondary file that is followed by other secondaries of the same primary
            victim = bfiles[rng.choice([0, len(bfiles) // 2])] if len(bfiles) >= 2 and rng.random() < 0.7 \
                else rng.choice(sorted(reg))
            exp2, info2 = expected_for(sets, cfg, drop_ids=reg[victim])
            opt = {"output": "memory", "processes": rng.choice([1, 2]), "bundle": rng.choice([None, "primary"]),
                   "unreadable": [victim]}
            c = dict(case, opt=dict(opt, unreadable=[os.path.relpath(victim, root)]))
            res = run_once(rec, root, cfg, opt, reg, sets, exp2, c)
            if res is not None:
                judge(rec, c, res, exp2, info2, "with one unreadable file skipped")
        afiles = sorted(p for p in reg if "/A/" in p)
        if len(afiles) >= 3 and cfg["seed"] % 2 == 0:
            # ... and an unreadable primary file that is followed by other primaries of the same worker
            victim = afiles[(cfg["seed"] // 2) % (len(afiles) - 1)]
            exp2, info2 = expected_for(sets, cfg, drop_ids=reg[victim])
            opt = {"output": "memory", "processes": 1 + (cfg["seed"] // 4) % 2,
                   "bundle": [None, "primary"][(cfg["seed"] // 8) % 2], "unreadable": [victim]}
            c = dict(case, opt=dict(opt, unreadable=[os.path.relpath(victim, root)]))
            rec.count("runs.unreadable_primary_not_last")
            res = run_once(rec, root, cfg, opt, reg, sets, exp2, c)
            if res is not None:
                judge(rec, c, res, exp2, info2, "with one unreadable primary file skipped")
        # the same points split into other files
        if rng.random() < 0.5:
            sets2 = resplit(sets, rng_for(cfg["seed"], "resplit"))
            root2 = root + "-split"
            os.mkdir(root2)
            try:
                reg2 = write_sets(root2, sets2)
                opt = {"output": "memory", "processes": rng.choice([1, 3]), "bundle": None}
                c = dict(case, opt=opt, resplit=True)
                res = run_once(rec, root2, cfg, opt, reg2, sets2, expected, c)
                rec.count("runs.resplit")
                if res is not None:
                    judge(rec, c, res, expected, info, "other split of the same points into files")
            finally:
                shutil.rmtree(root2, ignore_errors=True)
    finally:
        shutil.rmtree(root, ignore_errors=True)


def classify_file_output(rec, root, cfg, opt, reg, sets, expected, info, case, file_results):
    """Files written vs expectation; a loss that is exactly explained by results sharing one output
    name is the open finding 'output-name-collision', anything else is a fresh violation."""
    got = [p for r in file_results for p in r["pairs"]]
    gset = set(got)
    must, may = expected["must"], expected["may"]
    if len(got) == len(gset) and not (must - gset) and not (gset - must - may):
        return True
    # re-run the same configuration in memory: which results map to the same output name?
    mem_opt = dict(opt, output="memory", delays=False)
    mem = run_once(rec, root, cfg, mem_opt, reg, sets, expected, dict(case, classifier_rerun=True))
    if mem is None:
        return False
    groups = {}
    for r in mem:
        t = r["ds"]["A/time"].values
        lo = np.datetime64(t.min(), "s").astype(dt.datetime)
        hi = np.datetime64(t.max(), "s").astype(dt.datetime)
        name = "%s-%s.%s" % (lo.strftime("%Y%m%d_%H%M%S"), hi.strftime("%Y%m%d_%H%M%S"),
                             "nc" if opt.get("netcdf") else "pkl")
        groups.setdefault(name, []).append(frozenset(r["pairs"]))
    collided = {n: g for n, g in groups.items() if len(g) > 1}
    explained = bool(collided)
    if explained:
        by_file = {r["file"]: frozenset(r["pairs"]) for r in file_results}
        if set(by_file) != set(groups):
            explained = False
        else:
            for name, members in groups.items():
                if by_file[name] not in members:
                    explained = False
    mem_ok = judge(rec, dict(case, classifier_rerun=True), mem, expected, info,
                   "in-memory re-run of the file-output configuration")
    if explained and mem_ok:
        lost = sum(len(m) for g in collided.values() for m in g) - sum(len(by_file[n]) for n in collided)
        rec.violation("output-name-collision", case,
                      {"why": "results with the same collocated-primary time span share one output file name; "
                              "the later write replaced the earlier",
                       "colliding_names": {n: len(g) for n, g in list(collided.items())[:3]},
                       "collocations_lost": lost})
        return False
    judge(rec, case, file_results, expected, info, "files written by the Collocations fileset")
    return False


def run_shard(spec, rec):
    rng = rng_for(spec["seed"], "c05", spec["shard"])
    for i in range(spec["n"]):
        # every fourth shard starts with one configuration of a class that is rare in the random mix
        force = {0: "edge", 1: "grid", 2: "midnight", 3: "big"}.get(spec["shard"] % 4) if i == 0 else None
        cfg = gen_cfg(rng, force)
        for k in ("grid", "midnight", "big", "end_on_file_start"):
            if cfg.get(k):
                rec.count("configs." + k)
        if i < 1:
            rec.sample(cfg)
        try:
            run_config(rec, rng, cfg)
        except Exception as exc:
            rec.inconc("harness error: %r %s" % (exc, traceback.format_exc()[-1000:]))
    # fixed witness of the open finding: one primary point between two adjacent secondary files
    if spec["shard"] == 0:
        witness(rec)


def witness(rec):
    cfg = {"kind": "filesets", "seed": 4242, "mi_s": 600, "r_km": 20.0, "spread_km": 5.0,
           "A": {"files": 1, "lengths": [3600], "gaps": [0], "first": 0, "ppf": 1},
           "B": {"files": 2, "lengths": [1800], "gaps": [1], "first": 0, "ppf": 2},
           "collision_probe": True, "start": 0, "end": 86400}
    install_worker_monitor()
    sets = gen_data(cfg)
    expected, info = expected_for(sets, cfg)
    root = scratch_dir("c05w")
    try:
        reg = write_sets(root, sets)
        opt = {"output": "file", "processes": 1, "bundle": None}
        c = dict(cfg, opt=opt, witness=True)
        res = run_once(rec, root, cfg, opt, reg, sets, expected, c)
        rec.count("witness.runs")
        if res is not None:
            classify_file_output(rec, root, cfg, opt, reg, sets, expected, info, c, res)
    finally:
        shutil.rmtree(root, ignore_errors=True)


def evidence_extra(counters, sets):
    return {"distinct_worker_arrival_orders": len(sets.get("arrival_orders", []))}


def replay(case, rec):
    cfg = {k: v for k, v in case.items() if k not in ("opt", "resplit", "witness", "classifier_rerun")}
    install_worker_monitor()
    sets = gen_data(cfg)
    if case.get("resplit"):
        sets = resplit(sets, rng_for(cfg["seed"], "resplit"))
    opt = dict(case.get("opt") or {"output": "memory", "processes": 1, "bundle": None})
    root = scratch_dir("c05r")
    try:
        reg = write_sets(root, sets)
        drop = ()
        if opt.get("unreadable"):
            opt["unreadable"] = [os.path.join(root, u) for u in opt["unreadable"]]
            drop = set().union(*[reg[u] for u in opt["unreadable"] if u in reg])
        expected, info = expected_for(sets, cfg, drop_ids=drop)
        res = run_once(rec, root, cfg, opt, reg, sets, expected, case)
        if res is not None:
            if opt["output"] == "memory":
                judge(rec, case, res, expected, info, "replay")
            else:
                classify_file_output(rec, root, cfg, opt, reg, sets, expected, info, case, res)
    finally:
        shutil.rmtree(root, ignore_errors=True)
