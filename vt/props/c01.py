"""C01 - FileSet.find returns exactly the files that overlap the requested period.

Clauses and where they are decided
  * find() == model (every overlapping file once, nothing else, (t0,t1) order)   check_query
  * `t in fs`, `(a,b) in fs`, len(fs)                                              check_membership
  * exclusion by name / by period, white- and black-list filters                  check_query (options)
  * independence of the directory layout (metamorphic: same population under several
    layouts must give the same files)                                             run_group
  * bundling (int / frequency) partitions the ordered sequence                    check_query
  * single-file filesets                                                          single_file_case
  * local and zip file systems                                                    zip pass in run_group
Passive monitors armed meanwhile: IntervalTree wrapper (vt.monitors.treewrap).
"""
import datetime as dt
import os
import shutil
import traceback
import zipfile

from vt.core import rng_for, scratch_dir
from vt.models import fileset as fm

D = dt.timedelta
US = D(microseconds=1)

ID = "C01"
LEVEL = "exploration"
RULE = ("populations of 0-40 files aimed at midnight/month/year/leap boundaries, laid out under "
        "templates from a grammar (15 directory layouts x 5 file-name styles x user placeholder x "
        "wildcard), queries aligned to file/directory boundaries +-{0,1us,1s}; options sort/bundle/"
        "only_path/filters/exclude/no_files_error. non-trivial = expected answer non-empty, a proper "
        "subset of the population, and a file end point within one finest-directory period of a "
        "query bound; distinct by (layout, alignment classes, options | population+query)")
ASSUMPTIONS = [
    "oracle: brute-force filter over the harness' own registry (path,t0,t1,attrs), never parsed from names",
    "precondition of the statement is generated, not checked: each file sits in the directory of its "
    "start time and lasts <= one period of the finest directory level (year 365 d, month 28 d, day 1 d, hour 1 h)",
    "black-list values are chosen so that prefix- and full-match agree (statement leaves it open)",
    "only_path results are compared through os.fspath",
    "frequency bundles: non-empty, concatenation = ordered sequence, start times within one bundle span < freq",
]
MIN_NONTRIVIAL = {"quick": 150, "thorough": 2500}
REQUIRED_COUNTERS = {"interleaved.calls": 50, "find.calls": 400, "membership.calls": 100, "zip.find.calls": 5,
                     "metamorphic.comparisons": 20}
SHARD_TIMEOUT = {"quick": 900, "thorough": 7200}


def shards(tier, seed):
    n = 20 if tier == "quick" else 900
    return [{"kind": "groups", "seed": seed, "shard": i, "n": n} for i in range(16)]


# ---------------------------------------------------------------------------
def iso(t):
    return None if t is None else t.isoformat()


def uniso(s):
    return None if s is None else dt.datetime.fromisoformat(s)


def align_class(t, files, layout):
    if t is None:
        return "open"
    for f in files:
        for k in ("t0", "t1"):
            d = t - f[k]
            if d == D(0):
                return "on-" + k
            if abs(d) <= D(seconds=1):
                return "near-" + k
    if layout.finest and fm.T.truncate(t, layout.finest) == t:
        return "dir-boundary"
    return "free"


def gen_queries(rng, files, layout, n):
    pts = []
    for f in files:
        pts += [f["t0"], f["t1"]]
    if not pts:
        pts = [dt.datetime(2017, 1, 1)]
    qs = []
    for _ in range(n):
        c = rng.randrange(10)
        jit = lambda: rng.choice([D(0), D(0), US, -US, D(seconds=1), -D(seconds=1)])
        if c == 0:
            s, e = None, None
        elif c == 1:
            s, e = rng.choice(pts) + jit(), None
        elif c == 2:
            s, e = None, rng.choice(pts) + jit()
        elif c == 3:  # one microsecond wide
            s = rng.choice(pts) + jit()
            e = s + US
        elif c == 4:  # directory boundaries
            t = rng.choice(pts)
            res = layout.finest or "day"
            s = fm.T.truncate(t, res)
            e = fm.T.truncate(rng.choice(pts), res) + rng.choice([D(0), fm.PERIOD[res], D(days=1)])
        elif c == 5:  # before / after all data
            if rng.random() < 0.5:
                e = min(pts) - rng.choice([D(0), US, D(days=3)])
                s = e - D(days=rng.choice([1, 40]))
            else:
                s = max(pts) + rng.choice([US, D(seconds=1), D(days=3)])
                e = s + D(days=rng.choice([1, 40]))
        else:
            s = rng.choice(pts) + jit()
            e = rng.choice(pts) + jit()
        if s is not None and e is not None:
            if e < s:
                s, e = e, s
            if e - s < US:
                e = s + US
        q = {"start": iso(s), "end": iso(e), "sort": rng.random() < 0.8,
             "bundle": rng.choice([None, None, None, 1, 2, 3, 7, "6h", "1D", "30min"]),
             "only_path": rng.random() < 0.15,
             "no_files_error": rng.random() < 0.5,
             "filters": None}
        if layout.with_sat and rng.random() < 0.5:
            q["filters"] = rng.choice([
                {"sat": "n18"}, {"sat": ["n18", "metop"]}, {"!sat": "n18"},
                {"!sat": ["xn18", "metop"]}, {"sat": ["n18", "xn18", "metop"], "!sat": "xn18"},
                {"sat": "zz-n18-b"}, {"!sat": ["zz-n18-b"]},
            ])
        qs.append(q)
    return qs


def gen_exclude(rng, reg):
    """exclude configuration: names and periods (inside / touching / covering a file)."""
    paths = sorted(reg)
    names, periods = [], []
    if not paths or rng.random() < 0.45:
        return names, periods
    for _ in range(rng.choice([0, 1, 2])):
        names.append(rng.choice(paths))
    for _ in range(rng.choice([0, 1, 1, 2, 3])):
        f = reg[rng.choice(paths)]
        c = rng.randrange(6)
        if c == 0:  # strictly inside the file
            w = f["t1"] - f["t0"]
            p0 = f["t0"] + w / 4
            p1 = f["t1"] - w / 4
            p0 = p0.replace(microsecond=0)
            p1 = max(p0, p1.replace(microsecond=0))
        elif c == 1:  # touching the start
            p1 = f["t0"]
            p0 = p1 - D(hours=1)
        elif c == 2:  # touching the end
            p0 = f["t1"]
            p1 = p0 + D(hours=1)
        elif c == 3:  # one second before the file: must not exclude it
            p1 = f["t0"] - D(seconds=1)
            p0 = p1 - D(hours=1)
        elif c == 4:  # covering the file
            p0 = f["t0"] - D(hours=1)
            p1 = f["t1"] + D(hours=1)
        else:  # equal
            p0, p1 = f["t0"], f["t1"]
        periods.append((p0, p1))
    return names, periods


# ---------------------------------------------------------------------------
def flatten(res):
    out = []
    for item in res:
        if isinstance(item, list):
            out.extend(item)
        else:
            out.append(item)
    return out


def check_query(rec, fs, reg, layout, files, q, excl_names, excl_periods, case, tag="find",
                whole_case=False):
    start, end = uniso(q["start"]), uniso(q["end"])
    s = start or dt.datetime.min
    e = end or dt.datetime.max
    want = fm.visible(reg, layout, s, e, q["filters"], excl_names, excl_periods)
    sub = case if whole_case else dict(case, queries=[q])
    rec.ev()
    rec.count(tag + ".calls")
    # the caller owns one filter dictionary per query and passes that object to every search made with
    # it (all layouts, repetitions); the oracle reads the harness' own q["filters"]
    if q["filters"] is not None and "_caller_filters" not in q:
        import copy
        q["_caller_filters"] = copy.deepcopy(q["filters"])
    if q["filters"] is not None:
        rec.count("find.shared_filter_dict_calls")
    kw = dict(sort=q["sort"], only_path=q["only_path"], bundle=q["bundle"],
              filters=q.get("_caller_filters"), no_files_error=q["no_files_error"])
    try:
        res = list(fs.find(start, end, **kw))
    except Exception as exc:
        if type(exc).__name__ == "NoFilesError" and q["no_files_error"]:
            res = []
            rec.count("find.nofileserror")
            if want:
                rec.violation("find-wrong-answer", sub, {"got": "NoFilesError",
                                                         "want": [os.path.basename(p) for p in want][:8]})
                return
        else:
            rec.violation("find-exception", sub, {"exception": repr(exc),
                                                  "trace": traceback.format_exc()[-1500:]})
            return
    else:
        if q["no_files_error"] and not want and not res:
            # statement: NoFilesError == empty answer; an empty list instead of the error is
            # the same answer, so this is not a verdict
            rec.count("find.empty_without_error")
    bundle = q["bundle"]
    flat = flatten(res)
    try:
        got = [os.fspath(x) for x in flat]
    except TypeError as exc:
        rec.violation("find-exception", sub, {"exception": repr(exc)})
        return
    detail = None
    if sorted(got) != sorted(want):
        detail = {"why": "set differs",
                  "missing": [os.path.basename(p) for p in set(want) - set(got)][:6],
                  "extra": [os.path.basename(p) for p in set(got) - set(want)][:6],
                  "dups": len(got) - len(set(got))}
    elif (q["sort"] or bundle is not None) and not fm.order_ok(got, reg):
        detail = {"why": "not ordered by (t0, t1)", "got": [os.path.basename(p) for p in got][:8]}
    if detail is None and not q["only_path"]:
        for x in flat:
            if hasattr(x, "times"):
                f = reg.get(x.path)
                if f is not None and (list(x.times) != [f["t0"], f["t1"]]):
                    detail = {"why": "FileInfo.times differ from the file's coverage",
                              "file": os.path.basename(x.path),
                              "got": [iso(x.times[0]), iso(x.times[1])],
                              "want": [iso(f["t0"]), iso(f["t1"])]}
                    break
                if f is not None and layout.with_sat and x.attr.get("sat") != f["sat"]:
                    detail = {"why": "attr differs", "got": x.attr, "want": f["sat"]}
                    break
    if detail is None and bundle is not None:
        if any(not isinstance(b, list) or not b for b in res):
            detail = {"why": "bundle not a non-empty list"}
        elif isinstance(bundle, int):
            sizes = [len(b) for b in res]
            if any(sz != bundle for sz in sizes[:-1]) or (sizes and not 0 < sizes[-1] <= bundle):
                detail = {"why": "bundle sizes", "sizes": sizes[:10]}
        else:
            freq = {"6h": D(hours=6), "1D": D(days=1), "30min": D(minutes=30)}[bundle]
            for b in res:
                t0s = [reg[os.fspath(x)]["t0"] for x in b]
                if max(t0s) - min(t0s) >= freq:
                    detail = {"why": "bundle spans more than one frequency period"}
    if detail is not None:
        rec.violation("find-wrong-answer", sub, detail)
    # non-trivial?
    if want and len(want) < len(reg):
        lim = fm.PERIOD[layout.finest] if layout.finest else D(days=1)
        near = False
        for b in (start, end):
            if b is None:
                continue
            for f in files:
                if abs(f["t0"] - b) <= lim or abs(f["t1"] - b) <= lim:
                    near = True
        if near:
            sig = [tag, layout.dirs_name, layout.end_style, layout.with_sat, layout.wildcard,
                   align_class(start, files, layout), align_class(end, files, layout),
                   bool(q["filters"]), bool(excl_names), bool(excl_periods),
                   type(bundle).__name__, q["sort"]]
            rec.nontriv(sig, [case["files"], q, case.get("excl")])
            rec.count("find.nontrivial")
    return got


def check_membership(rec, fs, reg, layout, files, rng, excl_names, excl_periods, case):
    pts = []
    for f in files:
        pts += [f["t0"], f["t1"], f["t0"] - US, f["t1"] + US, f["t0"] + (f["t1"] - f["t0"]) / 2]
    if not pts:
        pts = [dt.datetime(2017, 1, 1)]
    for _ in range(4):
        t = rng.choice(pts)
        vis = fm.visible(reg, layout, t, t + US, None, excl_names, excl_periods)
        rec.count("membership.calls")
        rec.ev()
        try:
            got = t in fs
        except Exception as exc:
            rec.violation("find-exception", dict(case, queries=[], member=iso(t)),
                          {"where": "in", "exception": repr(exc)})
            continue
        if bool(got) != bool(vis):
            rec.violation("find-wrong-answer", dict(case, queries=[], member=iso(t)),
                          {"why": "`t in fileset` disagrees", "t": iso(t), "got": bool(got),
                           "want": bool(vis)})
    a, b = sorted([rng.choice(pts), rng.choice(pts)])
    if a < b:
        vis = fm.visible(reg, layout, a, b, None, excl_names, excl_periods)
        rec.count("membership.calls")
        try:
            got = (a, b) in fs
            if bool(got) != bool(vis):
                rec.violation("find-wrong-answer", dict(case, queries=[], member=[iso(a), iso(b)]),
                              {"why": "`(a,b) in fileset` disagrees", "got": bool(got),
                               "want": bool(vis)})
        except Exception as exc:
            rec.violation("find-exception", dict(case, queries=[], member=[iso(a), iso(b)]),
                          {"where": "in", "exception": repr(exc)})
    # len
    want = len(fm.visible(reg, layout, dt.datetime.min, dt.datetime.max, None, excl_names,
                          excl_periods))
    rec.count("membership.calls")
    try:
        got = len(fs)
    except Exception as exc:
        got = 0 if type(exc).__name__ == "NoFilesError" else repr(exc)
    if got != want:
        rec.violation("find-wrong-answer", dict(case, queries=[], member="len"),
                      {"why": "len(fileset) disagrees", "got": got, "want": want})


def check_interleaved(rec, fs, reg, layout, files, queries, names, periods, case):
    """Two searches on one FileSet object that overlap in time: the first is consumed lazily
    (sort=False, no bundling) while a second find / membership test runs, then it is drained."""
    qs = [q for q in queries if not (q["filters"] and not layout.with_sat)]
    if len(qs) < 2 or len(reg) < 2:
        return
    qa, qb = qs[0], qs[1]
    if layout.with_sat:
        qa = dict(qa, filters={"!sat": ["n18", "metop"]})
        qb = dict(qb, filters=None if qb["filters"] else {"!sat": "xn18"})
    sa, ea = uniso(qa["start"]), uniso(qa["end"])
    want = fm.visible(reg, layout, sa or dt.datetime.min, ea or dt.datetime.max, qa["filters"],
                      names, periods)
    rec.ev()
    rec.count("interleaved.calls")
    sub = dict(case, queries=[qa, qb], interleaved=True)
    try:
        gen = fs.find(sa, ea, sort=False, filters=qa["filters"], no_files_error=False)
        got = []
        for _ in range(max(1, len(want) // 3)):
            try:
                got.append(os.fspath(next(gen)))
            except StopIteration:
                break
        # a second search with other filters and a membership test in between
        sb, eb = uniso(qb["start"]), uniso(qb["end"])
        other = [os.fspath(x) for x in fs.find(sb, eb, filters=qb["filters"], no_files_error=False)]
        want_b = fm.visible(reg, layout, sb or dt.datetime.min, eb or dt.datetime.max,
                            qb["filters"], names, periods)
        _ = (files[0]["t0"] in fs) if files else None
        got += [os.fspath(x) for x in gen]
    except Exception as exc:
        rec.violation("find-exception", sub, {"where": "interleaved find", "exception": repr(exc),
                                              "trace": traceback.format_exc()[-1000:]})
        return
    if sorted(got) != sorted(want) or sorted(other) != sorted(want_b):
        rec.violation("find-wrong-answer", sub,
                      {"why": "lazily consumed search disturbed by another search on the same object",
                       "first_missing": [os.path.basename(p) for p in set(want) - set(got)][:4],
                       "first_extra": [os.path.basename(p) for p in set(got) - set(want)][:4],
                       "second_ok": sorted(other) == sorted(want_b)})


def make_case(layouts, files, names_idx, periods, queries):
    return {"kind": "group", "layouts": [fm.layout_to_json(l) for l in layouts],
            "files": fm._ser_files(files),
            "excl": {"names_idx": names_idx, "periods": [[iso(a), iso(b)] for a, b in periods]},
            "queries": queries}


def run_group(rec, rng, case, do_membership=True, do_zip=True):
    """One population under several layouts: every query is answered by every layout and
    compared with the model (and thereby with each other)."""
    reuse = bool(case.get("reuse_object"))
    all_json = list(case.get("prev_layouts", [])) + list(case["layouts"])
    layouts = [fm.layout_from_json(j) for j in all_json]
    files = fm._deser_files(case["files"])
    fs = None
    periods = [(uniso(a), uniso(b)) for a, b in case["excl"]["periods"]]
    base = scratch_dir("c01")
    answers = {}
    try:
        for li, layout in enumerate(layouts):
            root = "%s/L%d" % (base, li)
            reg = fm.materialise(root, layout, files, rng=rng_for(0, "junk", li))
            rec.count("population.stray_date_like_directories", fm.LAST["strays"])
            by_id = {f["id"]: p for p, f in reg.items()}
            names = [by_id[i] for i in case["excl"]["names_idx"] if i in by_id]
            excl = list(names) + list(periods)
            try:
                if reuse and fs is not None:
                    # object history: the same FileSet is pointed to the next directory layout
                    fs.path = root.rstrip("/") + "/" + layout.template
                    rec.count("find.path_reassigned_filesets")
                else:
                    fs = fm.make_fileset(root, layout, name="L%d" % li, exclude=excl or None)
            except Exception as exc:
                rec.violation("find-exception", case, {"where": "constructor",
                                                       "exception": repr(exc),
                                                       "trace": traceback.format_exc()[-1200:]})
                fs = None
                continue
            sub = dict(case, layouts=[all_json[li]])
            if reuse:
                sub["prev_layouts"] = all_json[:li]
            if case.get("sibling_copy") and fs is not None:
                # object history across two objects: a copy is re-configured (as move() / map(output=...)
                # do with their copies), the original is searched afterwards
                try:
                    sib = fs.copy()
                    if layout.with_sat:
                        sib.set_placeholders(sat="zz[0-9]")
                    sib.path = root.rstrip("/") + "/elsewhere/{year}/{month}/x_{day}{hour}{minute}{second}.bin"
                    list(sib.find(dt.datetime(2016, 1, 1), dt.datetime(2016, 1, 2), no_files_error=False))
                    rec.count("find.with_reconfigured_copy")
                except Exception as exc:
                    rec.violation("find-exception", sub, {"where": "copy() of the fileset re-configured",
                                                          "exception": repr(exc),
                                                          "trace": traceback.format_exc()[-1200:]})
            # population history: files (whole new directories among them) that arrive while the object
            # is in use are held back outside the tree and moved in after the first queries
            late = {p for p, f in reg.items() if f["id"] in set(case.get("late_ids", []))}
            hold = root + "-late"
            for p in late:
                os.renames(p, hold + p[len(root):])
            cur = {p: f for p, f in reg.items() if p not in late} if late else reg
            cur_files = [f for f in files if f["id"] not in set(case.get("late_ids", []))] if late else files
            for qi, q in enumerate(case["queries"]):
                if late and qi == case.get("late_after", 0):
                    for p in late:
                        os.renames(hold + p[len(root):], p)
                    cur, cur_files = reg, files
                    rec.count("find.populations_grown_between_searches")
                if q["filters"] and not layout.with_sat:
                    continue
                got = check_query(rec, fs, cur, layout, cur_files, q, set(names), periods,
                                  dict(sub, queries=case["queries"][:qi + 1]) if late else sub,
                                  whole_case=bool(late))
                if got is not None and not q["filters"] and cur is reg:
                    ids = sorted(reg[p]["id"] for p in got)
                    answers.setdefault(qi, []).append((layout.dirs_name, ids))
            if late and cur is not reg:   # (fewer queries than the arrival index)
                for p in late:
                    os.renames(hold + p[len(root):], p)
            if do_membership:
                check_membership(rec, fs, reg, layout, files, rng, set(names), periods, sub)
                check_interleaved(rec, fs, reg, layout, files, case["queries"], set(names), periods, sub)
            if do_zip and li == 0 and files:
                zip_pass(rec, root, reg, layout, files, case["queries"], sub)
        for qi, lst in answers.items():
            for name, ids in lst[1:]:
                rec.count("metamorphic.comparisons")
                if ids != lst[0][1]:
                    rec.violation("find-layout-dependent", dict(case, queries=[case["queries"][qi]]),
                                  {"why": "same population, different layouts, different answers",
                                   lst[0][0]: lst[0][1][:10], name: ids[:10]})
    finally:
        shutil.rmtree(base, ignore_errors=True)


def zip_pass(rec, root, reg, layout, files, queries, case):
    """The same tree inside a zip archive, searched through fsspec's ZipFileSystem."""
    from fsspec.implementations.zip import ZipFileSystem
    from typhon.files import FileSet
    zpath = root + ".zip"
    with zipfile.ZipFile(zpath, "w") as zf:
        for p in reg:
            zf.write(p, "data/" + os.path.relpath(p, root))
    zreg = {"data/" + os.path.relpath(p, root): f for p, f in reg.items()}
    try:
        zfs = ZipFileSystem(zpath)
        args = {}
        if layout.end_style == "cov":
            args["time_coverage"] = layout.coverage
        znames = sorted(zreg)[::3][:2] if len(zreg) >= 2 else []
        zperiods = []
        if len(zreg) >= 4:
            f = zreg[sorted(zreg)[1]]
            zperiods = [(f["t0"], f["t1"])]
        if znames or zperiods:
            args["exclude"] = list(znames) + list(zperiods)
        fs = FileSet(path="data/" + layout.template, fs=zfs, name="zip", **args)
    except Exception as exc:
        rec.violation("find-zip-exception", case, {"where": "constructor", "exception": repr(exc)})
        return
    for q in queries[:6]:
        if q["filters"] and not layout.with_sat:
            continue
        q = dict(q, only_path=False)
        check_query(rec, fs, zreg, layout, files, q, set(znames), zperiods, dict(case, zip=True),
                    tag="zip.find")
    try:
        want_len = len(fm.visible(zreg, layout, dt.datetime.min, dt.datetime.max, None, set(znames),
                                  zperiods))
        if len(fs) != want_len:
            rec.violation("find-wrong-answer", dict(case, zip=True),
                          {"why": "len(fileset) on the zip file system disagrees", "got": len(fs),
                           "want": want_len})
    except Exception as exc:
        if not (type(exc).__name__ == "NoFilesError" and want_len == 0):
            rec.violation("find-zip-exception", case, {"where": "len", "exception": repr(exc)})
    try:
        zfs.close()
    except Exception:
        pass
    os.remove(zpath)


def single_file_case(rec, rng):
    from typhon.files import FileSet
    base = scratch_dir("c01s")
    try:
        p = base + "/single_file.dat"
        open(p, "w").write("x")
        a = dt.datetime(2017, 1, 1) + D(seconds=rng.randint(0, 10 ** 6))
        b = a + D(seconds=rng.randint(0, 10 ** 5))
        cov = rng.choice([None, (a, b)])
        fs = FileSet(path=p, time_coverage=cov)
        lo, hi = (a, b) if cov else (dt.datetime.min, dt.datetime.max)
        for _ in range(6):
            s = a + D(seconds=rng.randint(-10 ** 5, 2 * 10 ** 5))
            e = s + rng.choice([US, D(seconds=1), D(days=2)])
            if rng.random() < 0.3:
                s = b if rng.random() < 0.5 else b + US
                e = s + D(hours=1)
            if rng.random() < 0.2:
                e = a if rng.random() < 0.5 else a + US
                s = e - D(hours=1)
            want = lo < e and hi >= s
            rec.ev()
            rec.count("single.calls")
            got = list(fs.find(s, e, no_files_error=False))
            ok = (len(got) == 1 and got[0].path == p) if want else got == []
            case = {"kind": "single", "cov": None if not cov else [iso(a), iso(b)],
                    "start": iso(s), "end": iso(e)}
            if not ok:
                rec.violation("find-wrong-answer", case, {"why": "single-file fileset",
                                                          "got": len(got), "want": want})
            if want and cov:
                rec.nontriv(["single"], case)
        if len(fs) != 1:
            rec.violation("find-wrong-answer", {"kind": "single"}, {"why": "len(single) != 1"})
    finally:
        shutil.rmtree(base, ignore_errors=True)


def coverage_reassigned_case(rec, rng):
    """Template without end fields: searches, then another time_coverage is assigned to the live object
    (twice: longer, then none) and the same periods are searched again."""
    from typhon.files import FileSet
    base = scratch_dir("c01v")
    try:
        layout = rng.choice(["{year}/{month}/{day}/{hour}{minute}{second}.dat", "{year}{month}{day}_{hour}{minute}.dat",
                             "{year}/{doy}/f_{hour}{minute}{second}.dat"])
        day = dt.datetime(2019, rng.randrange(1, 13), rng.randrange(1, 28))
        starts = [day + dt.timedelta(minutes=60 * k + rng.choice([0, 7])) for k in range(rng.choice([5, 9, 26]))]
        fs = FileSet(path=base + "/" + layout, name="cov", time_coverage=dt.timedelta(minutes=10))
        names = {}
        for t0 in starts:
            p = fs.get_filename((t0, t0))
            os.makedirs(os.path.dirname(p), exist_ok=True)
            open(p, "w").write("x")
            names[os.path.abspath(p)] = t0
        case = {"kind": "coverage-reassigned", "layout": layout, "n": len(starts)}
        rec.ev()
        rec.count("find.time_coverage_reassigned_cases")
        periods = [(t0 + dt.timedelta(minutes=a), t0 + dt.timedelta(minutes=b))
                   for t0 in rng.sample(starts, min(4, len(starts))) for a, b in ((20, 40), (-5, 2), (55, 58))]
        for cov in (dt.timedelta(minutes=10), dt.timedelta(hours=1), None, dt.timedelta(minutes=30)):
            if cov != dt.timedelta(minutes=10) or periods is None:
                fs.time_coverage = cov
            length = cov or dt.timedelta(0)
            for a, b in periods:
                # (closed coverage [t0, t0 + length] against the half-open period [a, b); a file of zero
                # length counts when its time lies in the period)
                want = sorted(p for p, t0 in names.items() if t0 < b and t0 + length >= a and
                              (length or a <= t0))
                sure = sorted(p for p, t0 in names.items() if t0 < b and t0 + length > a)
                try:
                    got = sorted(os.path.abspath(str(f.path)) for f in fs.find(a, b, no_files_error=False))
                except Exception as exc:
                    rec.violation("find-exception", case, {"exception": repr(exc), "coverage": str(cov)})
                    return
                rec.count("find.time_coverage_reassigned_searches")
                if got != want and got != sure:
                    rec.violation("find-wrong-answer", case,
                                  {"why": "after time_coverage was re-assigned on the live object",
                                   "coverage": str(cov), "period": [a.isoformat(), b.isoformat()],
                                   "got": [os.path.basename(q) for q in got],
                                   "want": [os.path.basename(q) for q in want]})
                    return
        rec.nontriv(["coverage-reassigned", layout, len(starts)], [layout, len(starts)])
    finally:
        shutil.rmtree(base, ignore_errors=True)


def two_placeholder_case(rec, rng):
    """Two user placeholders (satellite in a directory level, mode in the file name): filters with several
    white- and black-list entries at once, and exclusion periods that are replaced on the live object."""
    from typhon.files import FileSet
    base = scratch_dir("c01t")
    try:
        tmpl = base + "/{sat}/{year}{month}{day}_{hour}{minute}{second}-{end_hour}{end_minute}{end_second}_{mode}.dat"
        day = dt.datetime(2018, rng.randrange(1, 13), rng.randrange(1, 28))
        files = []
        for k in range(rng.choice([6, 10, 16])):
            t0 = day + dt.timedelta(minutes=rng.randrange(0, 1300))
            t1 = t0 + dt.timedelta(minutes=rng.choice([0, 5, 30]))
            sat, mode = rng.choice(["A", "B", "C"]), rng.choice(["test", "op", "x"])
            name = "%s/%s/%s-%s_%s.dat" % (base, sat, t0.strftime("%Y%m%d_%H%M%S"), t1.strftime("%H%M%S"), mode)
            if any(f[0] == name for f in files):
                continue
            os.makedirs(os.path.dirname(name), exist_ok=True)
            open(name, "w").write("x")
            files.append((name, t0, t1, sat, mode))
        fs = FileSet(path=tmpl, name="two")
        s, e = day - dt.timedelta(hours=1), day + dt.timedelta(days=1, hours=1)

        def allowed(f, flt):
            for k, v in (flt or {}).items():
                vals = [v] if isinstance(v, str) else list(v)
                val = f[3] if k.lstrip("!") == "sat" else f[4]
                if k.startswith("!") and val in vals:
                    return False
                if not k.startswith("!") and val not in vals:
                    return False
            return True

        def run(flt, periods, what):
            rec.ev()
            rec.count("two_placeholders.find_calls")
            case = {"kind": "two-placeholders", "filters": flt, "what": what,
                    "files": [[os.path.relpath(f[0], base), f[1].isoformat(), f[2].isoformat()] for f in files]}
            try:
                got = sorted(os.fspath(x) for x in fs.find(s, e, filters=None if flt is None else dict(flt),
                                                           no_files_error=False))
            except Exception as exc:
                rec.violation("find-exception", case, {"exception": repr(exc),
                                                       "trace": traceback.format_exc()[-1000:]})
                return
            want = sorted(f[0] for f in files if allowed(f, flt)
                          and not any(f[1] <= p1 and f[2] >= p0 for p0, p1 in periods))
            if got != want:
                rec.violation("find-wrong-answer", case,
                              {"why": "set differs", "missing": [os.path.basename(x) for x in set(want) - set(got)][:5],
                               "extra": [os.path.basename(x) for x in set(got) - set(want)][:5],
                               "excluded_periods": [[str(a), str(b)] for a, b in periods]})
            elif want and len(want) < len(files):
                rec.nontriv(["two-placeholders", what, sorted(flt or {})], [what, len(files)])
        for flt in (None, {"!sat": "A", "!mode": "test"}, {"!mode": "test", "!sat": "A"},
                    {"sat": ["A", "B"], "!mode": "x"}, {"!sat": ["A", "C"], "!mode": ["test", "x"]},
                    {"sat": "B", "mode": "op"}):
            run(flt, [], "filters")
        # exclusion periods replaced on the live object (after it has searched with the first ones)
        p1 = (day + dt.timedelta(hours=2), day + dt.timedelta(hours=8))
        p2 = (day + dt.timedelta(hours=14), day + dt.timedelta(hours=20))
        fs.exclude_times([p1])
        run(None, [p1], "exclude P1")
        fs.exclude_times([p2])
        run(None, [p2], "exclude P2 after P1")
        run({"!sat": "B", "!mode": "op"}, [p2], "exclude P2 + filters")
        fs.exclude_times(None)
        run(None, [], "exclusion lifted")
    finally:
        shutil.rmtree(base, ignore_errors=True)


def gen_group(rng):
    mode = rng.randrange(4)
    if mode == 0:  # metamorphic: one population, several directory layouts, full end fields
        k = rng.choice([3, 4, 5])
        dirs = rng.sample(fm.DIR_LAYOUTS, k)
        style = rng.choice(["full", "fulldoy"])
        sat = rng.random() < 0.5
        layouts = [fm.Layout(d[0], d[1], d[2], style, sat, False) for d in dirs]
    else:
        layouts = [fm.random_layout(rng)]
    files = fm.random_population(rng, layouts)
    fake = fm.materialise("/nonexistent-base", layouts[0], []) if False else None
    # exclusion is drawn on ids (valid for every layout)
    regless = {f["id"]: f for f in files}
    names_idx, periods = [], []
    if files and rng.random() < 0.55:
        names, periods = gen_exclude(rng, {str(i): f for i, f in regless.items()})
        names_idx = [int(n) for n in names]
    queries = gen_queries(rng, files, layouts[0], rng.choice([8, 16, 24]))
    case = make_case(layouts, files, names_idx, periods, queries)
    if len(layouts) > 1 and not names_idx and rng.random() < 0.5:
        case["reuse_object"] = True  # one FileSet object, its path reassigned from layout to layout
    if rng.random() < 0.3:
        case["sibling_copy"] = True
    if case.get("reuse_object"):
        pass
    elif len(layouts) == 1 and len(files) >= 2 and len(queries) >= 4 and rng.random() < 0.3:
        case["late_ids"] = sorted(f["id"] for f in rng.sample(files, rng.randrange(1, len(files))))
        case["late_after"] = rng.randrange(1, len(queries) - 1)
    return case


def run_shard(spec, rec):
    from vt.monitors import treewrap
    treewrap.install(rec)
    rng = rng_for(spec["seed"], "c01", spec["shard"])
    for i in range(spec["n"]):
        case = gen_group(rng)
        if i == 0:
            rec.sample({k: (v if k != "files" else v[:5]) for k, v in case.items()})
        run_group(rec, rng, case)
        single_file_case(rec, rng)
        if i % 10 == 0:
            two_placeholder_case(rec, rng)
        if i % 10 == 5:
            coverage_reassigned_case(rec, rng_for(spec["seed"], "c01-cov", spec["shard"], i))
    treewrap.uninstall()


def replay(case, rec):
    if case.get("kind") == "two-placeholders":
        for k in range(6):
            two_placeholder_case(rec, rng_for(k, "c01-two-replay"))
        return
    if case.get("kind") == "coverage-reassigned":
        for k in range(6):
            coverage_reassigned_case(rec, rng_for(k, "c01-cov-replay"))
        return
    if case.get("kind") == "single":
        return
    rng = rng_for(0, "replay")
    run_group(rec, rng, case, do_membership=("member" in case), do_zip=bool(case.get("zip")))
