"""C02 - names generated from a template parse back to the same times and attributes.

Clauses and where decided
  * get_info(get_filename((s,e), fill=a)): start == s, attr == a, end == e when the end is
    spelled as completely as the start                                       roundtrip()
  * parse_filename returns every placeholder string that the renderer wrote       roundtrip()
  * end led by hour / minute / second: missing fields from the start, moved by one day /
    hour / minute when it would precede the start                              roundtrip() via
    vt.models.template.expected_end (rule written from the statement)
  * no end fields: start + time_coverage, or start for discrete files            roundtrip()
  * info_via = 'handler' / 'both': handler information wins, the name fills the rest  handler_case()
  * a name that does not match the template -> ValueError                        negative()
  * unknown / unfilled placeholder -> UnknownPlaceholderError / UnfilledPlaceholderError  errors_case()
The model's renderer (zero padded fields, doy = ordinal - ordinal(Jan 1) + 1, year2 = year mod 100)
is independent of FileSet.get_filename; the rendered name itself is compared too.
"""
import datetime as dt
import traceback

from vt.core import rng_for
from vt.models import template as T

D = dt.timedelta
ID = "C02"
LEVEL = "exploration"
RULE = ("templates from a grammar: year|year2 x month+day|doy x hour..millisecond prefix, fields spread "
        "over 0-3 directory levels and the file part, repeated placeholders, user placeholders "
        "(default / custom regex / value list), literal dots; end: none | complete | led by hour/minute/"
        "second; datetimes uniform over 1000-9999 resp. 1965-2064 plus a boundary set (leap days, doy 366, "
        "Dec 31, 23:59:59, ms 999, year2 64/65). non-trivial = template has an end field or doy/year2 and "
        "the period is within one unit of a roll-over (day/month/year end); distinct by (template class | "
        "template + period)")
ASSUMPTIONS = [
    "oracle: independent renderer/expectation model vt.models.template (no typhon import)",
    "claims demanded: exactly those of the statement; partial ends only when led by hour/minute/second "
    "and contiguous down to the start's finest field; other partial ends are driven but only noted",
    "regex operators other than '.' and '*' in a template are documented as regex syntax, not literals",
]
MIN_NONTRIVIAL = {"quick": 1500, "thorough": 30000}
REQUIRED_COUNTERS = {"roundtrip.calls": 5000, "negative.calls": 1000, "handler.calls": 200,
                     "errors.calls": 50, "partial_end.rollover": 100,
                     "history.time_coverage_reassigned": 20}
SHARD_TIMEOUT = {"quick": 600, "thorough": 7200}


def shards(tier, seed):
    n = 1500 if tier == "quick" else 500000
    return [{"kind": "rt", "seed": seed, "shard": i, "n": n} for i in range(16)]


SEPS = ["", "_", "-", ".", "T", "x", "_v."]
TIME_CHAIN = ["hour", "minute", "second", "millisecond"]
UNIT = {"year": None, "month": None, "day": D(days=1), "hour": D(hours=1), "minute": D(minutes=1),
        "second": D(seconds=1), "millisecond": D(milliseconds=1)}


def gen_template(rng):
    ykind = rng.choice(["year", "year", "year2"])
    dkind = rng.choice(["md", "md", "doy"])
    ntime = rng.choice([0, 1, 2, 3, 3, 4])
    start = [ykind] + (["month", "day"] if dkind == "md" else ["doy"]) + TIME_CHAIN[:ntime]
    finest = (TIME_CHAIN[:ntime] or ["day"])[-1]
    # end style
    styles = ["none", "none_cov", "complete"]
    if ntime >= 1:
        styles += ["partial", "partial"]
    style = rng.choice(styles)
    end = []
    lead = None
    if style == "complete":
        ek = rng.choice(["md", "doy"]) if rng.random() < 0.3 else dkind
        end = ["end_" + ykind] + (["end_month", "end_day"] if ek == "md" else ["end_doy"]) + \
              ["end_" + f for f in TIME_CHAIN[:ntime]]
    elif style == "partial":
        k = rng.randrange(0, min(ntime, 3))  # lead index into TIME_CHAIN (hour/minute/second)
        lead = TIME_CHAIN[k]
        end = ["end_" + f for f in TIME_CHAIN[k:ntime]]
    # user placeholders
    users = {}
    if rng.random() < 0.5:
        users["sat"] = rng.choice([None, "[a-z]+", ["noaa", "metop", "aqua"]])
    if rng.random() < 0.2:
        # (the last two patterns also admit the empty string as a value)
        users["ver"] = rng.choice([None, r"v\d", r"(?:v\d)?", ["", "v1", "v7"]])
    # distribute the start fields over directory levels and the file part
    ndirs = rng.choice([0, 0, 1, 2, 3])
    cut = sorted(rng.sample(range(1, len(start) + 1), min(ndirs, len(start))))
    chunks, prev = [], 0
    for c in cut:
        chunks.append(start[prev:c])
        prev = c
    file_fields = start[prev:]
    if len(chunks) >= 2 and rng.random() < 0.35:
        # cumulative directory levels ({year}/{year}{month}/{year}{month}{day}/...): several different
        # placeholders repeated, the first occurrence of one behind a repetition of another
        acc, cum = [], []
        for c in chunks:
            acc = acc + c
            cum.append(list(acc))
        chunks = cum
    if not file_fields or rng.random() < 0.4:
        # repeat some fields in the file part (duplicate placeholders)
        file_fields = rng.choice([start, start[:2] + file_fields if len(start) > 2 else start,
                                  file_fields or start])
        seen = []
        for f in file_fields:
            if f not in seen:
                seen.append(f)
        file_fields = seen if rng.random() < 0.7 else file_fields

    def join(fields):
        s = rng.choice(["", "data_", "a.b_"])
        for f in fields:
            s += "{" + f + "}" + rng.choice(SEPS)
        return s
    dirs = [join(c).rstrip(".") or "d" for c in chunks]
    fname = join(file_fields)
    if end:
        tail = rng.choice(["-", "_to_", "."]) + join(end)
        if style == "partial" and len(end) >= 2 and (len(fname) + len(dirs)) % 2 == 0:
            # an end that stops above the start's finest field (end_hour/end_minute next to a start with
            # seconds or milliseconds): the missing finer fields come from the start as well
            tail = tail[:tail.rindex("{end_")]
            style = "partial-short"
        fname += tail
    names = list(users)
    for u in names:
        where = rng.randrange(3)
        if where == 0 and dirs:
            i = rng.randrange(len(dirs))
            dirs[i] = dirs[i] + "_{" + u + "}"
            if rng.random() < 0.3:
                fname += "_{" + u + "}"  # repeated user placeholder
        elif where == 1:
            fname = "{" + u + "}_" + fname
        else:
            fname += "_{" + u + "}"
    fname += rng.choice([".nc", ".dat", ".h5.txt", "_.bin"])
    template = "/".join(dirs + [fname])
    # custom patterns that end in a closing parenthesis; half of them repeated on a directory level
    for u, plain, grouped in (("sat", "[a-z]+", "(?:noaa|metop|aqua)"), ("ver", r"v\d", r"v(?:\d)")):
        if users.get(u) == plain and len(template) % 2 == 0:
            users[u] = grouped
            if len(template) % 4 == 0 and template.count("{" + u + "}") == 1:
                template = "{" + u + "}_x/" + template
                dirs = ["x"] + dirs
    cov = None
    if style == "none_cov":
        cov = rng.choice([D(seconds=1), D(minutes=5), D(hours=6), D(days=1), D(days=31)])
    return {"template": template, "ykind": ykind, "dkind": dkind, "finest": finest, "style": style,
            "lead": lead, "users": users, "cov_s": None if cov is None else cov.total_seconds(),
            "ndirs": len(dirs)}


BOUNDARY_DATES = [(2, 28), (2, 29), (3, 1), (12, 31), (1, 1), (12, 30), (4, 30), (7, 31), (10, 31)]


def gen_start(rng, tj):
    if tj["ykind"] == "year2":
        year = rng.choice([1965, 1966, 1999, 2000, 2001, 2016, 2063, 2064, rng.randint(1965, 2064)])
    else:
        year = rng.choice([1000, 1001, 1600, 1900, 2000, 2016, 2100, 9998, rng.randint(1000, 9998),
                           rng.randint(1950, 2050)])
    if rng.random() < 0.5:
        m, d = rng.choice(BOUNDARY_DATES)
        try:
            date = dt.datetime(year, m, d)
        except ValueError:
            date = dt.datetime(year, 2, 28)
    else:
        date = dt.datetime(year, 1, 1) + D(days=rng.randint(0, 364))
    h = rng.choice([0, 23, rng.randint(0, 23)])
    mi = rng.choice([0, 59, rng.randint(0, 59)])
    s = rng.choice([0, 59, rng.randint(0, 59)])
    ms = rng.choice([0, 999, rng.randint(0, 999)])
    t = date.replace(hour=h, minute=mi, second=s, microsecond=ms * 1000)
    return T.truncate(t, tj["finest"])


def gen_period(rng, tj):
    s = gen_start(rng, tj)
    unit = UNIT[tj["finest"]]
    style = tj["style"]
    if style in ("none", "none_cov"):
        return s, s
    if style == "partial":
        sup = T.SUPERIOR[tj["lead"]]
        nmax = int(sup / unit) - 1
        k = rng.choice([0, 1, nmax, nmax, rng.randint(0, nmax)])
        return s, s + k * unit
    big = rng.choice([0, 1, 1, 5, 400, 100000])
    k = rng.randint(0, big)
    try:
        e = s + k * unit
    except OverflowError:
        e = s
    hi = dt.datetime(2064, 12, 31, 23, 59, 59, 999000) if tj["ykind"] == "year2" \
        else dt.datetime(9999, 12, 31, 23, 59, 59, 999000)
    if e > hi:
        e = s
    return s, e


def make_fs(tj, **kw):
    from typhon.files import FileSet
    ph = {k: v for k, v in tj["users"].items() if v is not None}
    args = {}
    if tj["cov_s"] is not None:
        args["time_coverage"] = D(seconds=tj["cov_s"])
    args.update(kw)
    if tj.get("late_ph") and ph:
        # call history: the object parses a name with the default placeholder patterns first, then the
        # user gives the regexes / value lists through set_placeholders()
        fs = FileSet(path="/vt-nonexistent-root/base/" + tj["template"], **args)
        s0 = dt.datetime(2000, 1, 2, 3, 4, 5)
        warm = {u: ("noaa" if u == "sat" else "v1") for u in tj["users"]}
        for call in (fs.parse_filename, fs.get_info):
            try:
                call("/vt-nonexistent-root/base/" + T.render(tj["template"], s0, s0 + D(hours=1), warm))
            except Exception:
                pass
        fs.info_cache.clear()
        fs.set_placeholders(**ph)
        return fs
    fs = FileSet(path="/vt-nonexistent-root/base/" + tj["template"], placeholder=ph or None,
                 **args)
    if tj.get("sibling_copy"):
        # object history across two objects: a copy is re-configured (other patterns for every user
        # placeholder, another path) as move() / map(output=...) do with their copies; the original is
        # used afterwards
        sib = fs.copy()
        if tj["users"]:
            sib.set_placeholders(**{u: "zz[0-9]" for u in tj["users"]})
        sib.path = "/vt-nonexistent-root/sibling/{year}{month}{day}_{hour}{minute}{second}.bin"
        try:
            sib.get_filename((dt.datetime(2001, 2, 3, 4, 5, 6), dt.datetime(2001, 2, 3, 5, 5, 6)))
        except Exception:
            pass
        if ph:
            # ... and the user states one pattern of the original once more (a no-op for its meaning)
            first = sorted(ph)[0]
            fs.set_placeholders(**{first: ph[first]})
    return fs


def fill_for(rng, tj):
    fill = {}
    for u, rx in tj["users"].items():
        if u == "sat":
            fill[u] = rng.choice(["noaa", "metop", "aqua"])
        else:
            fill[u] = rng.choice(["v1", "v7"])
            if rx in (r"(?:v\d)?", ["", "v1", "v7"]) and rng.random() < 0.5:
                fill[u] = ""
    return fill


def near_rollover(s, e):
    for t in (s, e):
        nxt = t + D(days=1)
        if nxt.month != t.month or (t - D(days=1)).month != t.month:
            return True
        if t.hour == 23 or t.hour == 0:
            return True
    return False


def roundtrip(rec, fs, tj, s, e, fill):
    case = {"kind": "rt", "tj": tj, "s": s.isoformat(), "e": e.isoformat(), "fill": fill}
    rec.ev()
    rec.count("roundtrip.calls")
    root = "/vt-nonexistent-root/base/"
    want_name = root + T.render(tj["template"], s, e, fill)
    try:
        name = fs.get_filename((s, e), fill=fill)
    except Exception as exc:
        rec.violation("name-exception", case, {"where": "get_filename", "exception": repr(exc)})
        return None
    if name != want_name:
        rec.violation("name-render", case, {"got": name, "want": want_name})
        return None
    try:
        parsed = fs.parse_filename(name)
    except Exception as exc:
        rec.violation("name-roundtrip", case, {"where": "parse_filename", "name": name,
                                               "exception": repr(exc)})
        return name
    want_parsed = T.rendered_strings(tj["template"], s, e, fill)
    if parsed != want_parsed:
        rec.violation("name-roundtrip", case, {"why": "parse_filename strings differ", "name": name,
                                               "got": parsed, "want": want_parsed})
    fs.info_cache.clear()
    try:
        info = fs.get_info(name)
    except Exception as exc:
        rec.violation("name-roundtrip", case, {"where": "get_info", "name": name,
                                               "exception": repr(exc),
                                               "trace": traceback.format_exc()[-800:]})
        return name
    if info.times[0] != s:
        rec.violation("name-roundtrip", case, {"why": "start differs", "name": name,
                                               "got": str(info.times[0]), "want": str(s)})
    if dict(info.attr) != fill:
        rec.violation("name-roundtrip", case, {"why": "attributes differ", "name": name,
                                               "got": info.attr, "want": fill})
    want_end = T.expected_end(tj["template"], s, e)
    if want_end == "none":
        want_end = s + D(seconds=tj["cov_s"]) if tj["cov_s"] is not None else s
    if want_end is None:
        rec.count("roundtrip.end_not_claimed")
    elif info.times[1] != want_end:
        rec.violation("name-end-time", case, {"why": "end differs", "name": name,
                                              "got": str(info.times[1]), "want": str(want_end),
                                              "style": tj["style"]})
    if tj["style"] in ("partial", "partial-short"):
        cand_before = T.expected_end(tj["template"], s, e)
        if cand_before is not None and cand_before.date() != s.date() or (
                cand_before is not None and cand_before.hour != s.hour and tj["lead"] != "hour"):
            rec.count("partial_end.rollover")
    interesting = tj["style"] in ("complete", "partial", "partial-short") or tj["dkind"] == "doy" or \
        tj["ykind"] == "year2"
    if interesting and near_rollover(s, e):
        rec.nontriv([tj["ykind"], tj["dkind"], tj["finest"], tj["style"], tj["lead"],
                     sorted(tj["users"]), tj["ndirs"]], [tj["template"], case["s"], case["e"]])
    return name


def coverage_history(rec, fs, tj, name, s, new_cov):
    """Object history: the file's information was asked for, then the caller assigns another
    time_coverage to the live object and asks again - 'start + time_coverage' means the coverage the
    object has now."""
    case = {"kind": "cov-history", "tj": dict(tj), "name": name, "s": s.isoformat(),
            "new_cov": new_cov}
    rec.ev()
    rec.count("history.time_coverage_reassigned")
    try:
        fs.get_info(name)
        fs.time_coverage = None if new_cov is None else D(seconds=new_cov)
        info = fs.get_info(name)
    except Exception as exc:
        rec.violation("name-exception", case, {"where": "time_coverage re-assigned",
                                               "exception": repr(exc)})
        return
    want = s if new_cov is None else s + D(seconds=new_cov)
    if info.times[0] != s or info.times[1] != want:
        rec.violation("name-end-time", case, {"why": "times after time_coverage was re-assigned",
                                              "name": name, "got": [str(t) for t in info.times],
                                              "want": [str(s), str(want)],
                                              "coverage_before": tj["cov_s"]})


def negative(rec, rng, fs, tj, name, s, e, fill):
    """Names that do not match the template must raise ValueError."""
    root_len = len("/vt-nonexistent-root/base/")
    body = name[root_len:]
    muts = []
    digits = [i for i, ch in enumerate(body) if ch.isdigit()]
    if digits:
        i = rng.choice(digits)
        muts.append(("digit dropped", body[:i] + body[i + 1:]))
        muts.append(("digit -> letter", body[:i] + "q" + body[i + 1:]))
        muts.append(("digit doubled", body[:i] + body[i] + body[i:]))
    dots = [i for i, ch in enumerate(body) if ch == "."]
    if dots:
        i = rng.choice(dots)
        muts.append(("dot -> other char", body[:i] + "Z" + body[i + 1:]))
    muts.append(("suffix changed", body[:-1] + ("X" if body[-1] != "X" else "Y")))
    muts.append(("trailing junk", body + ".bak"))
    muts.append(("leading junk", "zz" + body))
    if "/" in body:
        i = body.index("/")
        muts.append(("directory junk", body[:i] + "Q" + body[i:]))
    # invalid calendar values rendered through the model
    if tj["dkind"] == "md":
        bad = T.render(tj["template"].replace("{month}", "13"), s, e, fill)
        muts.append(("month 13", bad))
        bad = T.render(tj["template"].replace("{month}", "02").replace("{day}", "30"), s, e, fill)
        muts.append(("30 February", bad))
    mrx = T.model_regex(tj["template"], tj["users"])
    for why, b in rng.sample(muts, min(4, len(muts))):
        if why not in ("month 13", "30 February") and mrx.fullmatch(b):
            rec.count("negative.mutation_still_matches")  # e.g. absorbed by a user placeholder
            continue
        rec.count("negative.calls")
        rec.ev()
        case = {"kind": "neg", "tj": tj, "name": b, "why": why}
        # the same object is asked twice: a rejected name must stay rejected on a retry
        outcome = []
        for attempt in (1, 2):
            try:
                info = fs.get_info("/vt-nonexistent-root/base/" + b)
                outcome.append(("parsed", [str(t) for t in info.times]))
            except ValueError:
                outcome.append(("ValueError", None))
            except Exception as exc:
                outcome.append(("other", repr(exc)))
        for attempt, (kind, extra) in enumerate(outcome, 1):
            if kind == "parsed":
                rec.violation("name-not-rejected", dict(case, attempt=attempt),
                              {"why": why + ": parsed instead of ValueError (attempt %d)" % attempt,
                               "times": extra})
                break
            if kind == "other":
                rec.violation("name-not-rejected", dict(case, attempt=attempt),
                              {"why": why, "exception": extra})
                break


def handler_case(rec, rng, tj, s, e, fill):
    from typhon.files import FileHandler, FileInfo
    hs = rng.choice([None, s + D(seconds=7)])
    he = rng.choice([None, e + D(days=2, seconds=3)])
    hattr = rng.choice([{}, {"sat": "from-handler"}, {"orbit": 42}])

    state = {"fail_next": rng.random() < 0.3}

    def info_fn(file_info):
        if state["fail_next"]:
            state["fail_next"] = False
            raise OSError("harness: handler cannot open the file this time")
        return FileInfo(file_info.path, [hs, he], dict(hattr))
    for via in ("both", "handler"):
        rec.count("handler.calls")
        rec.ev()
        case = {"kind": "handler", "tj": tj, "s": s.isoformat(), "e": e.isoformat(), "fill": fill,
                "hs": None if hs is None else hs.isoformat(),
                "he": None if he is None else he.isoformat(), "hattr": hattr, "via": via}
        try:
            fs = make_fs(tj, handler=FileHandler(info=info_fn), info_via=via)
            name = fs.get_filename((s, e), fill=fill)
            try:
                info = fs.get_info(name)
            except OSError:
                rec.count("handler.failed_once_then_retried")
                info = fs.get_info(name)  # retry on the same object after a handler fault
        except Exception as exc:
            if via == "handler" and hs is None and he is not None and isinstance(exc, ValueError):
                continue  # documented: an end without a start cannot be used
            rec.violation("name-handler-merge", case, {"exception": repr(exc),
                                                       "trace": traceback.format_exc()[-800:]})
            continue
        if via == "both":
            nend = T.expected_end(tj["template"], s, e)
            if nend == "none":
                nend = None
            elif nend is None:
                continue
            ws = hs if hs is not None else s
            we = he if he is not None else nend
            if we is None:
                we = ws + D(seconds=tj["cov_s"]) if tj["cov_s"] is not None else ws
            wattr = dict(fill)
            wattr.update(hattr)
        else:
            if hs is None and he is None:
                ws, we = dt.datetime.min, dt.datetime.max
            else:
                ws = hs
                we = he if he is not None else (
                    ws + D(seconds=tj["cov_s"]) if tj["cov_s"] is not None else ws)
            wattr = dict(hattr)
        if list(info.times) != [ws, we] or dict(info.attr) != wattr:
            rec.violation("name-handler-merge", case, {
                "got": [str(info.times[0]), str(info.times[1]), info.attr],
                "want": [str(ws), str(we), wattr]})
        rec.nontriv(["handler", via, hs is None, he is None, tj["style"]],
                    [tj["template"], case["s"], case["e"], hattr])


def errors_case(rec, rng, tj, s, e, fill):
    from typhon.files import fileset as fsmod
    rec.count("errors.calls")
    rec.ev()
    case = {"kind": "errors", "tj": tj}
    fs = make_fs(tj)
    # unknown placeholder in an explicit template
    for what, call in (
            ("get_filename(template with unknown placeholder)",
             lambda: fs.get_filename((s, e), template="x_{year}_{nosuchfield}.dat", fill=fill)),
            ("parse_filename(template with unknown placeholder)",
             lambda: fs.parse_filename("x_2017_abc.dat", template="x_{year}_{nosuchfield}.dat"))):
        try:
            call()
            rec.violation("placeholder-error", case, {"why": what + " did not raise"})
        except fsmod.UnknownPlaceholderError:
            pass
        except Exception as exc:
            rec.violation("placeholder-error", case, {"why": what, "exception": repr(exc)})
    # an explicit template whose user placeholders differ from those of the fileset's path
    try:
        fs2 = make_fs(tj)
        fs2.set_placeholders(orbit=r"\d{5}")            # registered, but not part of the path
        try:
            n = fs2.get_filename((s, e), template="o_{year}{month}{day}_{orbit}.h5", fill=fill)
            rec.violation("placeholder-error", case,
                          {"why": "unfilled placeholder of an explicit template did not raise", "name": n})
        except fsmod.UnfilledPlaceholderError:
            pass
        # ... and a complete explicit template that does not use the path's (unfilled) user placeholders
        n = fs2.get_filename((s, e), template="plain_{year}{month}{day}T{hour}{minute}{second}.dat")
        want = "plain_%04d%02d%02dT%02d%02d%02d.dat" % (s.year, s.month, s.day, s.hour, s.minute, s.second)
        if n != want:
            rec.violation("name-render", case, {"got": n, "want": want, "where": "explicit template"})
        rec.count("errors.explicit_template_calls")
    except Exception as exc:
        rec.violation("placeholder-error", case, {"why": "explicit template", "exception": repr(exc),
                                                  "trace": traceback.format_exc()[-600:]})
    if tj["users"]:
        try:
            n = fs.get_filename((s, e))
            # a value-list / custom regex default may legitimately be used as filling only if it
            # contains no special character
            rec.violation("placeholder-error", case, {"why": "unfilled user placeholder did not raise",
                                                      "name": n})
        except fsmod.UnfilledPlaceholderError:
            pass
        except Exception as exc:
            rec.violation("placeholder-error", case, {"why": "unfilled placeholder",
                                                      "exception": repr(exc)})


def run_shard(spec, rec):
    rng = rng_for(spec["seed"], "c02", spec["shard"])
    n = spec["n"]
    done = 0
    ti = 0
    while done < n:
        tj = gen_template(rng)
        ti += 1
        if any(v is not None for v in tj["users"].values()) and rng.random() < 0.35:
            tj["late_ph"] = True
            rec.count("templates.placeholders_set_after_first_parse")
        if rng.random() < 0.25:
            tj["sibling_copy"] = True
            rec.count("templates.with_reconfigured_copy")
        try:
            fs = make_fs(tj)
        except Exception as exc:
            rec.violation("name-exception", {"kind": "ctor", "tj": tj}, {"exception": repr(exc)})
            done += 1
            continue
        if ti <= 2:
            rec.sample({"template": tj["template"], "style": tj["style"]})
        rec.setadd("template_classes", [tj["ykind"], tj["dkind"], tj["finest"], tj["style"],
                                        tj["lead"], sorted(tj["users"])])
        for k in range(12):
            s, e = gen_period(rng, tj)
            fill = fill_for(rng, tj)
            name = roundtrip(rec, fs, tj, s, e, fill)
            done += 1
            if name is not None and k % 3 == 0:
                negative(rec, rng, fs, tj, name, s, e, fill)
            if name is not None and k in (4, 8) and T.expected_end(tj["template"], s, e) == "none":
                new_cov = None if (k == 8 and tj["cov_s"] is not None) else \
                    rng.choice([1, 59, 3600, 6 * 3600 + 1, 86400 * 3])
                coverage_history(rec, fs, tj, name, s, new_cov)
                tj["cov_s"] = new_cov
            if k == 0:
                handler_case(rec, rng, tj, s, e, fill)
            if k == 1 and ti % 5 == 0:
                errors_case(rec, rng, tj, s, e, fill)


def replay(case, rec):
    rng = rng_for(0, "replay")
    tj = case["tj"]
    kind = case["kind"]
    if kind == "rt":
        roundtrip(rec, make_fs(tj), tj, dt.datetime.fromisoformat(case["s"]),
                  dt.datetime.fromisoformat(case["e"]), case["fill"])
    elif kind == "neg":
        fs = make_fs(tj)
        try:
            info = fs.get_info("/vt-nonexistent-root/base/" + case["name"])
            rec.violation("name-not-rejected", case, {"times": [str(t) for t in info.times]})
        except ValueError:
            pass
    elif kind == "cov-history":
        coverage_history(rec, make_fs(tj), tj, case["name"], dt.datetime.fromisoformat(case["s"]),
                         case["new_cov"])
    elif kind == "handler":
        handler_case(rec, rng, tj, dt.datetime.fromisoformat(case["s"]),
                     dt.datetime.fromisoformat(case["e"]), case["fill"])
    elif kind == "errors":
        errors_case(rec, rng, tj, dt.datetime(2017, 1, 1), dt.datetime(2017, 1, 1),
                    fill_for(rng, tj))
