"""C20 - SRTM30 elevation mosaics are seamless and match the tiles cell by cell.

Runtime monitoring of the real typhon.topography.SRTM30 without data or network.

Where each clause of the statement is decided
---------------------------------------------
(a) "latitude and longitude vectors are consecutive cell centres, spacing 1/120 deg,
    latitude descending, longitude ascending"       -> judge_vectors() (model.identify_centres)
    on every SRTM30.elevation() and every SRTM30.get_native_grids() result.
(b) "non-empty block that covers the rectangle and extends beyond it by less than one cell
    on each side"                                   -> judge_vectors() (model.judge_extent), exact
    rational arithmetic on the doubles as passed, don't-care band 1e-9 cell.
(c) "entry [i, j] is the value stored in the one tile pixel centred at (lat[i], lon[j]),
    also across tile borders; nothing duplicated, dropped or taken from the wrong tile"
                                                    -> check_elevation(): SRTM30.get_tile is
    replaced by a synthetic tile made from *global* row / column numbers
    (v = (7919 r + 39193 c) mod 65536 - 32768, LRU of 2 tiles, < 250 MB); the returned array
    must equal v on the rows / columns identified from the returned vectors, entry by entry;
    the tiles asked from get_tile must be the tiles that intersect the block, each once.
    That the real get_tile decodes a tile file as 6000 rows x 4800 columns of big-endian
    int16 in row-major order is decided in the cache shard (marker pixels).
(d) "get_tiles names exactly the tiles whose area intersects the rectangle"
                                                    -> check_tiles() against the model's own
    tile table (derived from the naming scheme), on every generated rectangle.
(e) "get_native_grids of a tile's own bounds reproduces get_grids of that tile"
                                                    -> check_tilegrid(), all 27 tiles, every
    elev shard; both also compared with the model's exact centres.
(f) "a tile is downloaded only if it is not already in the cache directory"
                                                    -> run_cache(): the REAL get_tile with the
    cache directory pointed at a temp dir (through TYPHON_DATA_PATH or _data_path),
    download_tile replaced by a counter that creates a sparse 57.6 MB file; random
    histories of get / drop / seed / elevation requests against a cold or warm cache are
    compared with a set model of the directory.

Zero-area rectangles are not generated: no block can satisfy (b) for them.
"""
import os
import shutil
import traceback
from fractions import Fraction as F

from vt.core import rng_for, scratch_dir

ID = "C20"
LEVEL = "exploration"
RULE = ("rectangles between 60 S and 90 N from the classes aligned (exact dyadic grid lines), "
        "nominally aligned (k/120 as double), unaligned (0.1..0.9 of a cell on each side "
        "independently), thinner than a cell, across 1/2/4 tiles, touching tile borders, at "
        "+-180, at 90 N / 60 S, full-width and full-height strips; cache histories of "
        "get/drop/seed/elevation. non-trivial = a rectangle that is unaligned on at least one "
        "side, or spans more than one tile, or touches a tile border or +-180 (i.e. anything "
        "but an aligned rectangle in the interior of one tile), resp. a cache history with at "
        "least one hit and one miss; distinct by (class, tiles, alignment pattern | the four "
        "numbers resp. the operations)")
ASSUMPTIONS = [
    "oracle: integer/rational global grid (row k covers [90-(k+1)/120, 90-k/120], column j "
    "covers [-180+j/120, -180+(j+1)/120]) evaluated on the exact values of the doubles passed",
    "don't-care band 1e-9 cell for an edge lying on a grid line / tile border: forward error "
    "of (90-lat)/dlat and (lon+180)/dlon in double is < 2e-11 cell (3 roundings at magnitude "
    "43200); exactly representable grid lines (multiples of 1/8 degree) are decided strictly "
    "by the exact comparison since the band only widens what is accepted next to the line",
    "a coordinate is a cell centre if within 1e-9 degree (1.2e-7 cell) of it; forward error of "
    "the documented formulas is < 1e-13 degree",
    "synthetic tiles replace SRTM30.get_tile for the mosaic clauses; the file format clause "
    "is covered on the real get_tile with sparse files and marker pixels",
    "the tile table of the oracle is derived from the SRTM30 naming scheme (west and north "
    "edge in the name, 40 x 50 degree tiles), not read from typhon",
]
MIN_NONTRIVIAL = {"quick": 3000, "thorough": 30000}
REQUIRED_COUNTERS = {"elevation.calls": 300, "native.calls": 3000, "tiles.calls": 3000,
                     "tilegrid.calls": 27, "cache.get_tile.calls": 20, "cache.hits": 5,
                     "cache.misses": 5, "cache.marker_pixels": 100,
                     "fake_get_tile.calls": 300, "elevation.tiles_2": 20,
                     "elevation.tiles_4": 10, "download.get_tile.calls": 8,
                     "download.faults_reaching_caller": 2}
SHARD_TIMEOUT = {"quick": 600, "thorough": 5400}

N_ELEV_SHARDS = 14
N_CACHE_SHARDS = 2


def shards(tier, seed):
    n_elev = 90 if tier == "quick" else 2000
    n_cache = 12 if tier == "quick" else 300
    out = []
    for i in range(N_ELEV_SHARDS):
        out.append({"kind": "elev", "seed": seed, "shard": i, "n": n_elev})
    for i in range(N_CACHE_SHARDS):
        out.append({"kind": "cache", "seed": seed, "shard": i, "n": n_cache})
    return out


# --------------------------------------------------------------------------------------
# rectangle generator (positions are generated in exact cell units, then rounded once)
# --------------------------------------------------------------------------------------
CLASSES = ["aligned8", "aligned120", "unaligned", "mixed", "thin", "border2v", "border2h",
           "corner4", "touch", "pm180", "strip", "top90", "bottom60", "wholetile"]
FRACS = [F(k, 10) for k in range(1, 10)] + [F(1, 2), F(1, 1000), F(999, 1000)]


def lat_of(T):
    return float(90 - F(T) / 120)


def lon_of(L):
    return float(-180 + F(L) / 120)


def gen_rect(rng, cls=None):
    """-> (cls, [lat_min, lon_min, lat_max, lon_max]).  T/B/L/R are edge positions in cells
    (from 90 N downwards, from 180 W eastwards)."""
    m = __import__("vt.models.srtm_model", fromlist=["x"])
    cls = cls or rng.choice(CLASSES)
    nrow = rng.choice([1, 1, 2, 3, 5, 17, 60, 240])
    ncol = rng.choice([1, 1, 2, 3, 5, 17, 60, 240])

    def frac(p=0.75):
        return rng.choice(FRACS) if rng.random() < p else F(0)

    T = rng.randrange(0, m.N_ROWS - nrow)
    L = rng.randrange(0, m.N_COLS - ncol)
    fT = fB = fL = fR = F(0)
    if cls == "aligned8":
        T -= T % 15
        L -= L % 15
        nrow = 15 * rng.choice([1, 1, 2, 8])
        ncol = 15 * rng.choice([1, 1, 2, 8])
    elif cls == "aligned120":
        pass
    elif cls == "unaligned":
        fT, fB, fL, fR = (rng.choice(FRACS) for _ in range(4))
    elif cls == "mixed":
        fT, fB, fL, fR = frac(0.5), frac(0.5), frac(0.5), frac(0.5)
    elif cls == "thin":
        # inside one cell in at least one direction
        which = rng.choice(["lat", "lon", "both"])
        a, b = sorted(rng.sample(FRACS, 2))
        c, d = sorted(rng.sample(FRACS, 2))
        rect_T, rect_B = (T + a, T + b) if which in ("lat", "both") else (T + frac(), T + nrow + frac())
        rect_L, rect_R = (L + c, L + d) if which in ("lon", "both") else (L + frac(), L + ncol + frac())
        return cls, [lat_of(rect_B), lon_of(rect_L), lat_of(rect_T), lon_of(rect_R)]
    elif cls in ("border2v", "border2h", "corner4", "touch"):
        brow = rng.choice([6000, 12000])
        bcol = rng.choice(range(4800, m.N_COLS, 4800))
        up, down = rng.choice([1, 2, 9, 40]), rng.choice([1, 2, 9, 40])
        left, right = rng.choice([1, 2, 9, 40]), rng.choice([1, 2, 9, 40])
        if cls == "border2v":       # crosses a horizontal border (north/south neighbours)
            T, nrow = brow - up, up + down
        elif cls == "border2h":
            L, ncol = bcol - left, left + right
        elif cls == "corner4":
            T, nrow = brow - up, up + down
            L, ncol = bcol - left, left + right
        else:                        # one or two edges exactly on a border, from either side
            side = rng.choice(["T", "B", "L", "R", "TL", "BR", "TR", "BL"])
            eT, eB = T + frac(0.5), T + nrow + frac(0.5)
            eL, eR = L + frac(0.5), L + ncol + frac(0.5)
            if "T" in side:          # top edge on the border: rectangle south of it
                eT, eB = F(brow), brow + nrow + frac(0.5)
            if "B" in side:          # bottom edge on the border: rectangle north of it
                eT, eB = brow - nrow - frac(0.5), F(brow)
            if "L" in side:
                eL, eR = F(bcol), bcol + ncol + frac(0.5)
            if "R" in side:
                eL, eR = bcol - ncol - frac(0.5), F(bcol)
            return cls, [lat_of(eB), lon_of(eL), lat_of(eT), lon_of(eR)]
        fT, fB, fL, fR = frac(0.6), frac(0.6), frac(0.6), frac(0.6)
    elif cls == "pm180":
        if rng.random() < 0.5:
            L = 0
            fL = F(0)
            fR = frac(0.5)
        else:
            L = m.N_COLS - ncol
            fL = frac(0.5)
            fR = F(0)
        fT, fB = frac(0.5), frac(0.5)
    elif cls == "strip":
        # full width (or height) of one tile, a few cells thick
        ti = rng.choice(m.TILES)
        k0, j0 = m.tile_origin(ti[0])
        if rng.random() < 0.5:
            L, ncol = j0, m.TILE_COLS
            T = k0 + rng.randrange(0, m.TILE_ROWS - 3)
            nrow = rng.choice([1, 2, 3])
            fT, fB = frac(0.5), frac(0.5)
            if rng.random() < 0.3:      # sticks out into the neighbours by a fraction
                fL = -rng.choice(FRACS) if j0 > 0 else F(0)
                fR = rng.choice(FRACS) if j0 + ncol < m.N_COLS else F(0)
        else:
            T, nrow = k0, m.TILE_ROWS
            L = j0 + rng.randrange(0, m.TILE_COLS - 3)
            ncol = rng.choice([1, 2, 3])
            fL, fR = frac(0.5), frac(0.5)
            if rng.random() < 0.3:
                fT = -rng.choice(FRACS) if k0 > 0 else F(0)
                fB = rng.choice(FRACS) if k0 + nrow < m.N_ROWS else F(0)
    elif cls == "top90":
        T = 0
        fT = F(0)
        fB, fL, fR = frac(0.5), frac(0.5), frac(0.5)
    elif cls == "bottom60":
        T = m.N_ROWS - nrow
        fB = F(0)
        fT, fL, fR = frac(0.5), frac(0.5), frac(0.5)
        rect = [T + fT, T + nrow, L + fL, L + ncol + fR]
        if rect[3] > m.N_COLS:
            rect[3] = F(m.N_COLS)
        return cls, [lat_of(rect[1]), lon_of(rect[2]), lat_of(rect[0]), lon_of(rect[3])]
    elif cls == "wholetile":
        ti = rng.choice(m.TILES)
        return cls, [float(ti[1]), float(ti[2]), float(ti[3]), float(ti[4])]
    rect = [T + fT, T + nrow + fB, L + fL, L + ncol + fR]
    rect[1] = min(rect[1], F(m.N_ROWS))
    rect[3] = min(rect[3], F(m.N_COLS))
    rect[0] = max(rect[0], F(0))
    rect[2] = max(rect[2], F(0))
    return cls, [lat_of(rect[1]), lon_of(rect[2]), lat_of(rect[0]), lon_of(rect[3])]


def valid_rect(rect):
    lat_min, lon_min, lat_max, lon_max = rect
    return (-60 <= lat_min < lat_max <= 90) and (-180 <= lon_min < lon_max <= 180)


# --------------------------------------------------------------------------------------
# judging one answer
# --------------------------------------------------------------------------------------
def align_flags(rect):
    from vt.models import srtm_model as m
    return [int(m.aligned(x) <= m.BAND_CELLS) for x in m.edge_cells(rect)]


def lat_shift_mechanism(rect, k0, n):
    """Classifier (not oracle) of the mechanism 'srtm-lat-shift': get_native_grids takes
    trunc() of the double quotient q = (90 - lat)/dlat at both ends and adds one only where q
    is integral, although the first row is floor(q) (+1 in its 1-based count) and the last one
    ceil(q): wherever q is fractional the edge moves one cell north.  True iff the rows
    observed are exactly what this mechanism produces and differ from the intended ones."""
    import math
    dlat = 50.0 / 6000
    q_top = (90 - rect[2]) / dlat
    q_bot = (90 - rect[0]) / dlat
    good = (math.floor(q_top) + 1, math.ceil(q_bot))
    bug = (math.trunc(q_top) + (0 if math.trunc(q_top) < q_top else 1), math.trunc(q_bot))
    if bug == good:
        return False
    if n == 0:
        return bug[0] > bug[1]
    return (k0 + 1, k0 + n) == bug


def judge_vectors(rect, lats, lons):
    """-> (info, problems); problems = [(key, detail)]"""
    from vt.models import srtm_model as m
    T, B, L, R = m.edge_cells(rect)
    exp = m.expected_block(rect)
    problems = []
    k0, why = m.identify_centres(lats, "lat")
    j0, why2 = m.identify_centres(lons, "lon")
    info = {"expected_block": list(exp), "k0": k0, "j0": j0,
            "nlat": int(len(lats)), "nlon": int(len(lons))}
    fl = align_flags(rect)
    if k0 is None:
        key = "srtm-lat-vector"
        if why == "empty" and lat_shift_mechanism(rect, None, 0):
            key = "srtm-lat-shift"
        problems.append((key, {"why": why, "edge_aligned_TBLR": fl}))
    else:
        comp = m.judge_extent(k0, len(lats), T, B)
        if comp:
            key = "srtm-lat-shift" if lat_shift_mechanism(rect, k0, len(lats)) \
                else "srtm-block-rows"
            problems.append((key, {"complaints": comp, "got_rows": [k0, k0 + len(lats) - 1],
                                   "expected_rows": [exp[0], exp[1]],
                                   "edge_aligned_TBLR": fl}))
    if j0 is None:
        problems.append(("srtm-lon-vector", {"why": why2}))
    else:
        comp = m.judge_extent(j0, len(lons), L, R)
        if comp:
            problems.append(("srtm-block-cols", {"complaints": comp,
                                                 "got_cols": [j0, j0 + len(lons) - 1],
                                                 "expected_cols": [exp[2], exp[3]]}))
    return info, problems


def block_tiles(k0, nrow, j0, ncol):
    """tiles that hold at least one cell of the block (integer arithmetic)"""
    from vt.models import srtm_model as m
    out = set()
    for name, *_ in m.TILES:
        r0, c0 = m.tile_origin(name)
        if max(r0, k0) < min(r0 + m.TILE_ROWS, k0 + nrow) and \
                max(c0, j0) < min(c0 + m.TILE_COLS, j0 + ncol):
            out.add(name)
    return out


def block_neighbours(k0, nrow, j0, ncol):
    """tiles that hold a cell of the block or touch it along a border or corner.  elevation()
    recomputes the block bounds in double (e.g. 60.00416666666667 - dlon/2 =
    59.99999999999999) before it asks get_tiles, so a touching neighbour may legitimately be
    named for *that* rectangle; no cell may be taken from it (decided by the value check)."""
    from vt.models import srtm_model as m
    out = set()
    for name, *_ in m.TILES:
        r0, c0 = m.tile_origin(name)
        if max(r0, k0) <= min(r0 + m.TILE_ROWS, k0 + nrow) and \
                max(c0, j0) <= min(c0 + m.TILE_COLS, j0 + ncol):
            out.add(name)
    return out


class FakeTiles:
    """Replaces SRTM30.get_tile by the synthetic tiles for the duration of a with-block."""

    def __init__(self, rec, size=2):
        from vt.models.srtm_model import TileLRU
        self.lru = TileLRU(size)
        self.rec = rec

    def __enter__(self):
        from typhon.topography import SRTM30
        self.SRTM30 = SRTM30
        self.saved = SRTM30.__dict__["get_tile"]
        self.saved_dl = SRTM30.__dict__["download_tile"]
        lru, rec = self.lru, self.rec

        def get_tile(name):
            rec.count("fake_get_tile.calls")
            return lru.get(name)

        def download_tile(name):
            raise RuntimeError("harness: download_tile(%r) reached although get_tile is "
                               "replaced" % (name,))
        SRTM30.get_tile = staticmethod(get_tile)
        SRTM30.download_tile = staticmethod(download_tile)
        return self

    def __exit__(self, *exc):
        self.SRTM30.get_tile = self.saved
        self.SRTM30.download_tile = self.saved_dl
        return False


def check_elevation(rec, case, fake):
    """One SRTM30.elevation call under the synthetic tiles.  Returns list of keys raised."""
    import numpy as np
    from vt.models import srtm_model as m
    from typhon.topography import SRTM30
    rect = case["rect"]
    fake.lru.requests = []
    rec.ev()
    rec.count("elevation.calls")
    keys = []

    def viol(key, detail):
        keys.append(key)
        rec.violation(key, case, detail)
    try:
        lats, lons, elev = SRTM30.elevation(*rect)
    except Exception as exc:
        # the wrap at -180 makes get_tiles return nothing: still an answer, not an exception;
        # any exception is a violation of "returns ..."
        trace = traceback.format_exc()[-900:]
        # attribute the exception to the vectors if they are already wrong (an empty latitude
        # vector makes elevation() raise on lats_d.min())
        problems = []
        try:
            lats, lons = SRTM30.get_native_grids(*rect)
            info, problems = judge_vectors(rect, lats, lons)
        except Exception:
            pass
        if problems:
            for key, detail in problems:
                viol(key, dict(detail, where="elevation", info=info, elevation_raised=repr(exc)))
        else:
            viol("srtm-exception", {"where": "elevation", "exception": repr(exc),
                                    "trace": trace})
        return keys
    requests = list(fake.lru.requests)
    info, problems = judge_vectors(rect, lats, lons)
    for key, detail in problems:
        viol(key, dict(detail, where="elevation", info=info))
    elev = np.asarray(elev)
    if elev.shape != (len(lats), len(lons)):
        viol("srtm-elevation-shape", {"shape": list(elev.shape), "info": info})
        return keys
    k0, j0 = info["k0"], info["j0"]
    if k0 is None or j0 is None:
        return keys
    nrow, ncol = len(lats), len(lons)
    want = m.synth_block(k0, j0, nrow, ncol)
    rows_ok = (np.arange(k0, k0 + nrow) >= 0) & (np.arange(k0, k0 + nrow) < m.N_ROWS)
    cols_ok = (np.arange(j0, j0 + ncol) >= 0) & (np.arange(j0, j0 + ncol) < m.N_COLS)
    inside = rows_ok[:, None] & cols_ok[None, :]
    bad = (elev != want) & inside
    rec.count("elevation.cells_compared", int(inside.sum()))
    must_tiles = block_tiles(k0, nrow, j0, ncol)
    if bad.any():
        bi, bj = np.nonzero(bad)
        i, j = int(bi[0]), int(bj[0])
        detail = {"n_bad": int(bad.sum()), "n_cells": int(inside.sum()), "first_bad": [i, j],
                  "row_col": [k0 + i, j0 + j], "got": float(elev[i, j]),
                  "want": int(want[i, j]), "requests": requests,
                  "tiles_of_block": sorted(must_tiles), "info": info}
        # mechanism: west edge of the block at -180 is wrapped to +180 -> no tile at all
        if j0 == 0 and not requests and not np.any(elev[inside]):
            key = "srtm-lon-wrap"
        else:
            key = "srtm-elevation-value"
            if nrow == ncol and np.array_equal(elev, m.synth_block(j0, k0, nrow, ncol)):
                detail["looks_like"] = "transposed"
            for dk, dj in ((1, 0), (-1, 0), (0, 1), (0, -1)):
                if np.array_equal(elev[inside], m.synth_block(k0 + dk, j0 + dj, nrow, ncol)[inside]):
                    detail["looks_like"] = "shifted by (%d,%d)" % (dk, dj)
        viol(key, detail)
    else:
        # tiles asked for: those holding a cell of the block, each once; a neighbour that
        # merely touches the block is a don't-care (see block_neighbours)
        near = block_neighbours(k0, nrow, j0, ncol)
        if len(requests) != len(set(requests)) or not (must_tiles <= set(requests) <= near):
            viol("srtm-tiles-requested", {"requests": requests,
                                          "tiles_of_block": sorted(must_tiles),
                                          "touching": sorted(near - must_tiles)})
        if set(requests) - must_tiles:
            rec.count("elevation.touching_neighbour_requested", len(set(requests) - must_tiles))
    if not keys:
        fl = align_flags(rect)
        if not all(fl) or len(must_tiles) > 1 or case.get("cls") in (
                "touch", "pm180", "top90", "bottom60", "strip", "wholetile"):
            rec.nontriv(["elev", case.get("cls"), len(must_tiles), fl], rect)
        rec.count("elevation.tiles_%d" % len(must_tiles))
        rec.maxi("elevation.block_cells", int(nrow * ncol))
    return keys


def check_native(rec, case):
    """get_native_grids alone (what elevation returns as its vectors); cheap."""
    from typhon.topography import SRTM30
    rect = case["rect"]
    rec.ev()
    rec.count("native.calls")
    keys = []
    try:
        lats, lons = SRTM30.get_native_grids(*rect)
    except Exception as exc:
        rec.violation("srtm-exception", case, {"where": "get_native_grids",
                                               "exception": repr(exc)})
        return ["srtm-exception"]
    info, problems = judge_vectors(rect, lats, lons)
    for key, detail in problems:
        keys.append(key)
        rec.violation(key, case, dict(detail, where="get_native_grids", info=info))
    if not keys:
        fl = align_flags(rect)
        if not all(fl):
            rec.nontriv(["native", case.get("cls"), fl], rect)
    return keys


def check_tiles(rec, case):
    from vt.models import srtm_model as m
    from typhon.topography import SRTM30
    rect = case["rect"]
    rec.ev()
    rec.count("tiles.calls")
    try:
        got = list(SRTM30.get_tiles(*rect))
    except Exception as exc:
        rec.violation("srtm-exception", case, {"where": "get_tiles", "exception": repr(exc)})
        return ["srtm-exception"]
    must, may = m.expected_tiles(rect)
    gs = set(got)
    if len(got) != len(gs) or not (must <= gs <= (must | may)):
        detail = {"where": "get_tiles", "got": got, "must": sorted(must), "may": sorted(may)}
        # mechanism: lon_min == -180 is mapped to +180, so that nothing overlaps
        wrapped = list(rect)
        if rect[1] == -180.0:
            wrapped[1] = 180.0
            w_must, w_may = (set(), set()) if wrapped[1] >= wrapped[3] else m.expected_tiles(wrapped)
            key = "srtm-lon-wrap" if gs == w_must else "srtm-tiles"
        else:
            key = "srtm-tiles"
        rec.violation(key, case, detail)
        return [key]
    if len(must) > 1 or may:
        rec.nontriv(["tiles", case.get("cls"), len(must), len(may)], rect)
    rec.count("tiles.named", len(got))
    return []


def check_tilegrid(rec, case):
    import numpy as np
    from vt.models import srtm_model as m
    from typhon.topography import SRTM30
    name = case["name"]
    rec.ev()
    rec.count("tilegrid.calls")
    try:
        bounds = SRTM30.get_bounds(name)
        g_lat, g_lon = SRTM30.get_grids(name)
        n_lat, n_lon = SRTM30.get_native_grids(*bounds)
    except Exception as exc:
        rec.violation("srtm-exception", case, {"where": "tilegrid", "exception": repr(exc)})
        return ["srtm-exception"]
    keys = []
    t = m.TILE_BY_NAME.get(name)
    if t is None or tuple(bounds) != tuple(t[1:]):
        rec.violation("srtm-tile-table", case, {"bounds": list(bounds), "model": t})
        keys.append("srtm-tile-table")
    w_lat, w_lon = m.tile_grids(name)
    for what, got, other, want in (("lat", n_lat, g_lat, w_lat), ("lon", n_lon, g_lon, w_lon)):
        got = np.asarray(got)
        other = np.asarray(other)
        if got.shape != other.shape or np.max(np.abs(got - other)) > m.CENTRE_TOL:
            rec.violation("srtm-native-vs-tile-grid", case,
                          {"axis": what, "native_shape": list(got.shape),
                           "grids_shape": list(other.shape),
                           "native_head": got[:3].tolist(), "grids_head": other[:3].tolist()})
            keys.append("srtm-native-vs-tile-grid")
        elif other.shape != want.shape or np.max(np.abs(other - want)) > m.CENTRE_TOL:
            rec.violation("srtm-tile-grid", case, {"axis": what, "grids_head": other[:3].tolist(),
                                                   "model_head": want[:3].tolist()})
            keys.append("srtm-tile-grid")
    # call history: the caller post-processes the vectors it was given in place (sorts the latitudes
    # ascending, shifts the longitudes to 0..360) and asks again later
    if not keys:
        try:
            for v in (g_lat, g_lon):
                if isinstance(v, np.ndarray) and v.flags.writeable:
                    v[...] = v[::-1].copy()
                    v += 360.0
            rec.ev()
            rec.count("tilegrid.second_calls")
            g2_lat, g2_lon = SRTM30.get_grids(name)
            for what, other, want in (("lat", g2_lat, w_lat), ("lon", g2_lon, w_lon)):
                other = np.asarray(other)
                if other.shape != want.shape or np.max(np.abs(other - want)) > m.CENTRE_TOL:
                    rec.violation("srtm-tile-grid", dict(case, second_call=True),
                                  {"axis": what, "why": "second get_grids() after the caller changed the "
                                   "arrays of the first one in place", "grids_head": other[:3].tolist(),
                                   "model_head": want[:3].tolist()})
                    keys.append("srtm-tile-grid")
                    break
        except Exception as exc:
            rec.violation("srtm-exception", case, {"where": "tilegrid (second call)", "exception": repr(exc)})
            keys.append("srtm-exception")
    return keys


# --------------------------------------------------------------------------------------
# shrinking: make the rectangle small while the same mechanism keeps failing
# --------------------------------------------------------------------------------------
class _Quiet:
    """Recorder stand-in for shrinking: remembers keys, records nothing."""

    def __init__(self):
        self.keys = []
        self.details = {}

    def violation(self, key, case, detail):
        self.keys.append(key)
        self.details.setdefault(key, detail)

    def __getattr__(self, name):
        return lambda *a, **k: None


def shrink_rect(case, key, test):
    """test(case) -> list of keys.  Try thinner rectangles that keep each edge's position
    inside its cell."""
    from vt.models import srtm_model as m
    T, B, L, R = m.edge_cells(case["rect"])
    best = case
    for keep_rows, keep_cols in ((1, 1), (2, 2), (1, None), (None, 1), (3, 3)):
        nT, nB, nL, nR = T, B, L, R
        if keep_rows is not None and B - T > keep_rows + 1:
            nB = T + keep_rows + (B - int(B))   # keep fractional parts
        if keep_cols is not None and R - L > keep_cols + 1:
            nR = L + keep_cols + (R - int(R))
        cand = dict(case, rect=[lat_of(nB), lon_of(nL), lat_of(nT), lon_of(nR)], shrunk=True)
        if cand["rect"] == case["rect"] or not valid_rect(cand["rect"]):
            continue
        if key in test(cand):
            return cand
    # alternatively keep the bottom / right edges and pull top / left in
    for keep in (1, 2):
        nT = B - keep - (1 - (T - int(T))) if B - T > keep + 1 else T
        nL = R - keep - (1 - (L - int(L))) if R - L > keep + 1 else L
        cand = dict(case, rect=[lat_of(B), lon_of(nL), lat_of(nT), lon_of(R)], shrunk=True)
        if valid_rect(cand["rect"]) and cand["rect"] != case["rect"] and key in test(cand):
            return cand
    return best


# --------------------------------------------------------------------------------------
# cache / download clause on the real get_tile
# --------------------------------------------------------------------------------------
MARK_PIXELS = [(0, 0), (0, 4799), (5999, 0), (5999, 4799), (1, 0), (0, 1), (2999, 1234)]


def write_tile_file(path, name):
    """sparse 57.6 MB file with a handful of big-endian marker pixels = synthetic values"""
    from vt.models import srtm_model as m
    k0, j0 = m.tile_origin(name)
    with open(path, "wb") as fh:
        fh.truncate(m.TILE_ROWS * m.TILE_COLS * 2)
        for r, c in MARK_PIXELS:
            v = int(m.synth_block(k0 + r, j0 + c, 1, 1)[0, 0])
            fh.seek(2 * (r * m.TILE_COLS + c))
            fh.write(v.to_bytes(2, "big", signed=True))


def gen_cache_ops(rng):
    from vt.models import srtm_model as m
    names = rng.sample([t[0] for t in m.TILES], rng.choice([1, 2, 3]))
    ops = []
    for nme in names:
        if rng.random() < 0.4:
            ops.append([rng.choice(["seed", "seed", "seed-link"]), nme])            # warm cache
    for _ in range(rng.choice([3, 4, 6])):
        c = rng.random()
        nme = rng.choice(names)
        if c < 0.6:
            ops.append(["get", nme])
        elif c < 0.75:
            ops.append(["drop", nme])
        elif c < 0.85:
            ops.append([rng.choice(["seed", "seed-link"]), nme])
        else:
            # small rectangle inside / across the chosen tile: elevation through the real path
            # (interior of the tile, or across its east border: at most two real tiles alive)
            k0, j0 = m.tile_origin(nme)
            T = k0 + rng.choice([5, 3000, m.TILE_ROWS - 7])
            L = j0 + rng.choice([7, 2000, m.TILE_COLS - 1])
            if L + 2 > m.N_COLS:
                L = j0 + 7
            rect = [lat_of(T + 2), lon_of(L), lat_of(T), lon_of(L + 2)]
            ops.append(["elev", rect])
    via_env = rng.random() < 0.5
    return {"kind": "cache", "ops": ops, "via_env": via_env, "xdg_also": via_env and rng.random() < 0.6,
            "concurrent": rng.random() < 0.5}


def check_cache(rec, case):
    """Drive one history against the real get_tile; model = set of tile files present."""
    import numpy as np
    import typhon.topography as topo
    from typhon.topography import SRTM30
    from vt.models import srtm_model as m
    tmp = scratch_dir("c20-cache")
    saved_path = topo._data_path
    saved_dl = SRTM30.__dict__["download_tile"]
    saved_env = os.environ.get("TYPHON_DATA_PATH")
    saved_xdg = os.environ.get("XDG_CACHE_HOME")
    downloads = []
    keys = []

    def viol(key, detail):
        keys.append(key)
        rec.violation(key, case, detail)
    try:
        if case.get("via_env"):
            os.environ["TYPHON_DATA_PATH"] = tmp
            topo._data_path = None
            cache_dir = os.path.join(tmp, "topography")
            if case.get("xdg_also"):
                # documented: TYPHON_DATA_PATH decides; XDG_CACHE_HOME only counts when it is not set
                os.environ["XDG_CACHE_HOME"] = os.path.join(tmp, "xdg-cache")
                rec.count("cache.both_environment_variables")
        else:
            topo._data_path = tmp
            cache_dir = tmp

        def fname(nme):
            return os.path.join(cache_dir, (nme + ".dem").upper())

        def fake_download(nme):
            downloads.append(nme)
            rec.count("cache.downloads")
            os.makedirs(cache_dir, exist_ok=True)
            write_tile_file(fname(nme), nme)
        SRTM30.download_tile = staticmethod(fake_download)
        present = set()
        hits = misses = 0
        for step, op in enumerate(case["ops"]):
            before = len(downloads)
            if op[0] == "seed":
                os.makedirs(cache_dir, exist_ok=True)
                write_tile_file(fname(op[1]), op[1])
                present.add(op[1])
            elif op[0] == "seed-link":
                # the tile is in the cache directory as a symbolic link into a shared data store
                os.makedirs(cache_dir, exist_ok=True)
                store = os.path.join(tmp, "shared-store")
                os.makedirs(store, exist_ok=True)
                real = os.path.join(store, os.path.basename(fname(op[1])))
                write_tile_file(real, op[1])
                if os.path.lexists(fname(op[1])):
                    os.remove(fname(op[1]))
                os.symlink(real, fname(op[1]))
                present.add(op[1])
                rec.count("cache.symlinked_tiles")
            elif op[0] == "drop":
                if os.path.exists(fname(op[1])):
                    os.remove(fname(op[1]))
                present.discard(op[1])
            elif op[0] == "get":
                nme = op[1]
                rec.ev()
                rec.count("cache.get_tile.calls")
                try:
                    y = SRTM30.get_tile(nme)
                except Exception as exc:
                    viol("srtm-cache-exception", {"step": step, "op": op, "exception": repr(exc),
                                                  "trace": traceback.format_exc()[-700:]})
                    break
                new = downloads[before:]
                want = [] if nme in present else [nme]
                if new != want:
                    viol("srtm-cache-download", {"step": step, "op": op, "downloaded": new,
                                                 "expected": want, "present": sorted(present)})
                if nme in present:
                    hits += 1
                else:
                    misses += 1
                present.add(nme)
                y = np.asarray(y)
                if y.shape != (m.TILE_ROWS, m.TILE_COLS):
                    viol("srtm-tile-format", {"step": step, "shape": list(y.shape)})
                else:
                    k0, j0 = m.tile_origin(nme)
                    for r, c in MARK_PIXELS:
                        v = int(m.synth_block(k0 + r, j0 + c, 1, 1)[0, 0])
                        if int(y[r, c]) != v:
                            viol("srtm-tile-format", {"step": step, "pixel": [r, c],
                                                      "got": int(y[r, c]), "want": v})
                            break
                    rec.count("cache.marker_pixels", len(MARK_PIXELS))
                del y
            elif op[0] == "elev":
                rect = op[1]
                rec.ev()
                rec.count("cache.elevation.calls")
                try:
                    lats, lons, elev = SRTM30.elevation(*rect)
                except Exception as exc:
                    viol("srtm-cache-exception", {"step": step, "op": op, "exception": repr(exc),
                                                  "trace": traceback.format_exc()[-700:]})
                    break
                new = downloads[before:]
                k0, why = m.identify_centres(lats, "lat")
                j0, why2 = m.identify_centres(lons, "lon")
                if k0 is None or j0 is None:
                    continue            # the vector clauses are decided in the elev shards
                need = block_tiles(k0, len(lats), j0, len(lons))
                # a neighbour whose border the block touches is a don't-care of the rectangle
                # elevation() hands to get_tiles, hence also of the downloads
                may = block_neighbours(k0, len(lats), j0, len(lons)) - need
                want = need - present
                if len(new) != len(set(new)) or not (want <= set(new) <= want | (may - present)):
                    viol("srtm-cache-download", {"step": step, "op": op, "downloaded": new,
                                                 "expected": sorted(want),
                                                 "dont_care": sorted(may - present),
                                                 "present": sorted(present)})
                if set(new) - want:
                    rec.count("cache.neighbour_tile_downloaded_unneeded", len(set(new) - want))
                    rec.note("observation (not a verdict): elevation() asks get_tile for "
                             "neighbouring tiles from which no cell is taken when the block "
                             "touches a tile border, because the block bounds are recomputed "
                             "in double (e.g. 60.00416666666667 - dlon/2 = 59.99999999999999)")
                hits += len(need & present)
                misses += len(need - present)
                present |= need | set(new)
            # the directory must agree with the model after every step
            on_disk = set()
            if os.path.isdir(cache_dir):
                on_disk = {f[:-4].lower() for f in os.listdir(cache_dir) if f.endswith(".DEM")}
            if on_disk != present and not keys:
                viol("srtm-cache-directory", {"step": step, "op": op, "on_disk": sorted(on_disk),
                                              "model": sorted(present)})
        if not keys and len(present) >= 2 and case.get("concurrent"):
            # two tiles requested from two threads at once (vt/monitors/concurrency.py): each caller gets
            # its own tile
            from vt.monitors import concurrency
            two = sorted(present)[:2]
            verdict, detail = concurrency.concurrent_check(
                [(SRTM30.get_tile, (nme,), {}) for nme in two], threads=2, rounds=2)
            rec.count("cache.concurrent_" + verdict.replace("/", ""))
            if verdict == "race":
                viol("srtm-tile-format", dict(detail, why="tiles requested from two threads at once",
                                              tiles=two))
        if not keys and hits and misses:
            rec.nontriv(["cache", bool(case.get("via_env")), min(hits, 3), min(misses, 3)],
                        case["ops"])
        rec.count("cache.hits", hits)
        rec.count("cache.misses", misses)
    finally:
        SRTM30.download_tile = saved_dl
        topo._data_path = saved_path
        if saved_env is None:
            os.environ.pop("TYPHON_DATA_PATH", None)
        else:
            os.environ["TYPHON_DATA_PATH"] = saved_env
        if saved_xdg is None:
            os.environ.pop("XDG_CACHE_HOME", None)
        else:
            os.environ["XDG_CACHE_HOME"] = saved_xdg
        shutil.rmtree(tmp, ignore_errors=True)
    return keys


def shrink_cache(case, key):
    ops = list(case["ops"])
    i = 0
    budget = 25
    while i < len(ops) and budget > 0:
        cand = dict(case, ops=ops[:i] + ops[i + 1:])
        budget -= 1
        if cand["ops"] and key in check_cache(_Quiet(), cand):
            ops = cand["ops"]
        else:
            i += 1
    return dict(case, ops=ops)


# --------------------------------------------------------------------------------------
# drivers
# --------------------------------------------------------------------------------------
class Deferred:
    """Forwards everything to the real recorder except violations, which are kept so that
    the case can be shrunk before it is reported."""

    def __init__(self, rec):
        self._rec = rec
        self.viols = []

    def violation(self, key, case, detail):
        self.viols.append((key, case, detail))

    def __getattr__(self, name):
        return getattr(self._rec, name)


def run_check(rec, case, fake):
    kind = case["kind"]
    if kind == "elev":
        return check_elevation(rec, case, fake)
    if kind == "native":
        return check_native(rec, case)
    if kind == "tiles":
        return check_tiles(rec, case)
    if kind == "tilegrid":
        return check_tilegrid(rec, case)
    raise ValueError(kind)


_SEEN = {}


def run_rect_case(rec, case, fake):
    """One execution under the monitors; on violation shrink, then report the small case."""
    d = Deferred(rec)
    run_check(d, case, fake)
    if not d.viols:
        return []
    keys = list(dict.fromkeys(k for k, _, _ in d.viols))
    reported = set()
    for key in keys:
        _SEEN[key] = _SEEN.get(key, 0) + 1
        if _SEEN[key] > 4:
            # the recorder keeps three cases per mechanism: count the rest without shrinking
            rec.violation(key, case, [v[2] for v in d.viols if v[0] == key][0])
            continue
        small = case
        if case["kind"] != "tilegrid":
            small = shrink_rect(case, key, lambda c: run_check(_Quiet(), c, fake))
            # native-only finding: the statement speaks of elevation's vectors - confirm there
            if small["kind"] == "native" and fake is not None:
                ecase = dict(small, kind="elev")
                if key in check_elevation(_Quiet(), ecase, fake):
                    small = ecase
        q = Deferred(_Quiet())
        run_check(q, small, fake)
        for k2, c2, detail in q.viols:
            ident = (k2, small["kind"], repr(small.get("rect", small.get("name"))))
            if k2 == key and ident not in reported:
                reported.add(ident)
                rec.violation(k2, small, detail)
    return keys


ELEV_MAX_CELLS = 1_500_000      # elevation block (float64) <= 12 MB; whole tiles only via
                                # get_native_grids / get_tiles (a whole-tile mosaic needs 230 MB)


def witnesses():
    """Fixed cases driven every run (regression witnesses of the defects found while building
    this check; no special treatment - if they fail they are violations)."""
    return [
        {"kind": "elev", "cls": "witness-lat-shift", "rect": [10.001, 10.0, 10.002, 10.01]},
        {"kind": "native", "cls": "witness-lat-shift", "rect": [10.0, 10.0, 10.02, 10.02]},
        {"kind": "tiles", "cls": "witness-lon-wrap", "rect": [10.0, -180.0, 20.0, -170.0]},
        {"kind": "elev", "cls": "witness-lon-wrap", "rect": [10.0, -180.0, 10.05, -179.95]},
        # an edge exactly on the equator / the Greenwich meridian (the number 0, float and int)
        {"kind": "elev", "cls": "edge-zero", "rect": [0.0, 5.0, 0.25, 5.5]},
        {"kind": "elev", "cls": "edge-zero", "rect": [-0.25, 5.0, 0.0, 5.5]},
        {"kind": "elev", "cls": "edge-zero", "rect": [10.0, 0.0, 10.25, 0.5]},
        {"kind": "elev", "cls": "edge-zero", "rect": [10.0, -0.5, 10.25, 0]},
        {"kind": "elev", "cls": "edge-zero", "rect": [0, 0, 0.1, 0.1]},
        {"kind": "native", "cls": "edge-zero", "rect": [0.0, 0.0, 0.25, 0.25]},
    ]


def run_elev(spec, rec):
    from vt.models import srtm_model as m
    rng = rng_for(spec["seed"], "c20-elev", spec["shard"])
    with FakeTiles(rec, size=1) as fake:
        if spec["shard"] == 0:
            for case in witnesses():
                run_rect_case(rec, case, fake)
                rec.count("witnesses")
        # (e) all 27 tiles, spread over the shards, each shard at least two
        names = [t[0] for t in m.TILES]
        for i, nme in enumerate(names):
            if i % N_ELEV_SHARDS == spec["shard"] % N_ELEV_SHARDS or spec["shard"] >= N_ELEV_SHARDS:
                check_tilegrid(rec, {"kind": "tilegrid", "name": nme})
        # cheap monitors: native grids and tile naming on many rectangles
        n_cheap = spec["n"] * 12
        for i in range(n_cheap):
            cls, rect = gen_rect(rng)
            if not valid_rect(rect):
                rec.count("generator.rejected")
                continue
            run_rect_case(rec, {"kind": "native", "cls": cls, "rect": rect}, fake)
            run_rect_case(rec, {"kind": "tiles", "cls": cls, "rect": rect}, None)
        # big rectangles for get_tiles only (up to the whole covered area)
        for i in range(spec["n"] * 2):
            a, b = sorted(rng.sample(range(-60 * 8, 90 * 8 + 1), 2))
            c, d = sorted(rng.sample(range(-180 * 8, 180 * 8 + 1), 2))
            snap = rng.random() < 0.5
            if snap:
                a, b = a - a % 80, b - b % 80
                c, d = c - c % 160, d - d % 160
            rect = [a / 8, c / 8, b / 8, d / 8]
            if valid_rect(rect):
                run_rect_case(rec, {"kind": "tiles", "cls": "big-snap" if snap else "big",
                                    "rect": rect}, None)
        # the mosaics
        done = 0
        attempts = 0
        while done < spec["n"] and attempts < spec["n"] * 20:
            attempts += 1
            cls = CLASSES[(done + spec["shard"]) % len(CLASSES)] if done < 2 * len(CLASSES) \
                else None
            cls, rect = gen_rect(rng, cls)
            if not valid_rect(rect):
                rec.count("generator.rejected")
                if cls is not None:
                    done += 0
                continue
            k_t, k_b, j_l, j_r = m.expected_block(rect)
            if (k_b - k_t + 2) * (j_r - j_l + 2) > ELEV_MAX_CELLS:
                # whole tiles etc.: vectors and tiles only
                run_rect_case(rec, {"kind": "native", "cls": cls, "rect": rect}, None)
                run_rect_case(rec, {"kind": "tiles", "cls": cls, "rect": rect}, None)
                rec.count("elevation.skipped_too_large")
                done += 1
                continue
            case = {"kind": "elev", "cls": cls, "rect": rect}
            if done < 2:
                rec.sample(case)
            run_rect_case(rec, case, fake)
            done += 1
        rec.count("synthetic_tiles_made", fake.lru.made)


_ZIPS = {}


def tile_zip_bytes(name):
    """The archive the server would deliver for a tile (synthetic content, marker pixels set)."""
    import io
    import zipfile
    if name not in _ZIPS:
        d = scratch_dir("c20-zip")
        try:
            path = os.path.join(d, (name + ".dem").upper())
            write_tile_file(path, name)
            buf = io.BytesIO()
            with zipfile.ZipFile(buf, "w", zipfile.ZIP_DEFLATED, compresslevel=1) as z:
                z.write(path, os.path.basename(path))
            _ZIPS[name] = buf.getvalue()
        finally:
            shutil.rmtree(d, ignore_errors=True)
    return _ZIPS[name]


class _Transfer:
    """What urlopen returns: delivers the archive, or breaks off after `fail_after` bytes."""

    def __init__(self, data, fail_after=None, piece=None):
        self.data, self.pos, self.fail_after, self.piece = data, 0, fail_after, piece

    def read(self, n=-1):
        if self.fail_after is not None and self.pos >= self.fail_after:
            raise ConnectionResetError("harness: transfer broken off")
        end = len(self.data) if n is None or n < 0 else min(len(self.data), self.pos + n)
        if self.piece:
            end = min(end, self.pos + self.piece)      # the body arrives in pieces (short reads)
        if self.fail_after is not None:
            end = min(end, max(self.fail_after, self.pos + 1))
        out = self.data[self.pos:end]
        self.pos = end
        return out

    def close(self):
        pass

    def __enter__(self):
        return self

    def __exit__(self, *a):
        return False


def check_download(rec, case):
    """The real download_tile / get_tile against a faked urlopen: a tile whose transfer broke off (or
    whose request was refused) is fetched again at the next request and then served from the cache."""
    import numpy as np
    import typhon.topography as topo
    from typhon.topography import SRTM30
    from vt.models import srtm_model as m
    if not hasattr(topo.urllib, "request"):
        # (the harness must not import urllib.request itself: that would repair the module under test)
        rec.violation("srtm-cache-exception", case,
                      {"why": "typhon.topography uses urllib.request without importing it: every request "
                              "for a tile that is not cached raises AttributeError"})
        return
    tmp = scratch_dir("c20-dl")
    if case.get("cache_otherfs"):
        # the cache directory lies on another file system than the temporary directory (a data disk
        # against /tmp): rename() from one to the other is refused
        from vt.props.c12 import other_filesystem_dir
        import tempfile
        other = other_filesystem_dir(tempfile.gettempdir())
        if other is None:
            rec.count("download.other_filesystem_unavailable")
            shutil.rmtree(tmp, ignore_errors=True)
            return
        shutil.rmtree(tmp, ignore_errors=True)
        tmp = other
        rec.count("download.cache_on_other_filesystem")
    saved_path = topo._data_path
    saved_open = topo.urllib.request.urlopen
    name = case["name"]
    requests = []
    plan = list(case["plan"])          # per request: "ok" | "refused" | fraction of the archive delivered

    def fake_urlopen(url, *a, **kw):
        requests.append(url)
        rec.count("download.requests")
        what = plan.pop(0) if plan else "ok"
        if what == "refused":
            raise OSError("harness: connection refused")
        data = tile_zip_bytes(name)
        if what == "pieces":
            return _Transfer(data, None, piece=1500)
        return _Transfer(data, None if what == "ok" else int(len(data) * float(what)))
    try:
        topo._data_path = tmp
        topo.urllib.request.urlopen = fake_urlopen
        k0, j0 = m.tile_origin(name)
        served = False
        for step in range(len(case["plan"]) + 2):
            before = len(requests)
            rec.ev()
            rec.count("download.get_tile.calls")
            try:
                y = np.asarray(SRTM30.get_tile(name))
            except Exception as exc:
                if before < len(requests) and step < len(case["plan"]) and case["plan"][step] not in ("ok", "pieces"):
                    rec.count("download.faults_reaching_caller")
                    continue             # the injected fault reached the caller: fine
                rec.violation("srtm-cache-exception", case,
                              {"step": step, "exception": repr(exc), "requests_so_far": len(requests),
                               "why": "no fault was injected into this request"})
                return
            if len(requests) - before != (0 if served else 1):
                rec.violation("srtm-cache-download", case,
                              {"step": step, "requests": len(requests) - before, "already_served": served})
                return
            served = True
            for r, c in MARK_PIXELS:
                v = int(m.synth_block(k0 + r, j0 + c, 1, 1)[0, 0])
                if y.shape != (m.TILE_ROWS, m.TILE_COLS) or int(y[r, c]) != v:
                    rec.violation("srtm-tile-format", case, {"step": step, "pixel": [r, c]})
                    return
            del y
        if served:
            rec.nontriv(["download", tuple(case["plan"])], case["plan"])
    finally:
        topo._data_path = saved_path
        topo.urllib.request.urlopen = saved_open
        shutil.rmtree(tmp, ignore_errors=True)


def run_cache(spec, rec):
    rng = rng_for(spec["seed"], "c20-cache", spec["shard"])
    from vt.models import srtm_model as m
    for plan in ([], ["pieces"], ["refused"], [rng.choice(["0.0", "0.3", "0.9"])],
                 [rng.choice(["0.5", "0.99"]), "refused"]):
        check_download(rec, {"kind": "download", "name": rng.choice([t[0] for t in m.TILES]), "plan": plan})
    check_download(rec, {"kind": "download", "name": m.TILES[spec["shard"] % len(m.TILES)][0],
                         "plan": [[], ["0.3"]][spec["shard"] % 2], "cache_otherfs": True})
    for i in range(spec["n"]):
        case = gen_cache_ops(rng)
        if i == 0:
            rec.sample(case)
        d = Deferred(rec)
        keys = check_cache(d, case)
        for key in dict.fromkeys(keys):
            small = shrink_cache(case, key)
            q = Deferred(_Quiet())
            check_cache(q, small)
            for k2, _, detail in q.viols:
                if k2 == key:
                    rec.violation(k2, small, detail)
                    break


def run_shard(spec, rec):
    if spec["kind"] == "cache":
        return run_cache(spec, rec)
    return run_elev(spec, rec)


def replay(case, rec):
    kind = case.get("kind")
    if kind == "cache":
        check_cache(rec, case)
    elif kind == "download":
        check_download(rec, case)
    elif kind == "tilegrid":
        check_tilegrid(rec, case)
    elif kind == "elev":
        with FakeTiles(rec, size=1) as fake:
            check_elevation(rec, case, fake)
    elif kind == "native":
        check_native(rec, case)
    elif kind == "tiles":
        check_tiles(rec, case)
    else:
        rec.inconc("unknown case kind %r" % (kind,))
