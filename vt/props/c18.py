"""C18 - BMCI estimates are the importance-weighted statistics of its database
(typhon/retrieval/bmci/bmci.py).

Runtime monitoring: BMCI.weights is wrapped on the class, so every window that predict / cdf /
predict_quantiles obtain is observed together with the chi-square (longdouble, explicit
Cholesky) of *every* database entry; the public methods are then judged against
vt.models.bmci_model.

Where each clause of the statement is decided
  w_i = exp(-chi2_i/2) ................................ weights monitor: "bmci-weights-value"
  predict = weighted mean / std ......................... check_predict: "bmci-predict-value"
      x2_max < 0: over the whole database; x2_max >= 0: over the observed window, whose
      soundness is decided by the monitor (next line) and whose effect by the share bound
  x2_max >= 0 leaves out only entries with chi2 > x2_max  weights monitor:
                                                          "bmci-x2max-leaves-out-entry"
  ... so estimates change by <= the left-out share ...... check_predict: "bmci-x2max-share"
      (|mean - mean_full| <= rho R, |var - var_full| <= 2.5 rho R^2, rho = weight share of *all*
      entries with chi2 > x2_max, R = max x - min x)
  independent of the order of the database .............. check_order: "bmci-order-dependence"
      (5 permutations; unrestricted mode directly, restricted mode through every permuted
      instance's own window + share checks); constructor keeps (y_i, x_i) rows together:
      "bmci-database-scrambled"
  cdf non-decreasing, from the smallest x, ends at 1 .... check_cdf: "bmci-cdf-shape"
  cdf is the weighted CDF (index bookkeeping) ........... check_cdf: "bmci-cdf-value"
  predict_quantiles non-decreasing in tau, within
  [min x, max x] ........................................ check_quantiles: "bmci-quantiles-order",
                                                          "bmci-quantiles-range"
  quantiles consistent with the weighted CDF ............ check_quantiles: "bmci-quantiles-value"
  zero total weight => NaN, not an exception / number ... all three checkers:
      "bmci-nan-branch-raises" (AttributeError np.float), "bmci-empty-window-indexerror",
      "bmci-zero-weight-not-nan"
"""
import traceback

import numpy as np

from vt.core import np_rng_for
from vt.models import bmci_model as B

ID = "C18"
LEVEL = "exploration"
RULE = ("databases of 1..5000 entries x 1..10 channels from classes cloud / duplicated rows / "
        "identical y / integer grid (ties in the projection) / line, x linear in y / constant / "
        "ties / heavy-tailed, covariance diagonal or rotated with eigenvalue ratio 1..1e8; 9 "
        "observations per database (equal to an entry, near, between two entries, at the edge, "
        "10/100/1000 sigma away along the eigenvector of the smallest and of the largest "
        "eigenvalue, in the underflow band) x x2_max in {-1, 0, 1e-3, 1, 10, 1e3} x "
        "predict / predict_quantiles / cdf, plus 5 random permutations of each database. "
        "non-trivial = (database with >= 2 distinct x, observation, x2_max, method) whose verdict "
        "had teeth: either the NaN regime, or a value comparison whose derived tolerance is "
        "<= 1e-3 of the weighted standard deviation (<= 1e-9 of the x range when that is 0)")
ASSUMPTIONS = [
    "oracle: chi2_i = |L^-1 (y_i - y)|^2 with an explicit longdouble Cholesky factor of S, "
    "weighted sums in longdouble after subtracting the smallest exponent",
    "a binary64 implementation evaluates chi2/2 with error <= Delta_i = (4 m eps kappa(S) "
    "|S^-1| |dy_i|^2 + (m+2) eps |dy_i|^T|S^-1||dy_i|)/2 (normwise error of the inverse + "
    "rounding of the products); weights are therefore only known up to exp(+-Delta_i) and the "
    "tolerance of mean / variance / cdf is the exact effect of such factors plus (n+5) eps "
    "sum(w|x|)/sum(w); a comparison whose tolerance exceeds 1e-3 weighted std is still made "
    "but counted as *.vacuous (happens for eigenvalue ratios >= 1e6)",
    "binary64 exp underflows to 0 below -745.14 and to subnormals below -708.39: NaN is demanded "
    "when every window exponent is < -(745.14 + Delta) (or the window is empty), a number when "
    "the largest exponent is > -690; in between either is accepted (regime.band)",
    "entries with chi2 within 1e-9 relative of x2_max may be on either side of the window",
    "order independence, unrestricted mode: the inverse is the same for every order, so only "
    "the product/summation rounding differs",
    "np.interp may overshoot the bracketing x by a few ulp: range tolerance 4 eps max|x|",
    "crps() and pdf() are not part of the statement (pdf uses numpy.histogram(normed=), crps "
    "numpy.trapz - both removed from numpy); not exercised",
]
MIN_NONTRIVIAL = {"quick": 3000, "thorough": 30000}
REQUIRED_COUNTERS = {"weights.monitored": 20000, "weights.restricted": 10000,
                     "predict.calls": 5000, "cdf.calls": 5000, "quantiles.calls": 5000,
                     "regime.nan": 1000, "regime.value": 5000, "order.compared": 1000,
                     "window.entries_left_out": 10000, "databases": 200}
SHARD_TIMEOUT = {"quick": 600, "thorough": 5400}

EPS = B.EPS
X2S = [-1.0, 0.0, 1e-3, 1.0, 10.0, 1e3]
NPERM = 5


def shards(tier, seed):
    n = 26 if tier == "quick" else 330
    return [{"kind": "bmci", "seed": seed, "shard": i, "n": n} for i in range(16)]


# --------------------------------------------------------------------------
# weights monitor
# --------------------------------------------------------------------------
_state = {"installed": False, "rec": None, "case": None, "log": []}


def ref_of(self):
    r = getattr(self, "_vt_ref", None)
    if r is None:
        r = B.Ref(self.y, self.x, self.s_o)
        self._vt_ref = r
        self._vt_cache = {}
    return r


def obs_info(self, y_obs):
    ref = ref_of(self)
    key = np.asarray(y_obs, dtype=float).tobytes()
    info = self._vt_cache.get(key)
    if info is None:
        chi2, dy = ref.chi2(np.asarray(y_obs, dtype=float).ravel())
        delta, dprod = ref.exponent_error(dy)
        info = {"chi2": chi2, "delta": delta, "dprod": dprod}
        if len(self._vt_cache) > 40:
            self._vt_cache.clear()
        self._vt_cache[key] = info
    return info


def install_monitor(rec):
    from typhon.retrieval.bmci import bmci as mod
    _state["rec"] = rec
    if _state["installed"]:
        return
    _state["installed"] = True
    orig = mod.BMCI.weights

    def weights(self, y_obs, x2_max=-1.0):
        res = orig(self, y_obs, x2_max)
        rec = _state["rec"]
        if getattr(self, "_vt_unmonitored", False):
            return res      # (objects whose attributes the harness changed on purpose: judged by their caller)
        try:
            monitor_weights(self, y_obs, x2_max, res, rec)
        except Exception as exc:                      # the monitor itself failed
            rec.inconc("weights monitor crashed: %r %s" % (exc, traceback.format_exc()[-800:]))
        return res

    weights.__wrapped__ = orig
    mod.BMCI.weights = weights


def monitor_weights(self, y_obs, x2_max, res, rec):
    case = _state["case"]
    rec.count("weights.monitored")
    info = obs_info(self, y_obs)
    chi2 = info["chi2"]
    n = self.n
    try:
        i_l, i_u, ws = res
        i_l, i_u = int(i_l), int(i_u)
        ws = np.asarray(ws, dtype=float).reshape(-1)
    except Exception as exc:
        rec.violation("bmci-weights-value", case, {"why": "not (i_l, i_u, ws)", "exc": repr(exc)})
        return
    entry = {"i_l": i_l, "i_u": i_u, "ws": ws, "x2": float(x2_max), "info": info, "ok": True}
    _state["log"].append(entry)
    if not (0 <= i_l <= i_u <= n) or ws.size != i_u - i_l:
        entry["ok"] = False
        rec.violation("bmci-weights-value", case,
                      {"why": "window/weights inconsistent", "i_l": i_l, "i_u": i_u, "n": n,
                       "ws": int(ws.size)})
        return
    if x2_max < 0:
        if (i_l, i_u) != (0, n):
            entry["ok"] = False
            rec.violation("bmci-x2max-leaves-out-entry", case,
                          {"why": "unrestricted mode does not use the whole database",
                           "i_l": i_l, "i_u": i_u, "n": n})
    else:
        rec.count("weights.restricted")
        out = np.ones(n, dtype=bool)
        out[i_l:i_u] = False
        rec.count("window.entries_left_out", int(out.sum()))
        rec.count("window.entries_kept", int(i_u - i_l))
        if out.any():
            c_out = chi2[out]
            wrong = c_out <= B.LD(x2_max) * (1 - B.LD(1e-9))
            if x2_max == 0:
                wrong = c_out <= 0
            if wrong.any():
                entry["ok"] = False
                k = int(np.flatnonzero(out)[np.argmin(c_out)])
                rec.violation("bmci-x2max-leaves-out-entry", case,
                              {"x2_max": float(x2_max), "left_out_with_chi2_le_x2max":
                               int(wrong.sum()), "smallest_chi2_left_out": float(c_out.min()),
                               "index_in_sorted_db": k, "i_l": i_l, "i_u": i_u, "n": n})
            band = (c_out <= B.LD(x2_max)) & ~wrong
            if band.any():
                rec.count("window.band")
    # values of the weights inside the window
    if i_u > i_l:
        e = (-chi2[i_l:i_u] / 2)
        d = info["delta"][i_l:i_u]
        lo = np.exp(np.maximum(e - d, B.LD(-11000))) * (1 - B.LD(4 * EPS))
        hi = np.exp(np.minimum(e + d, B.LD(700))) * (1 + B.LD(4 * EPS))
        # below the subnormal threshold the binary64 result loses relative accuracy / becomes 0
        sub = (e - d) < -B.UNDERFLOW_SUBNORMAL + 1
        lo = np.where(sub, B.LD(0), lo)
        hi = np.where(sub, hi + B.LD(1e-322), hi)
        bad = ~((ws >= lo) & (ws <= hi))
        if bad.any():
            entry["ok"] = False
            k = int(np.flatnonzero(bad)[0])
            rec.violation("bmci-weights-value", case,
                          {"index_in_window": k, "got": float(ws[k]),
                           "want": float(np.exp(e[k])), "delta": float(d[k]),
                           "chi2": float(chi2[i_l + k])})


# --------------------------------------------------------------------------
# generators
# --------------------------------------------------------------------------
DB_CLASSES = ["cloud", "cloud", "dups", "same_y", "grid", "line"]
X_CLASSES = ["lin", "lin", "const", "ties", "heavy", "rand"]
SIZES = [1, 1, 2, 2, 3, 5, 10, 30, 100, 100, 300, 300, 1000, 1000, 5000]
OBS_CLASSES = ["entry", "near", "between", "edge", "far_vmin_10", "far_vmin_100",
               "far_vmin_1000", "far_vmax_100", "band"]


def gen_params(seed, shard, i):
    rng = np_rng_for(seed, "c18", shard, i)
    return {"n": int(SIZES[int(rng.integers(0, len(SIZES)))]), "m": int(rng.integers(1, 11)),
            "db": DB_CLASSES[int(rng.integers(0, len(DB_CLASSES)))],
            "xc": X_CLASSES[int(rng.integers(0, len(X_CLASSES)))],
            "sc": str(rng.choice(["diag", "rot"])),
            "kappa": float(10 ** rng.choice([0, 1, 2, 3, 4, 6, 8])),
            # incl. SI-radiance-like units: a correlated covariance whose entries are all <= 1e-8
            "sigma": float(rng.choice([0.1, 1.0, 2.0, 30.0, 1e-5, 3e-6, 1e-3])),
            "spread": float(rng.choice([0.5, 3.0, 30.0])),
            "offset": float(rng.choice([0.0, 250.0])),
            "s": int(rng.integers(0, 2 ** 31))}


def build(g):
    rng = np.random.default_rng(g["s"])
    n, m = g["n"], g["m"]
    spec = np.exp(rng.uniform(0, np.log(g["kappa"]), m)) if g["kappa"] > 1 else np.ones(m)
    if m > 1:
        spec[0], spec[-1] = 1.0, g["kappa"]
    spec = spec / g["kappa"] ** 0.5 * g["sigma"] ** 2
    if g["sc"] == "diag" or m == 1:
        S = np.diag(rng.permutation(spec))
    else:
        q, _ = np.linalg.qr(rng.normal(size=(m, m)))
        S = (q * spec) @ q.T
        S = (S + S.T) / 2
    w, v = np.linalg.eigh(S)
    sd = np.sqrt(w)
    # database spread in units of the noise along every principal axis
    amp = g["spread"] * sd

    def cloud(k):
        return (rng.normal(size=(k, m)) * amp) @ v.T

    if g["db"] == "cloud":
        y = cloud(n)
    elif g["db"] == "dups":
        k = max(1, n // 3)
        y = cloud(k)[rng.integers(0, k, n)]
    elif g["db"] == "same_y":
        y = np.repeat(cloud(1), n, axis=0)
    elif g["db"] == "grid":
        y = (rng.integers(-3, 4, (n, m)) * amp) @ v.T
    else:
        d = rng.normal(size=m)
        y = np.outer(rng.normal(size=n) * g["spread"] * g["sigma"], d / np.linalg.norm(d))
    y = y + g["offset"]
    a = rng.normal(size=m) / (amp * np.sqrt(m))
    if g["xc"] == "lin":
        x = (y - g["offset"]) @ (v @ (a * 1.0)) + 0.1 * rng.normal(size=n)
    elif g["xc"] == "const":
        x = np.full(n, float(rng.choice([0.0, 3.5, -2.0])))
    elif g["xc"] == "ties":
        x = rng.integers(-2, 3, n).astype(float)
    elif g["xc"] == "heavy":
        x = np.clip(rng.standard_cauchy(n), -1e6, 1e6) * 10
    else:
        x = rng.normal(size=n) * 100 + 1000
    if g["db"] == "dups" and rng.random() < 0.5:
        # duplicated (y, x) pairs
        _, inv = np.unique(y, axis=0, return_inverse=True)
        x = x[np.asarray([np.flatnonzero(inv == t)[0] for t in inv.ravel()])]
    # observations
    obs = []
    idx = rng.integers(0, n, len(OBS_CLASSES))
    L = np.linalg.cholesky(S)
    vmin, vmax = v[:, 0], v[:, -1]
    for c, k in zip(OBS_CLASSES, idx):
        base = y[k].copy()
        if c == "entry":
            o = base
        elif c == "near":
            o = base + 0.5 * (L @ rng.normal(size=m))
        elif c == "between":
            o = 0.5 * (base + y[int(rng.integers(0, n))])
        elif c == "edge":
            d = rng.normal(size=m)
            k2 = int(np.argmax(y @ d))
            o = y[k2] + (L @ rng.normal(size=m)) * 1.0 + 2.0 * sd[0] * vmin
        elif c.startswith("far_vmin"):
            t = float(c.split("_")[-1])
            far = y[int(np.argmax(y @ vmin))]
            o = far + t * sd[0] * vmin
        elif c == "far_vmax_100":
            far = y[int(np.argmax(y @ vmax))]
            o = far + 100.0 * sd[-1] * vmax
        else:  # band: nearest chi2/2 between 690 and 760
            far = y[int(np.argmax(y @ vmax))]
            o = far + np.sqrt(2 * float(rng.uniform(690, 760))) * sd[-1] * vmax
        obs.append(np.asarray(o, dtype=float))
    taus = np.concatenate([[0.0, 1.0, 0.5], rng.uniform(0, 1, 4), [0.05, 0.95]])
    taus = rng.permutation(taus)
    perms = [rng.permutation(n) for _ in range(NPERM)]
    return y, x, S, np.asarray(obs), taus, perms


# --------------------------------------------------------------------------
# judging one (instance, observation, x2_max)
# --------------------------------------------------------------------------
def regime(entry):
    """nan | value | band, from the exponents of the entries inside the observed window."""
    i_l, i_u = entry["i_l"], entry["i_u"]
    if i_u <= i_l:
        return "nan", None
    e = (-entry["info"]["chi2"][i_l:i_u] / 2)
    d = entry["info"]["delta"][i_l:i_u]
    if float((e + d).max()) < -(B.UNDERFLOW_ZERO + 0.01):
        return "nan", None
    k = int(np.argmax(e))
    if float(e[k] - d[k]) > -690.0:
        return "value", k
    return "band", None


def classify_exc(exc, entry):
    s = repr(exc)
    if isinstance(exc, AttributeError) and "float" in s:
        return "bmci-nan-branch-raises"
    if isinstance(exc, IndexError) and entry is not None and entry["i_u"] <= entry["i_l"]:
        return "bmci-empty-window-indexerror"
    return "bmci-exception"


def window_stats(bm, entry):
    ref = ref_of(bm)
    i_l, i_u = entry["i_l"], entry["i_u"]
    chi2 = entry["info"]["chi2"][i_l:i_u]
    xw = ref.x[i_l:i_u]
    st = ref.stats(chi2, xw)
    return st, xw, entry["info"]["delta"][i_l:i_u]


def teeth(rec, what, tol, st, ref):
    std = float(st["std"])
    R = ref.xmax - ref.xmin
    ok = tol <= 1e-3 * std if std > 0 else tol <= 1e-9 * max(R, 1e-300) or R == 0
    rec.count(what + (".decided" if ok else ".vacuous"))
    return ok


def check_predict(rec, bm, yo, x2, case, sig):
    ref = ref_of(bm)
    _state["log"] = []
    _state["case"] = case
    rec.ev()
    rec.count("predict.calls")
    try:
        xs, sg = bm.predict(yo.reshape(1, -1), x2)
        exc = None
    except Exception as e:
        exc = e
    entry = _state["log"][-1] if _state["log"] else None
    if entry is None:
        rec.violation("bmci-exception" if exc else "bmci-weights-not-used", case,
                      {"method": "predict", "exception": repr(exc)})
        return None
    reg, _ = regime(entry)
    rec.count("regime." + reg)
    if exc is not None:
        rec.violation(classify_exc(exc, entry), case,
                      {"method": "predict", "exception": repr(exc)[:300], "regime": reg,
                       "window": [entry["i_l"], entry["i_u"]]})
        return None
    mean, std = float(xs[0]), float(sg[0])
    if reg == "nan":
        if not (np.isnan(mean) and np.isnan(std)):
            rec.violation("bmci-zero-weight-not-nan", case,
                          {"method": "predict", "got": [mean, std],
                           "window": [entry["i_l"], entry["i_u"]]})
        else:
            rec.nontriv(["predict", "nan"] + sig, [case["g"]["s"], case["obs"], x2, case["perm"]])
        return None
    if reg == "band":
        # weights are (close to) subnormal: their products with x have no relative accuracy, so
        # neither NaN nor any particular number can be demanded - only that nothing is raised
        return None
    if not entry["ok"]:
        return None
    st, xw, delta = window_stats(bm, entry)
    nw = len(xw)
    R = ref.xmax - ref.xmin
    bm_, bv_, _ = B.perturbation_bounds(st, xw, delta, nw)
    tolm = bm_ + nw * 1e-20 * R
    tolv = bv_ + nw * 1e-20 * R * R
    wm, wv = float(st["mean"]), float(st["var"])
    good = True
    if not (abs(mean - wm) <= tolm):
        good = False
        rec.violation("bmci-predict-value", case,
                      {"what": "mean", "got": mean, "want": wm, "tol": tolm, "x2_max": x2,
                       "window": [entry["i_l"], entry["i_u"]], "n": ref.n})
    # std: |s - s_ref| from the variance bound (sqrt is 1/2-Hoelder: |a-b| <= sqrt|a^2-b^2|)
    if good and not (abs(std * std - wv) <= tolv + 4 * EPS * wv or abs(std - float(st["std"]))
                     <= np.sqrt(tolv)):
        good = False
        rec.violation("bmci-predict-value", case,
                      {"what": "std", "got": std, "want": float(st["std"]), "tol_var": tolv,
                       "x2_max": x2, "window": [entry["i_l"], entry["i_u"]], "n": ref.n})
    # share bound against the whole database
    if good and x2 >= 0:
        chi2 = entry["info"]["chi2"]
        full = ref.stats(chi2)
        outm = chi2 > B.LD(x2)
        e0 = full["e0"]
        rho = float(np.exp(-chi2[outm] / 2 - e0).sum() / full["W"]) if outm.any() else 0.0
        rec.maxi("share.rho", rho)
        if not abs(mean - float(full["mean"])) <= rho * R + tolm + 8 * EPS * R:
            good = False
            rec.violation("bmci-x2max-share", case,
                          {"what": "mean", "got": mean, "full": float(full["mean"]), "rho": rho,
                           "R": R, "tol": tolm})
        elif not abs(std * std - float(full["var"])) <= 2.5 * rho * R * R + tolv + 8 * EPS * R * R:
            good = False
            rec.violation("bmci-x2max-share", case,
                          {"what": "var", "got": std * std, "full": float(full["var"]),
                           "rho": rho, "R": R, "tol": tolv})
    if good and teeth(rec, "predict", tolm, st, ref) and ref.xmax > ref.xmin:
        rec.nontriv(["predict", "value"] + sig, [case["g"]["s"], case["obs"], x2, case["perm"]])
    return (mean, std, st, entry)


def check_cdf(rec, bm, yo, x2, case, sig):
    ref = ref_of(bm)
    _state["log"] = []
    _state["case"] = case
    rec.ev()
    rec.count("cdf.calls")
    try:
        xs, F = bm.cdf(yo.copy(), x2)
        exc = None
    except Exception as e:
        exc = e
    entry = _state["log"][-1] if _state["log"] else None
    if entry is None:
        rec.violation("bmci-exception" if exc else "bmci-weights-not-used", case,
                      {"method": "cdf", "exception": repr(exc)})
        return
    reg, _ = regime(entry)
    if exc is not None:
        rec.violation(classify_exc(exc, entry), case,
                      {"method": "cdf", "exception": repr(exc)[:300], "regime": reg,
                       "window": [entry["i_l"], entry["i_u"]]})
        return
    Fa = np.asarray(F, dtype=float).reshape(-1)
    if reg == "nan":
        if not (Fa.size == 0 or np.all(np.isnan(Fa))):
            rec.violation("bmci-zero-weight-not-nan", case,
                          {"method": "cdf", "got_head": Fa[:5].tolist()})
        else:
            rec.nontriv(["cdf", "nan"] + sig, [case["g"]["s"], case["obs"], x2, case["perm"]])
        return
    if reg == "band" and np.all(np.isnan(Fa)):
        return
    i_l, i_u = entry["i_l"], entry["i_u"]
    xs = np.asarray(xs, dtype=float).reshape(-1)
    xw = ref.x[i_l:i_u].astype(float)
    why = None
    if xs.size != i_u - i_l or Fa.size != xs.size:
        why = {"why": "sizes", "xs": int(xs.size), "F": int(Fa.size), "window": i_u - i_l}
    elif np.any(np.diff(xs) < 0):
        why = {"why": "xs not ascending"}
    elif xs[0] != xw.min() or (x2 < 0 and xs[0] != ref.xmin):
        why = {"why": "does not start at the smallest x", "xs0": float(xs[0]),
               "min_x": float(xw.min())}
    elif not np.array_equal(np.sort(xw), xs):
        why = {"why": "xs is not the sorted x of the window"}
    elif np.any(np.diff(Fa) < 0) or np.any(Fa < 0):
        why = {"why": "cdf decreasing"}
    elif not abs(Fa[-1] - 1.0) <= 2 * EPS:
        why = {"why": "does not end at 1", "last": float(Fa[-1])}
    if why is not None:
        rec.violation("bmci-cdf-shape", case, dict(why, x2_max=x2))
        return
    if reg != "value" or not entry["ok"]:
        return
    st, xwl, delta = window_stats(bm, entry)
    _, _, rel = B.perturbation_bounds(st, xwl, delta, len(xwl))
    tolF = 2 * rel + (len(xwl) + 5) * EPS
    # compare at the last element of every group of equal x (order inside a group is free)
    last = np.flatnonzero(np.append(np.diff(xs) > 0, True))
    if last.size > 200:
        last = last[np.linspace(0, last.size - 1, 200).astype(int)]
    order = np.argsort(xwl.astype(float), kind="stable")
    cw = np.cumsum(st["w"][order]) / st["W"]
    xsorted = xwl.astype(float)[order]
    pos = np.searchsorted(xsorted, xs[last], side="right") - 1
    want = cw[pos].astype(float)
    err = np.abs(Fa[last] - want)
    if np.any(~(err <= tolF)):
        k = int(np.argmax(err))
        rec.violation("bmci-cdf-value", case,
                      {"x": float(xs[last][k]), "got": float(Fa[last][k]), "want": float(want[k]),
                       "tol": tolF, "x2_max": x2})
        return
    if tolF <= 1e-3:
        rec.count("cdf.decided")
        if ref.xmax > ref.xmin:
            rec.nontriv(["cdf", "value"] + sig, [case["g"]["s"], case["obs"], x2, case["perm"]])
    else:
        rec.count("cdf.vacuous")


def check_quantiles(rec, bm, yo, x2, taus, case, sig):
    ref = ref_of(bm)
    _state["log"] = []
    _state["case"] = case
    rec.ev()
    rec.count("quantiles.calls")
    try:
        qs = bm.predict_quantiles(yo.reshape(1, -1), taus, x2)
        exc = None
    except Exception as e:
        exc = e
    entry = _state["log"][-1] if _state["log"] else None
    if entry is None:
        rec.violation("bmci-exception" if exc else "bmci-weights-not-used", case,
                      {"method": "predict_quantiles", "exception": repr(exc)})
        return
    reg, _ = regime(entry)
    if exc is not None:
        rec.violation(classify_exc(exc, entry), case,
                      {"method": "predict_quantiles", "exception": repr(exc)[:300], "regime": reg,
                       "window": [entry["i_l"], entry["i_u"]]})
        return
    qs = np.asarray(qs, dtype=float)
    if qs.shape != (1, len(taus)):
        rec.violation("bmci-quantiles-order", case, {"why": "shape", "shape": list(qs.shape)})
        return
    q = qs[0]
    if reg == "nan":
        if not np.all(np.isnan(q)):
            rec.violation("bmci-zero-weight-not-nan", case,
                          {"method": "predict_quantiles", "got": q.tolist()})
        else:
            rec.nontriv(["quantiles", "nan"] + sig, [case["g"]["s"], case["obs"], x2, case["perm"]])
        return
    if reg == "band" and np.all(np.isnan(q)):
        return
    if np.any(np.isnan(q)):
        rec.violation("bmci-quantiles-range", case, {"why": "NaN with non-zero weights",
                                                    "got": q.tolist()})
        return
    slack = 4 * EPS * max(abs(ref.xmin), abs(ref.xmax))
    if np.any(q < ref.xmin - slack) or np.any(q > ref.xmax + slack):
        rec.violation("bmci-quantiles-range", case,
                      {"got": q.tolist(), "range": [ref.xmin, ref.xmax]})
        return
    o = np.argsort(taus, kind="stable")
    if np.any(np.diff(q[o]) < -slack):
        rec.violation("bmci-quantiles-order", case,
                      {"taus": np.asarray(taus)[o].tolist(), "got": q[o].tolist()})
        return
    if reg != "value" or not entry["ok"]:
        return
    st, xwl, delta = window_stats(bm, entry)
    _, _, rel = B.perturbation_bounds(st, xwl, delta, len(xwl))
    tolF = 2 * rel + (len(xwl) + 5) * EPS
    xf = xwl.astype(float)
    for t, qq in zip(taus, q):
        below = B.cdf_at(st["w"], xf, st["W"], qq - slack, True)
        # interpolation puts q anywhere in [x_j, x_j+1] with F_j <= tau <= F_j+1; a q within
        # rounding of x_j counts as inside the interval (lenient side)
        up = xf[xf >= qq + slack]
        nxt = up.min() if up.size else ref.xmax
        atmost = B.cdf_at(st["w"], xf, st["W"], nxt, False)
        if not (below <= t + tolF and t <= atmost + tolF):
            rec.violation("bmci-quantiles-value", case,
                          {"tau": float(t), "q": float(qq), "P(x<q)": below,
                           "P(x<=next db value)": atmost, "tol": tolF, "x2_max": x2})
            return
    if tolF <= 1e-3:
        rec.count("quantiles.decided")
        if ref.xmax > ref.xmin:
            rec.nontriv(["quantiles", "value"] + sig,
                        [case["g"]["s"], case["obs"], x2, case["perm"]])
    else:
        rec.count("quantiles.vacuous")


def check_constructor(rec, bm, y, x, case):
    """The instance must hold the same (y_i, x_i) pairs, ordered along its projection."""
    rows_in = np.column_stack([y, x])
    rows_bm = np.column_stack([np.asarray(bm.y, dtype=float), np.asarray(bm.x, dtype=float)])
    a = rows_in[np.lexsort(rows_in.T[::-1])]
    b = rows_bm[np.lexsort(rows_bm.T[::-1])]
    if a.shape != b.shape or not np.array_equal(a, b):
        rec.violation("bmci-database-scrambled", case, {"why": "(y, x) rows are not preserved"})
        return False
    if np.any(np.diff(np.asarray(bm.pc1_proj)) < 0):
        rec.violation("bmci-database-scrambled", case, {"why": "projection not sorted"})
        return False
    return True


def check_order(rec, perm_pred, base_pred, x_perm, case, sig):
    """Unrestricted predictions of two orders of the same database agree within the rounding of
    products and sums (the bound is evaluated on the permuted instance's own ordering)."""
    m1, s1, st, entry = perm_pred
    m0, s0 = base_pred[0], base_pred[1]
    rec.count("order.compared")
    dprod = entry["info"]["dprod"]
    bmn, bvr, _ = B.perturbation_bounds(st, x_perm, 2 * dprod, len(x_perm))
    if not abs(m0 - m1) <= 2 * bmn:
        rec.violation("bmci-order-dependence", case,
                      {"what": "mean", "order0": m0, "permuted": m1, "tol": 2 * bmn})
    elif not (abs(s0 * s0 - s1 * s1) <= 2 * bvr + 8 * EPS * s0 * s0
              or abs(s0 - s1) <= np.sqrt(2 * bvr)):
        rec.violation("bmci-order-dependence", case,
                      {"what": "std", "order0": s0, "permuted": s1, "tol_var": 2 * bvr})
    else:
        rec.nontriv(["order"] + sig, [case["g"]["s"], case["obs"], case["perm"]])


# --------------------------------------------------------------------------
# driver
# --------------------------------------------------------------------------
def mod_bmci():
    from typhon.retrieval.bmci import bmci as mod
    return mod


def make(rec, y, x, S, case):
    from typhon.retrieval.bmci import bmci as mod
    try:
        return mod.BMCI(y.copy(), x.copy(), S.copy())
    except Exception as exc:
        rec.violation("bmci-exception", case, {"method": "__init__", "exception": repr(exc)[:300],
                                               "trace": traceback.format_exc()[-500:]})
        return None


def run_db(rec, g, only=None):
    """only = {"perm": p, "obs": j, "x2": v, "method": name} restricts to one combination."""
    y, x, S, obs, taus, perms = build(g)
    sig0 = [g["db"], g["xc"], g["sc"], int(np.log10(g["kappa"])), min(g["n"], 1000), g["m"]]
    rec.count("databases")
    rec.setadd("db_classes", [g["db"], g["xc"], g["sc"]])
    plist = [-1] + list(range(NPERM))
    base_pred = {}
    for p in plist:
        if only is not None and only["perm"] != p and not (only["method"] == "order" and p == -1):
            continue
        if p >= 0 and g["n"] == 1:
            continue
        yy, xx = (y, x) if p < 0 else (y[perms[p]], x[perms[p]])
        case0 = {"g": g, "perm": p, "obs": None, "x2": None, "method": "__init__"}
        bm = make(rec, yy, xx, S, case0)
        if bm is None:
            continue
        if not check_constructor(rec, bm, yy, xx, case0):
            continue
        ref = ref_of(bm)
        if only is None or only.get("obs") == "batch":
            for x2b in (-1.0, 1.0):
                check_batch(rec, bm, obs, x2b, g, p,
                            twin=lambda: mod_bmci().BMCI(yy.copy(), xx.copy(), S.copy()), raw=(yy, xx, S))
            if only is not None:
                continue
        for j, yo in enumerate(obs):
            if only is not None and only["obs"] != j:
                continue
            # the original order sees every x2_max; permutations the unrestricted mode plus one
            x2s = X2S if p < 0 else [-1.0, X2S[1 + (j + p) % 5]]
            if p < 0:
                # call history on one object: the same observation under every x2_max in a seeded
                # order, then the unrestricted and the most restrictive mode once more
                order = np.random.default_rng(g["s"] + 7 * j).permutation(len(X2S))
                x2s = [X2S[k] for k in order] + [-1.0, 0.0]
            for x2 in x2s:
                if only is not None and p >= 0 and only["x2"] != x2 and not (
                        only["method"] == "order" and x2 == -1.0):
                    continue  # (for p < 0 a replay re-runs the whole x2_max history of that observation)
                sig = sig0 + [OBS_CLASSES[j], x2]
                case = {"g": g, "perm": p, "obs": j, "x2": x2, "method": "predict"}
                meth = None if only is None else only["method"]
                if meth in (None, "predict", "order"):
                    r = check_predict(rec, bm, yo, x2, case, sig)
                    if x2 < 0 and r is not None:
                        if p < 0:
                            base_pred[j] = r
                        elif j in base_pred:
                            check_order(rec, r, base_pred[j], ref.x,
                                        dict(case, method="order"), sig)
                if p < 0 or x2 >= 0 or j % 3 == 0:
                    if meth in (None, "cdf"):
                        check_cdf(rec, bm, yo, x2, dict(case, method="cdf"), sig)
                    if meth in (None, "predict_quantiles"):
                        check_quantiles(rec, bm, yo, x2, taus,
                                        dict(case, method="predict_quantiles"), sig)


def check_batch(rec, bm, obs, x2, g, p, twin=None, raw=None):
    """predict() on a batch of observations must give, row by row, what it gives for each row alone
    (rows with and without support mixed in both orders)."""
    obs = np.asarray(obs)
    if obs.shape[0] < 2:
        return
    case = {"g": g, "perm": p, "obs": "batch", "x2": x2, "method": "predict-batch"}
    _state["case"] = case
    singles = []
    try:
        for yo in obs:
            xs, sg = bm.predict(yo.reshape(1, -1), x2)
            singles.append((float(np.ravel(xs)[0]), float(np.ravel(sg)[0])))
        for order in (np.arange(obs.shape[0]), np.arange(obs.shape[0])[::-1]):
            rec.ev()
            rec.count("predict.batch_calls")
            xs, sg = bm.predict(obs[order], x2)
            xs, sg = np.ravel(xs).astype(float), np.ravel(sg).astype(float)
            want = np.array([singles[k] for k in order])
            if xs.shape[0] != len(order) or not (
                    np.array_equal(xs, want[:, 0], equal_nan=True)
                    and np.array_equal(sg, want[:, 1], equal_nan=True)):
                bad = [int(k) for k in range(min(len(order), xs.shape[0]))
                       if not (np.array_equal(xs[k], want[k, 0], equal_nan=True)
                               and np.array_equal(sg[k], want[k, 1], equal_nan=True))][:3]
                rec.violation("bmci-batch-differs", case,
                              {"why": "a row of a batch differs from the same observation alone",
                               "rows": bad, "batch": [float(xs[k]) for k in bad],
                               "alone": [float(want[k, 0]) for k in bad]})
                return
        if any(np.isnan(a) for a, _ in singles) and not all(np.isnan(a) for a, _ in singles):
            rec.count("predict.batch_mixed_support")
        # call history on one caller-owned observation buffer (vt/monitors/history.py): the batch is
        # reversed in place between two calls that pass the same array object
        from vt.monitors import history
        tw = twin() if twin is not None else None
        if tw is not None and case["x2"] < 0:
            # constructor history: the caller's database and covariance buffers are refilled right after
            # the object was built (before its first evaluation) - it answers for what it was built from
            yb, xb, Sb = (np.array(a, copy=True) for a in raw) if raw is not None else (None, None, None)
            if yb is not None:
                rec.ev()
                rec.count("history.constructor_buffers_refilled")
                late = mod_bmci().BMCI(yb, xb, Sb)
                late._vt_unmonitored = True
                # (only the covariance buffer: the unchanged tree keeps the database arrays by reference,
                # the statement says nothing about that; the precision matrix is what the weights use)
                Sb *= 9.0
                ob = np.array(obs, dtype=float)
                a1, a2 = late.predict(ob, x2), tw.predict(ob, x2)
                if not all(np.array_equal(np.asarray(u), np.asarray(v), equal_nan=True) for u, v in zip(a1, a2)):
                    rec.violation("bmci-stale-state", case,
                                  {"history": "covariance buffer refilled after construction, before the "
                                              "first evaluation", "method": "predict"})
                    return
        row = np.array(obs[0], dtype=float)
        taus = np.array([0.1, 0.5, 0.9])
        for name, args in (("predict", (np.array(obs, dtype=float), x2)),
                           ("weights", (row, x2)), ("cdf", (row, x2)),
                           ("predict_quantiles", (row.reshape(1, -1), taus, x2))):
            if name in ("weights", "cdf") and obs.shape[1] < 2:
                continue   # (an (m,) vector is what is updated in place: needs two channels)
            fn = getattr(bm, name)
            rec.ev()
            verdict, detail = history.reuse_check(fn, args, fresh_fn=getattr(tw, name) if tw is not None else None)
            rec.count("history.reuse_" + verdict.replace("/", ""))
            if verdict == "stale":
                rec.violation("bmci-stale-state", case, dict(detail, method=name))
                return
    except Exception as exc:
        rec.violation("bmci-exception", case, {"method": "predict (batch)", "exception": repr(exc)})


def shrink(g, v):
    """Re-generate the same configuration with fewer entries / channels while the same
    mechanism fails for the same (perm, obs, x2, method)."""
    from vt.core import Recorder
    case = v["case"]
    if not isinstance(case, dict) or case.get("obs") is None:
        return None
    for n, m in ((1, 1), (2, 1), (1, g["m"]), (2, g["m"]), (3, g["m"]), (5, g["m"]),
                 (10, g["m"]), (30, g["m"])):
        if n >= g["n"] and m >= g["m"]:
            break
        g2 = dict(g, n=min(n, g["n"]), m=m)
        probe = Recorder("C18", {})
        saved = _state["rec"]
        _state["rec"] = probe
        try:
            run_db(probe, g2, only={k: case[k] for k in ("perm", "obs", "x2", "method")})
        except Exception:
            pass
        finally:
            _state["rec"] = saved
        for pv in probe.violations:
            if pv["key"] == v["key"]:
                return pv
    return None


def run_and_report(rec, g):
    """Run one database on a private recorder, shrink what it found, forward everything."""
    from vt.core import Recorder
    probe = Recorder("C18", {})
    saved = _state["rec"]
    _state["rec"] = probe
    try:
        run_db(probe, g)
    finally:
        _state["rec"] = saved
    rec.evaluations += probe.evaluations
    rec.nontrivial |= probe.nontrivial
    for k, v in probe.counters.items():
        if k.startswith("violations:"):
            continue
        if k.startswith("max:"):
            rec.maxi(k[4:], v)
        else:
            rec.count(k, v)
    for k, s in probe.sets.items():
        for item in s:
            rec.setadd(k, item)
    for msg in probe.inconclusive:
        rec.inconc(msg)
    seen = {}
    for v in probe.violations:
        seen.setdefault(v["key"], v)
    for key, v in seen.items():
        small = shrink(g, v) or v
        n_same = probe.counters.get("violations:" + key, 1)
        rec.violation(key, small["case"], small["detail"])
        if n_same > 1:
            rec.count("violations:" + key, n_same - 1)
            rec.n_violations += n_same - 1


FIXED = [
    # an observation equal to a database entry with x2_max = 0; far observations
    {"n": 3, "m": 1, "db": "cloud", "xc": "rand", "sc": "diag", "kappa": 1.0, "sigma": 1.0,
     "spread": 3.0, "offset": 0.0, "s": 11},
    {"n": 10, "m": 2, "db": "cloud", "xc": "lin", "sc": "rot", "kappa": 100.0, "sigma": 1.0,
     "spread": 3.0, "offset": 250.0, "s": 12},
]


def run_shard(spec, rec):
    install_monitor(rec)
    if spec["shard"] == 0:
        for g in FIXED:
            run_and_report(rec, g)
    for i in range(spec["n"]):
        g = gen_params(spec["seed"], spec["shard"], i)
        if i < 1:
            rec.sample({"g": g})
        run_and_report(rec, g)


def replay(case, rec):
    install_monitor(rec)
    g = case["g"]
    if case.get("obs") is None:
        run_db(rec, g, only={"perm": case.get("perm", -1), "obs": -1, "x2": None,
                             "method": "__init__"})
    else:
        run_db(rec, g, only={k: case[k] for k in ("perm", "obs", "x2", "method")})
