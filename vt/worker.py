"""One shard: import the property module, drive it, write the Recorder as JSON."""
import importlib
import json
import os
import sys
import traceback
import warnings


def main():
    prop, spec_path, out_path = sys.argv[1:4]
    with open(spec_path) as fh:
        spec = json.load(fh)
    warnings.filterwarnings("ignore", category=SyntaxWarning)
    from vt.core import Recorder
    rec = Recorder(prop, spec)
    try:
        mod = importlib.import_module("vt.props." + prop.lower())
        if spec.get("kind") == "replay":
            mod.replay(spec["case"], rec)
        else:
            mod.run_shard(spec, rec)
    except BaseException as exc:  # the harness itself failed: never a verdict
        rec.inconc("shard crashed: %r\n%s" % (exc, traceback.format_exc()[-3000:]))
    tmp = out_path + ".tmp"
    with open(tmp, "w") as fh:
        json.dump(rec.dump(), fh)
    os.replace(tmp, out_path)


if __name__ == "__main__":
    main()
