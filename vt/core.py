"""Shared plumbing of the monitors: the per-shard Recorder and small helpers.

A *shard* is one worker process that imports typhon once and drives many cases.
Everything a shard learns goes through a Recorder, which is serialised to JSON
and folded by vt.run.
"""
import hashlib
import json
import os
import random
import time
import traceback

MAX_VIOLATIONS_KEPT = 12
MAX_SAMPLES = 4


def jhash(obj):
    return hashlib.sha1(
        json.dumps(obj, sort_keys=True, default=repr).encode()).hexdigest()[:16]


def jsonable(obj, depth=0):
    """Best effort conversion of a case description to plain JSON."""
    import datetime
    try:
        import numpy as np
    except Exception:  # pragma: no cover
        np = None
    if obj is None or isinstance(obj, (bool, int, str)):
        return obj
    if isinstance(obj, float):
        return obj if obj == obj and abs(obj) != float("inf") else repr(obj)
    if isinstance(obj, (datetime.datetime, datetime.date)):
        return obj.isoformat()
    if isinstance(obj, datetime.timedelta):
        return {"timedelta_us": obj // datetime.timedelta(microseconds=1)}
    if isinstance(obj, dict):
        return {str(k): jsonable(v, depth + 1) for k, v in obj.items()}
    if isinstance(obj, (list, tuple, set, frozenset)):
        return [jsonable(v, depth + 1) for v in obj]
    if np is not None:
        if isinstance(obj, np.ndarray):
            if obj.size > 400:
                return {"ndarray": list(obj.shape), "dtype": str(obj.dtype),
                        "head": jsonable(obj.ravel()[:20].tolist())}
            return jsonable(obj.tolist(), depth + 1)
        if isinstance(obj, np.generic):
            return jsonable(obj.item(), depth + 1)
    return repr(obj)


class Recorder:
    def __init__(self, prop, spec):
        self.prop = prop
        self.spec = spec
        self.evaluations = 0
        self.nontrivial = set()
        self.violations = []
        self.n_violations = 0
        self.samples = []
        self.counters = {}
        self.sets = {}
        self.inconclusive = []
        self.notes = []
        self.t0 = time.time()

    # -- what was explored ------------------------------------------------
    def ev(self, n=1):
        self.evaluations += n

    def nontriv(self, signature, content=None):
        """Register a non-trivial case: `signature` = class of the case,
        `content` = anything identifying the concrete case."""
        self.nontrivial.add(jhash([signature, content]))
        self.setadd("signatures", json.dumps(jsonable(signature), sort_keys=True))

    def sample(self, case):
        if len(self.samples) < MAX_SAMPLES:
            self.samples.append(jsonable(case))

    def count(self, name, n=1):
        self.counters[name] = self.counters.get(name, 0) + n

    def maxi(self, name, v):
        k = "max:" + name
        if v > self.counters.get(k, float("-inf")):
            self.counters[k] = v

    def setadd(self, name, item):
        s = self.sets.setdefault(name, set())
        if len(s) < 50000:
            s.add(item if isinstance(item, str) else json.dumps(jsonable(item), sort_keys=True))

    # -- verdicts -----------------------------------------------------------
    def violation(self, key, case, detail):
        """key: name of the mechanism (matched against known_findings.json)."""
        self.n_violations += 1
        self.count("violations:" + str(key))
        kept = [v for v in self.violations if v["key"] == key]
        if len(kept) < 3 and len(self.violations) < MAX_VIOLATIONS_KEPT:
            self.violations.append(
                {"key": key, "case": jsonable(case), "detail": jsonable(detail)})

    def inconc(self, reason):
        if len(self.inconclusive) < 20:
            self.inconclusive.append(str(reason))
        self.count("inconclusive")

    def note(self, text):
        if len(self.notes) < 20 and text not in self.notes:
            self.notes.append(text)

    def dump(self):
        return {
            "spec": self.spec,
            "evaluations": self.evaluations,
            "nontrivial": sorted(self.nontrivial),
            "violations": self.violations,
            "n_violations": self.n_violations,
            "samples": self.samples,
            "counters": self.counters,
            "sets": {k: sorted(v) for k, v in self.sets.items()},
            "inconclusive": self.inconclusive,
            "notes": self.notes,
            "wall_s": round(time.time() - self.t0, 3),
        }


def rng_for(seed, *salt):
    h = hashlib.sha256(repr((seed,) + salt).encode()).digest()
    return random.Random(int.from_bytes(h[:8], "big"))


def np_rng_for(seed, *salt):
    import numpy as np
    h = hashlib.sha256(repr((seed,) + salt).encode()).digest()
    return np.random.default_rng(int.from_bytes(h[:8], "big"))


def guarded(rec, key, case, fn, *a, **kw):
    """Run fn; an unexpected exception of the *harness or of typhon* is a
    violation with the given key unless the caller handles it itself."""
    try:
        return True, fn(*a, **kw)
    except Exception as exc:  # noqa
        rec.violation(key, case, {"exception": repr(exc),
                                  "trace": traceback.format_exc()[-1500:]})
        return False, None


def scratch_dir(tag="vt"):
    """Scratch space outside /repo and /verif; caller removes it."""
    import tempfile
    base = os.environ.get("VT_SCRATCH") or tempfile.gettempdir()
    return tempfile.mkdtemp(prefix="%s-" % tag, dir=base)
