"""Reference model for C20: the SRTM30 global grid in integer / rational arithmetic.

Nothing in here imports typhon.

Global grid (SRTM30 documentation: 30 arc seconds = 1/120 degree, 27 tiles of 6000 rows x
4800 columns, rows from north to south, columns from west to east, 16 bit big-endian):

  row k    (k = 0 .. 17999)  covers latitudes   [90 - (k+1)/120, 90 - k/120], centre 90 - (k+.5)/120
  column j (j = 0 .. 43199)  covers longitudes  [-180 + j/120, -180 + (j+1)/120], centre -180 + (j+.5)/120

Synthetic content of pixel (k, j):  v(k, j) = (7919 k + 39193 j) mod 65536 - 32768,
so neighbouring pixels, neighbouring tiles and transposed indices all differ.
"""
from fractions import Fraction as F
import math

import numpy as np

CELLS_PER_DEG = 120
N_ROWS = 150 * CELLS_PER_DEG        # 90 N .. 60 S
N_COLS = 360 * CELLS_PER_DEG
TILE_ROWS = 6000
TILE_COLS = 4800
A_ROW = 7919
A_COL = 39193

# Band (in cells) inside which an edge of the rectangle counts as "on the grid line /
# tile border": the implementation forms (90 - lat) / dlat resp. (lon + 180) / dlon in
# double: one rounding of the sum (<= ulp(360)/2 = 2.8e-14 deg = 3.4e-12 cells), one of dlat
# (relative 1.1e-16 -> 43200 * 1.1e-16 = 4.8e-12 cells) and one of the quotient (4.8e-12
# cells); get_tiles additionally reduces longitudes modulo 360 (<= ulp(360) = 5.7e-14 deg).
# Sum < 2e-11 cells, rounded up to 1e-9 cells (DESIGN section 2 uses the same 1e-9).
BAND_CELLS = F(1, 10 ** 9)
BAND_DEG = BAND_CELLS / CELLS_PER_DEG
# A reported coordinate "is" a cell centre if it is within CENTRE_TOL degrees of it:
# forward error of 90 + dlat/2 - m*dlat resp. numpy.linspace, m <= 43200:
# m * dlat * 2^-53 + 3 ulp(180) < 1e-13 deg; 1e-9 deg = 1.2e-7 cell keeps the
# identification of the cell unambiguous.
CENTRE_TOL = 1e-9


def tile_table():
    """[(name, lat_min, lon_min, lat_max, lon_max)] derived from the naming scheme of the
    data set (west edge and north edge of the tile), not copied from typhon."""
    out = []
    for lat_max in (90, 40, -10):
        for lon_min in range(-180, 180, 40):
            name = "%s%03d%s%02d" % ("w" if lon_min < 0 else "e", abs(lon_min),
                                     "n" if lat_max >= 0 else "s", abs(lat_max))
            out.append((name, lat_max - 50, lon_min, lat_max, lon_min + 40))
    return out


TILES = tile_table()
TILE_BY_NAME = {t[0]: t for t in TILES}


def tile_origin(name):
    """global (row, column) of the tile's north-west pixel."""
    _, lat_min, lon_min, lat_max, lon_max = TILE_BY_NAME[name]
    return (90 - lat_max) * CELLS_PER_DEG, (lon_min + 180) * CELLS_PER_DEG


def synth_block(k0, j0, nrows, ncols):
    """int64 array of v(k, j) for k0 <= k < k0+nrows, j0 <= j < j0+ncols."""
    k = np.arange(k0, k0 + nrows, dtype=np.int64)[:, None]
    j = np.arange(j0, j0 + ncols, dtype=np.int64)[None, :]
    return (A_ROW * k + A_COL * j) % 65536 - 32768


def synth_tile(name, out=None):
    """The whole synthetic tile as int16 (6000, 4800) using one 57.6 MB buffer: the sum of
    the row and column terms wraps modulo 2**16 in uint16 arithmetic; x - 32768 is
    x XOR 0x8000 reinterpreted as int16.  `out`: uint16 buffer to overwrite."""
    k0, j0 = tile_origin(name)
    a = ((A_ROW * np.arange(k0, k0 + TILE_ROWS, dtype=np.int64)) % 65536).astype(np.uint16)
    b = ((A_COL * np.arange(j0, j0 + TILE_COLS, dtype=np.int64)) % 65536).astype(np.uint16)
    buf = np.empty((TILE_ROWS, TILE_COLS), dtype=np.uint16) if out is None else out
    np.add(a[:, None], b[None, :], out=buf)
    np.bitwise_xor(buf, np.uint16(0x8000), out=buf)
    return buf.view(np.int16)


class TileLRU:
    """At most `size` synthetic tiles alive (57.6 MB each).  With size == 1 a single buffer
    is overwritten in place, so that a caller which still holds the previous tile while it
    asks for the next one (the loop in SRTM30.elevation does) keeps one tile alive, not two.
    An implementation that fetched all tiles before using them would need size > 1."""

    def __init__(self, size=2):
        self.size = size
        self.names = []
        self.tiles = {}
        self.made = 0
        self.requests = []
        self._buf = None

    def get(self, name):
        self.requests.append(name)
        if self.size == 1:
            if self.names != [name]:
                if self._buf is None:
                    self._buf = np.empty((TILE_ROWS, TILE_COLS), dtype=np.uint16)
                synth_tile(name, out=self._buf)
                self.names = [name]
                self.made += 1
            v = self._buf.view(np.int16)
            v.setflags(write=False)
            return v
        if name in self.tiles:
            self.names.remove(name)
            self.names.append(name)
            return self.tiles[name]
        while len(self.names) >= self.size:
            old = self.names.pop(0)
            del self.tiles[old]
        t = synth_tile(name)
        t.setflags(write=False)
        self.tiles[name] = t
        self.names.append(name)
        self.made += 1
        return t


# --- rectangle -> expected block ---------------------------------------------------------
def fr(x):
    return F(x) if not isinstance(x, F) else x


def edge_cells(rect):
    """Exact positions of the four edges in cell units:
    T (top, from 90 N downwards), B (bottom), L (left, from 180 W), R (right)."""
    lat_min, lon_min, lat_max, lon_max = [fr(float(v)) for v in rect]
    return ((90 - lat_max) * CELLS_PER_DEG, (90 - lat_min) * CELLS_PER_DEG,
            (lon_min + 180) * CELLS_PER_DEG, (lon_max + 180) * CELLS_PER_DEG)


def expected_block(rect):
    """(k_top, k_bot, j_left, j_right) inclusive: the cells that intersect the rectangle's
    interior (exact rational arithmetic on the doubles as passed)."""
    T, B, L, R = edge_cells(rect)
    return (math.floor(T), math.ceil(B) - 1, math.floor(L), math.ceil(R) - 1)


def aligned(x):
    """distance (in cells, Fraction) of an edge position to the nearest grid line."""
    return abs(x - round(x))


def identify_centres(vec, kind):
    """vec: reported coordinate vector.  Returns (first_index, None) if the entries are the
    centres of consecutive rows (kind='lat', descending) / columns (kind='lon', ascending),
    else (None, reason)."""
    v = np.asarray(vec, dtype=np.float64)
    if v.ndim != 1:
        return None, "not one-dimensional: shape %r" % (v.shape,)
    if v.size == 0:
        return None, "empty"
    if not np.all(np.isfinite(v)):
        return None, "non-finite coordinate"
    if kind == "lat":
        idx = (90.0 - v) * CELLS_PER_DEG - 0.5
    else:
        idx = (v + 180.0) * CELLS_PER_DEG - 0.5
    first = int(round(float(idx[0])))
    want_idx = first + np.arange(v.size)
    if kind == "lat":
        want = np.array([float(90 - F(2 * int(k) + 1, 2 * CELLS_PER_DEG)) for k in want_idx]) \
            if v.size <= 64 else 90.0 - (want_idx + 0.5) / CELLS_PER_DEG
    else:
        want = np.array([float(-180 + F(2 * int(k) + 1, 2 * CELLS_PER_DEG)) for k in want_idx]) \
            if v.size <= 64 else -180.0 + (want_idx + 0.5) / CELLS_PER_DEG
    err = np.abs(v - want)
    bad = np.nonzero(err > CENTRE_TOL)[0]
    if bad.size:
        i = int(bad[0])
        return None, ("entry %d = %r is not the centre %r of %s %d (consecutive from entry 0)"
                      % (i, float(v[i]), float(want[i]), "row" if kind == "lat" else "column",
                         int(want_idx[i])))
    return first, None


def judge_extent(first, count, lo_edge, hi_edge):
    """Block cells first .. first+count-1 against the rectangle edges lo_edge <= hi_edge given
    in cell units from the origin of that axis (exact Fractions).  The block must cover
    [lo_edge, hi_edge] and extend beyond it by less than one cell on each side.  An edge that
    lies exactly on a grid line (integral position: exactly representable input, for which
    the quotient is exact in double as well) is decided strictly; any other edge gets
    BAND_CELLS of slack either way.  Returns list of complaints."""
    out = []
    blk_lo = F(first)
    blk_hi = F(first + count)
    ext_lo = lo_edge - blk_lo          # how far the block starts before the rectangle
    ext_hi = blk_hi - hi_edge
    band_lo = 0 if lo_edge.denominator == 1 else BAND_CELLS
    band_hi = 0 if hi_edge.denominator == 1 else BAND_CELLS
    if ext_lo < -band_lo:
        out.append(("not-covered-low", float(-ext_lo)))
    if ext_lo >= 1 + band_lo:
        out.append(("overshoot-low", float(ext_lo)))
    if ext_hi < -band_hi:
        out.append(("not-covered-high", float(-ext_hi)))
    if ext_hi >= 1 + band_hi:
        out.append(("overshoot-high", float(ext_hi)))
    return out


def _axis_overlap(lo, hi, tlo, thi):
    """'yes' / 'no' / 'maybe' for the open overlap of (lo, hi) with the tile side (tlo, thi).
    Exact touching (overlap of length 0) is a strict 'no': tile borders are integers, which
    pass unchanged through the implementation's modulo; an overlap or gap shorter than the
    band - an edge near but not on the border - is a don't-care."""
    length = min(hi, thi) - max(lo, tlo)
    if length >= BAND_DEG:
        return "yes"
    if length == 0 or length <= -BAND_DEG:
        return "no"
    return "maybe"


def expected_tiles(rect):
    """(must, may) sets of tile names: tiles whose open area intersects the rectangle's
    interior."""
    lat_min, lon_min, lat_max, lon_max = [fr(float(v)) for v in rect]
    must, may = set(), set()
    for name, tla0, tlo0, tla1, tlo1 in TILES:
        a = _axis_overlap(lat_min, lat_max, tla0, tla1)
        o = _axis_overlap(lon_min, lon_max, tlo0, tlo1)
        if a == "yes" and o == "yes":
            must.add(name)
        elif a != "no" and o != "no":
            may.add(name)
    return must, may


def tile_grids(name):
    """Exact cell centres of a tile as float arrays (lat descending, lon ascending)."""
    k0, j0 = tile_origin(name)
    lat = 90.0 - (np.arange(k0, k0 + TILE_ROWS) + 0.5) / CELLS_PER_DEG
    lon = -180.0 + (np.arange(j0, j0 + TILE_COLS) + 0.5) / CELLS_PER_DEG
    return lat, lon
