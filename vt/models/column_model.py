"""Reference model for C14 (no typhon import).

* exact integral of the piecewise-linear interpolant of float data (integer arithmetic on
  the binary expansions, i.e. exact rational arithmetic) and the quantity the forward error
  bound is measured against (sum of the absolute layer contributions),
* the ISA table and its linear interpolation in height / log-pressure (longdouble),
* the analytic moist column used for the IWV convergence relation: smooth T(s), x(s) in
  s = ln(p_surface / p); hydrostatic height z(s) of the *moist* air by Gauss-Legendre
  quadrature, and the true IWV = -1/g int q dp by the same quadrature.
"""
import math
from fractions import Fraction

import numpy as np

LD = np.longdouble
U = 2.0 ** -53
TINY = 2.0 ** -1074


def gamma(k, u=U):
    return k * u / (1.0 - k * u)


# ---------------------------------------------------------------------------------------
# exact trapezoid
# ---------------------------------------------------------------------------------------
def _scaled(vals):
    """floats/ints -> (list of ints, K) with value = int / 2**K exactly."""
    pairs = []
    K = 0
    for v in vals:
        if isinstance(v, (int, np.integer)):
            n, d = int(v), 1
        else:
            n, d = float(v).as_integer_ratio()
        k = d.bit_length() - 1
        pairs.append((n, k))
        if k > K:
            K = k
    return [n << (K - k) for n, k in pairs], K


def exact_lane(y, x=None):
    """Exact integral of the piecewise-linear interpolant through (x_i, y_i).

    Returns (I, A) as Fractions: I = sum_i (x_{i+1}-x_i)(y_{i+1}+y_i)/2 and
    A = sum_i |x_{i+1}-x_i| |y_{i+1}+y_i| / 2.  x=None means unit spacing.
    """
    yi, Ky = _scaled(y)
    n = len(yi)
    if x is None:
        xi, Kx = list(range(n)), 0
    else:
        xi, Kx = _scaled(x)
    tot = 0
    tot_abs = 0
    for i in range(n - 1):
        t = (xi[i + 1] - xi[i]) * (yi[i + 1] + yi[i])
        tot += t
        tot_abs += abs(t)
    den = 1 << (Kx + Ky + 1)
    return Fraction(tot, den), Fraction(tot_abs, den)


def lane_bound(n, A, u=U):
    """|computed - exact| for any order of summation of the n-1 layer terms, each formed
    with three roundings (difference, sum, product; the halving is exact):
    gamma_{n+2} * A, plus one denormal quantum per term for underflowing products."""
    return gamma(n + 2, u) * float(A) * (1 + 2.0 ** -20) + n * TINY


def lanes(arr, axis):
    """All 1-d lanes of arr along axis as a 2-d array (lane index follows C order of the
    remaining axes, which is also the order of the flattened result)."""
    a = np.asarray(arr)
    return np.moveaxis(a, axis, -1).reshape(-1, a.shape[axis])


# ---------------------------------------------------------------------------------------
# International Standard Atmosphere table (geopotential height, pressure, temperature)
# ---------------------------------------------------------------------------------------
ISA_H = [-610.0, 11000.0, 20000.0, 32000.0, 47000.0, 51000.0, 71000.0, 84852.0]
ISA_P = [108900.0, 22632.0, 5474.9, 868.02, 110.91, 66.939, 3.9564, 0.3734]
ISA_T = [19.0 + 273.15, -56.5 + 273.15, -56.5 + 273.15, -44.5 + 273.15, -2.5 + 273.15,
         -2.5 + 273.15, -58.5 + 273.15, -86.28 + 273.15]


def _interp_ld(xk, yk, x):
    """piecewise linear with linear extrapolation, longdouble; xk ascending."""
    xk = np.asarray(xk, dtype=LD)
    yk = np.asarray(yk, dtype=LD)
    x = np.asarray(x, dtype=LD)
    i = np.clip(np.searchsorted(xk, x, side="right") - 1, 0, len(xk) - 2)
    slope = (yk[i + 1] - yk[i]) / (xk[i + 1] - xk[i])
    return yk[i] + slope * (x - xk[i]), np.abs(slope), np.abs(x - xk[i])


def isa_height(z):
    return _interp_ld(ISA_H, ISA_T, z)


def isa_pressure(p):
    lp = np.log(np.asarray(ISA_P, dtype=LD))[::-1]
    t = np.asarray(ISA_T, dtype=LD)[::-1]
    return _interp_ld(lp, t, np.log(np.asarray(p, dtype=LD)))


# ---------------------------------------------------------------------------------------
# analytic moist column
# ---------------------------------------------------------------------------------------
_GL_X, _GL_W = np.polynomial.legendre.leggauss(10)


class MoistColumn:
    """T(s) = T0 - lapse*s + dT*sin(k s),  x(s) = x0 * exp(-c s) * (1 + a cos(m s)),
    s = ln(p_s / p) in [0, s_top]."""

    def __init__(self, par, R, g, Mw, Md):
        self.par = par
        self.R, self.g, self.Mw, self.Md = R, g, Mw, Md

    def T(self, s):
        q = self.par
        return q["T0"] - q["lapse"] * s + q["dT"] * np.sin(q["k"] * s)

    def x(self, s):
        q = self.par
        return q["x0"] * np.exp(-q["c"] * s) * (1 + q["a"] * np.cos(q["m"] * s))

    def M(self, s):
        x = self.x(s)
        return (1 - x) * self.Md + x * self.Mw

    def q(self, s):
        x = self.x(s)
        return x * self.Mw / ((1 - x) * self.Md + x * self.Mw)

    def _cum_gl(self, f, s_nodes):
        """cumulative integral of f over the nodes (10-point Gauss-Legendre per cell)."""
        s_nodes = np.asarray(s_nodes, dtype=float)
        a = s_nodes[:-1]
        b = s_nodes[1:]
        half = 0.5 * (b - a)
        mid = 0.5 * (b + a)
        pts = mid[:, None] + half[:, None] * _GL_X[None, :]
        cell = (f(pts) * _GL_W[None, :]).sum(axis=1) * half
        return np.concatenate([[0.0], np.cumsum(cell)])

    def heights(self, s_nodes):
        """dz = R T / (g M) ds."""
        return self._cum_gl(lambda s: self.R * self.T(s) / (self.g * self.M(s)), s_nodes)

    def iwv_true(self, s_nodes):
        """-1/g int q dp = p_s/g int q(s) exp(-s) ds."""
        ps = self.par["ps"]
        return self._cum_gl(lambda s: ps / self.g * self.q(s) * np.exp(-s), s_nodes)[-1]

    def pressure(self, s_nodes):
        return self.par["ps"] * np.exp(-np.asarray(s_nodes, dtype=float))


def layer_logs(p):
    """ln(p_i / p_{i+1}) in longdouble; log1p of the exactly representable difference keeps
    full relative accuracy for neighbouring levels."""
    p = np.asarray(p, dtype=LD)
    return np.log1p((p[:-1] - p[1:]) / p[1:])


def tanh_layer_sum(p):
    """(sum ln(p_i/p_{i+1}), sum ln^3 / 12) in longdouble for a decreasing pressure grid."""
    L = layer_logs(p)
    return np.concatenate([[LD(0)], np.cumsum(L)]), np.concatenate([[LD(0)], np.cumsum(L ** 3 / 12)])


def ulp(v):
    v = abs(float(v))
    return math.ulp(v) if v > 0 else TINY
