"""Independent model of typhon's path-template language (no typhon import).

render(template, s, e, fill)       -> the name the documentation promises
expected_times(template, s, e, tc) -> the (start, end) a reader of that name must report
"""
import datetime as dt
import re

START_FIELDS = ["year", "year2", "month", "day", "doy", "hour", "minute", "second",
                "millisecond"]
END_FIELDS = ["end_" + f for f in START_FIELDS]
TIME_FIELDS = set(START_FIELDS + END_FIELDS)
PLACEHOLDER = re.compile(r"{(\w+)}")


def doy(t):
    return t.toordinal() - dt.date(t.year, 1, 1).toordinal() + 1


def field(name, t):
    if name == "year":
        return "%04d" % t.year
    if name == "year2":
        return "%02d" % (t.year % 100)
    if name == "month":
        return "%02d" % t.month
    if name == "day":
        return "%02d" % t.day
    if name == "doy":
        return "%03d" % doy(t)
    if name == "hour":
        return "%02d" % t.hour
    if name == "minute":
        return "%02d" % t.minute
    if name == "second":
        return "%02d" % t.second
    if name == "millisecond":
        return "%03d" % (t.microsecond // 1000)
    raise KeyError(name)


def placeholders(template):
    return PLACEHOLDER.findall(template)


def render(template, s, e, fill=None):
    fill = fill or {}

    def sub(m):
        name = m.group(1)
        if name in fill:
            return str(fill[name])
        if name.startswith("end_") and name in TIME_FIELDS:
            return field(name[4:], e)
        if name in TIME_FIELDS:
            return field(name, s)
        raise KeyError(name)
    return PLACEHOLDER.sub(sub, template)


def rendered_strings(template, s, e, fill=None):
    """placeholder -> the string written for it (what parse_filename must return)."""
    out = {}
    fill = fill or {}
    for name in placeholders(template):
        if name in fill:
            out[name] = str(fill[name])
        elif name.startswith("end_") and name in TIME_FIELDS:
            out[name] = field(name[4:], e)
        else:
            out[name] = field(name, s)
    return out


RESOLUTION_ORDER = ["year", "month", "day", "hour", "minute", "second", "millisecond"]


def canon(name):
    if name == "year2":
        return "year"
    if name == "doy":
        return "day"
    return name


def start_resolution(template):
    """Finest start field spelled by the template (canonical name) or None."""
    names = {canon(p) for p in placeholders(template) if p in START_FIELDS}
    if "day" in names:
        names.add("month")
    fin = None
    for r in RESOLUTION_ORDER:
        if r in names:
            fin = r
    return fin, names


def end_fields(template):
    names = {canon(p[4:]) for p in placeholders(template) if p in END_FIELDS}
    raw = {p[4:] for p in placeholders(template) if p in END_FIELDS}
    if "doy" in raw:
        names.add("month")
    return names


def truncate(t, res):
    if res == "year":
        return t.replace(month=1, day=1, hour=0, minute=0, second=0, microsecond=0)
    if res == "month":
        return t.replace(day=1, hour=0, minute=0, second=0, microsecond=0)
    if res == "day":
        return t.replace(hour=0, minute=0, second=0, microsecond=0)
    if res == "hour":
        return t.replace(minute=0, second=0, microsecond=0)
    if res == "minute":
        return t.replace(second=0, microsecond=0)
    if res == "second":
        return t.replace(microsecond=0)
    if res == "millisecond":
        return t.replace(microsecond=t.microsecond // 1000 * 1000)
    return t


def end_as_complete_as_start(template):
    """True when every start field (canonical) also appears as an end field."""
    _, snames = start_resolution(template)
    enames = end_fields(template)
    return bool(snames) and snames <= enames


def leading_end_field(template):
    enames = end_fields(template)
    for r in RESOLUTION_ORDER:
        if r in enames:
            return r
    return None


SUPERIOR = {"hour": dt.timedelta(days=1), "minute": dt.timedelta(hours=1),
            "second": dt.timedelta(minutes=1)}


def expected_end(template, s, e):
    """End time a parser must report for a name rendered from (s, e); None when the
    statement makes no claim for this template/period combination.

    Statement: complete end -> e.  End led by hour/minute/second: the missing (coarser)
    fields come from the start, and the end moves by one unit of the next coarser field
    when it would otherwise precede the start."""
    enames = end_fields(template)
    if not enames:
        return "none"
    fin, snames = start_resolution(template)
    if end_as_complete_as_start(template):
        return e
    lead = leading_end_field(template)
    if lead not in SUPERIOR:
        return None
    # fields given for the end must be contiguous from lead down to the start's finest
    idx = RESOLUTION_ORDER.index(lead)
    fin_idx = RESOLUTION_ORDER.index(fin)
    # ... or stop above it: "takes the missing fields from the start" holds for the finer ones as well
    if not any(enames == set(RESOLUTION_ORDER[idx:j + 1]) for j in range(idx, fin_idx + 1)):
        return None
    # compose: coarse fields from the start, fine ones from e
    kw = {}
    for r in RESOLUTION_ORDER[:idx]:
        kw[r] = getattr(s, r if r != "millisecond" else "microsecond")
    cand = s.replace(hour=e.hour if "hour" in enames else s.hour,
                     minute=e.minute if "minute" in enames else s.minute,
                     second=e.second if "second" in enames else s.second,
                     microsecond=(e.microsecond // 1000 * 1000) if "millisecond" in enames
                     else (s.microsecond if fin == "millisecond" else 0))
    if cand < s:
        cand = cand + SUPERIOR[lead]
    return cand


WIDTH = {"year": 4, "year2": 2, "month": 2, "day": 2, "doy": 3, "hour": 2, "minute": 2,
         "second": 2, "millisecond": 3}


def model_regex(template, users=None):
    """Independent reading of 'a name matches the template': literals are literal (the
    asterisk is the documented wildcard), temporal fields are fixed-width digits, user
    placeholders match their regex / one of their values / anything non-empty."""
    users = users or {}
    out, pos = "", 0
    for m in PLACEHOLDER.finditer(template):
        lit = template[pos:m.start()]
        out += ".*?".join(re.escape(part) for part in lit.split("*"))
        name = m.group(1)
        base = name[4:] if name.startswith("end_") else name
        if name in TIME_FIELDS:
            out += r"\d{%d}" % WIDTH[base]
        else:
            rx = users.get(name)
            if rx is None:
                out += "(?:.+?)"
            elif isinstance(rx, (list, tuple)):
                out += "(?:" + "|".join(rx) + ")"
            else:
                out += "(?:" + rx + ")"
        pos = m.end()
    lit = template[pos:]
    out += ".*?".join(re.escape(part) for part in lit.split("*"))
    return re.compile(out)
