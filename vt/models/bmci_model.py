"""Reference model for C18 (BMCI).  No typhon imports.

Everything is evaluated over the *whole* database in numpy.longdouble; the inverse covariance
comes from an explicit longdouble Cholesky factorisation (vt.models.oem_model).
"""
import numpy as np

from vt.models.oem_model import LD, EPS, chol, solve_lower, spd_inv, cond_spd

# exp() of binary64: results below exp(-745.14) are 0, below exp(-708.39) subnormal
UNDERFLOW_ZERO = 745.14
UNDERFLOW_SUBNORMAL = 708.39


class Ref:
    def __init__(self, y, x, s_o):
        self.y = np.asarray(y, dtype=LD)
        self.x = np.asarray(x, dtype=LD)
        self.n, self.m = self.y.shape
        self.L = chol(s_o)
        self.s_inv = spd_inv(s_o)
        self.kappa, self.lmin, self.lmax = cond_spd(s_o)
        self.abs_s_inv = np.abs(self.s_inv)
        self.xmin = float(self.x.min())
        self.xmax = float(self.x.max())

    def chi2(self, y_obs, rows=None):
        """chi-square of every entry: |L^-1 (y_i - y_obs)|^2 (no cancellation)."""
        yy = self.y if rows is None else self.y[rows]
        dy = (yy - np.asarray(y_obs, dtype=LD).reshape(1, -1))
        z = solve_lower(self.L, dy.T)
        return (z * z).sum(axis=0), dy

    def exponent_error(self, dy, c=4.0):
        """Bound of the error of a binary64 evaluation of chi2/2 that uses a binary64 inverse of
        S: normwise error of the inverse c*m*eps*kappa*|S^-1|, plus the rounding of the two
        products (m+2)*eps*|dy|^T |S^-1| |dy|."""
        n2 = (dy * dy).sum(axis=1)
        inv_err = c * self.m * EPS * self.kappa / self.lmin * n2
        prod_err = (self.m + 2) * EPS * ((np.abs(dy) @ self.abs_s_inv) * np.abs(dy)).sum(axis=1)
        return 0.5 * (inv_err + prod_err), 0.5 * prod_err

    def stats(self, chi2, x=None, mask=None):
        """Weighted mean / variance with weights exp(-chi2/2), shifted by the smallest exponent
        so that nothing underflows in the oracle."""
        x = self.x if x is None else x
        if mask is not None:
            chi2, x = chi2[mask], x[mask]
        if chi2.size == 0:
            return None
        e = -chi2 / LD(2)
        e0 = e.max()
        w = np.exp(e - e0)
        W = w.sum()
        mean = (w * x).sum() / W
        var = (w * (x - mean) ** 2).sum() / W
        return {"mean": mean, "var": var, "std": np.sqrt(var), "w": w, "W": W, "e0": e0,
                "mad": (w * np.abs(x - mean)).sum() / W,
                "absx": (w * np.abs(x)).sum() / W}


def perturbation_bounds(st, x, delta, n):
    """How far mean and variance of the weighted distribution can move when every weight is
    multiplied by a factor in [exp(-delta_i), exp(delta_i)], plus the rounding of the sums
    (n+5)*eps*sum(w|x|)/sum(w).  Returns (bound_mean, bound_var, relative weight bound)."""
    w, W, mean = st["w"], st["W"], st["mean"]
    d = np.minimum(delta, LD(50))
    up = np.expm1(d)                       # e^d - 1 >= 1 - e^-d
    lowW = (w * np.exp(-d)).sum()
    rel = float((w * up).sum() / lowW)
    dev = np.abs(x - mean)
    bm = float((w * up * dev).sum() / lowW) * 2
    R2 = dev ** 2
    bv = float((w * up * R2).sum() / lowW) * 2 + 2 * bm * float(st["mad"]) + bm * bm
    sm = (n + 5) * EPS * float(st["absx"])
    # the variance is taken about the *computed* mean (off by <= sm) from differences x_i - mean
    # that carry one rounding of size eps*(|x_i| + |mean|) each
    dm = sm + 2 * EPS * float(st["absx"])
    sv = (n + 5) * EPS * float(st["var"]) + dm * dm + 2 * dm * float(st["mad"])
    return bm + sm, bv + sv, rel


def cdf_at(st_w, x, W, q, strict):
    """P(x < q) (strict) or P(x <= q) of the weighted distribution."""
    m = (x < q) if strict else (x <= q)
    return float(st_w[m].sum() / W)
