"""Reference model for C08 (Planck / brightness temperature / spectral units / Snell / Fresnel).

numpy.longdouble closed forms in the expm1 / log1p formulation (they do not share the
cancellation of the implementation's exp(x) - 1 and log(y + 1)) and the forward-error bounds of
the *documented* float64 formulae.  No typhon import: the constants c, h, k are handed in by the
caller (taken from typhon.constants, as the statement refers to them).

Error model (u = 2^-53; every bound below is in relative terms unless said otherwise)
  * + - * / sqrt and x**2 round correctly: 1u per operation
  * exp, log, pow(x, 3|5), sin, cos, asin are assumed accurate to 2 ulp = 4u
  * E = fl(exp(xh) - 1) with xh = x(1 + a u) (a rounded operations formed the argument):
        exp(xh) = exp(x)(1 + a u x),  so  |E/expm1(x) - 1| <= g(x) (a x + 4) u + u,
        g(x) = exp(x)/expm1(x) = 1/(1 - exp(-x))   (~1/x for small x, ~1 for large x).
    This is the k * ulp * max(1, 1/x) bound of the design with the factor a*x of the rounded
    argument made explicit (it matters at x ~ 600).
"""
import numpy as np

LD = np.longdouble
U = LD(2.0 ** -53)
PI = LD(4) * np.arctan(LD(1))
D2R = PI / LD(180)
R2D = LD(180) / PI
FN = 4          # u per elementary function call (2 ulp)


def ld(x):
    return np.asarray(x, dtype=LD)


class Consts:
    def __init__(self, c, h, k):
        self.c, self.h, self.k = LD(c), LD(h), LD(k)


# --------------------------------------------------------------------------------------
# radiation laws
# --------------------------------------------------------------------------------------
def xval(C, f, T):
    return C.h * ld(f) / (C.k * ld(T))


def planck(C, f, T):
    f = ld(f)
    return 2 * C.h * f ** 3 / C.c ** 2 / np.expm1(xval(C, f, T))


def planck_wavelength(C, l, T):
    l = ld(l)
    return 2 * C.h * C.c ** 2 / l ** 5 / np.expm1(C.h * C.c / (l * C.k * ld(T)))


def planck_wavenumber(C, n, T):
    n = ld(n)
    return 2 * C.h * C.c ** 2 * n ** 3 / np.expm1(C.h * C.c * n / (C.k * ld(T)))


def rayleighjeans(C, f, T):
    return 2 * ld(f) ** 2 * C.k * ld(T) / C.c ** 2


def planck_tb(C, f, r):
    f = ld(f)
    return C.h * f / C.k / np.log1p(2 * C.h * f ** 3 / (C.c ** 2 * ld(r)))


def rj_tb(C, f, r):
    return C.c ** 2 * ld(r) / (2 * ld(f) ** 2 * C.k)


def g(x):
    """exp(x)/expm1(x)"""
    return -1 / np.expm1(-ld(x))


def rel_expm1(x, arg_ops):
    x = ld(x)
    return g(x) * (arg_ops * x + FN) * U + U


def rel_planck(x):
    """2*h*f**3 / (c**2 * (exp(h*f/(k*T)) - 1)): argument h*f, k*T, / = 3 operations;
    f**3 (4u), 2h*f**3 (1u), c**2 (1u), c**2*E (1u), division (1u) = 8u."""
    return rel_expm1(x, 3) + 8 * U


def rel_planck_wavelength(x):
    """2*h*c**2 / (l**5 * (exp(h*c/(l*k*T)) - 1)): argument h*c, l*k, *T, / = 4 operations;
    c**2, 2h*c**2, l**5 (4u), l**5*E, division = 8u."""
    return rel_expm1(x, 4) + 8 * U


def rel_planck_wavenumber(x):
    """2*h*c**2*n**3 / (exp(h*c*n/(k*T)) - 1): argument h*c, *n, k*T, / = 4 operations;
    c**2, 2h*c**2, n**3 (4u), product, division = 8u."""
    return rel_expm1(x, 4) + 8 * U


REL_RJ = 5 * U        # 2 * f**2 * k * T / c**2 : f**2, *k, *T, c**2, /  (2* is exact)
REL_RJ_TB = 5 * U     # c**2 / (2 * f**2 * k) * r : c**2, f**2, *k, /, *r


def rel_planck_tb(x, rel_r):
    """h/k*f / log((2h/c**2)*f**3/r + 1) for a radiance r known to rel_r.
    y = (2h/c**2) f**3 / r : c**2, /, f**3 (4u), *, / = 8u, so yh = y (1 + eta), eta = 8u + rel_r.
    fl(yh + 1) adds u (relative to 1 + y), log adds 4u relative to its value x = log(1 + y):
        L = x + y/(1+y) eta + u   ->   rel(L) = (1 - exp(-x))/x eta + u/x + 4u
    h/k, *f and the final division add 3u."""
    x = ld(x)
    eta = 8 * U + rel_r
    return -np.expm1(-x) / x * eta + U / x + (FN + 3) * U


def dlnB_dlnlam(x):
    """|d ln B_lambda / d ln lambda| = |x g(x) - 5| <= 5 + x g(x)  (used for l = fl(c/f))"""
    return 5 + ld(x) * g(x)


def dlnB_dlnnu(x):
    """|d ln B_nu~ / d ln nu~| = |3 - x g(x)| <= 3 + x g(x)  (used for n = fl(f/c))"""
    return 3 + ld(x) * g(x)


# --------------------------------------------------------------------------------------
# Snell / Fresnel
# --------------------------------------------------------------------------------------
def snell_real(n1, n2, theta1):
    """returns (s = n1 sin(theta1)/n2, band): total reflection iff s > 1; inside |s - 1| <= band the
    float64 evaluation may fall on either side (sh = s(1 + 3u) + (n1/n2) pi u: sin of a converted
    angle, one product, one division)."""
    n1, n2 = ld(n1), ld(n2)
    s = n1 * np.sin(ld(theta1) * D2R) / n2
    band = (4 + 4 * n1 / n2) * U
    return s, band


def snell_real_tol(n1, n2, theta1):
    """|n2 sin(theta2) - n1 sin(theta1)| with theta2 = rad2deg(asin(sh)): n2 sh differs from
    n1 sin(theta1) by 3u n1 s1 + pi u n1; asin (4u) and rad2deg (2u, pi/180 included) perturb the angle
    relatively, i.e. sin(theta2) by <= theta cos(theta) 6u <= 3.4u."""
    n1, n2 = ld(n1), ld(n2)
    return U * (3 * n1 * np.abs(np.sin(ld(theta1) * D2R)) + 3.2 * n1 + 3.4 * n2) + 2 * U * np.maximum(n1, n2)


def liou_index(n1, n2, theta1):
    """Effective real index of Liou (1980, 5.4.1.3): sin(theta2) = sin(theta1) / Nr.
    Returns Nr and kappa = 2 (mr^2 + mi^2 + s^2 + S)/(A + S), the amplification of the
    cancellation in A + S (A may be negative when mi > mr)."""
    n1 = ld(n1)
    mr = ld(np.real(n2)) / n1
    mi = ld(np.imag(n2)) / n1
    s2 = np.sin(ld(theta1) * D2R) ** 2
    a = mr * mr - mi * mi + s2
    big = np.sqrt((mr * mr - mi * mi - s2) ** 2 + 4 * mr * mr * mi * mi)
    nr2 = (a + big) / 2
    kappa = 2 * (mr * mr + mi * mi + s2 + big) / (a + big)
    return np.sqrt(nr2), kappa


def snell_complex_tol(nr, kappa, theta1):
    """|Nr sin(theta2) - sin(theta1)|: Nr carries u (kappa + 2) relative (squares/quotients 2u each,
    sums weighted by kappa, root), the quotient sin1/Nr 2u more, sin1 itself pi u absolute,
    asin/rad2deg <= 3.4u on sin(theta2); factor 2 for the uncounted second-order terms."""
    s1 = np.abs(np.sin(ld(theta1) * D2R))
    return 2 * U * (s1 * (kappa + 4) + 3.2 + 3.4 * nr)


def fresnel_ref(n1, n2, theta1):
    """Rv, Rh (real indices) in longdouble with the exact Snell angle."""
    n1, n2 = ld(n1), ld(n2)
    t1 = ld(theta1) * D2R
    c1 = np.cos(t1)
    c2 = np.sqrt(1 - (n1 * np.sin(t1) / n2) ** 2)
    return (n2 * c1 - n1 * c2) / (n2 * c1 + n1 * c2), (n1 * c1 - n2 * c2) / (n1 * c1 + n2 * c2)


def fresnel_rv_tol(n1, n2, theta1):
    """Absolute rounding bound of Rv = (a - b)/(a + b), a = n2 cos(theta1), b = n1 cos(theta2):
    cos(theta1): converted angle (2u theta sin theta) + 4u  -> da <= n2 10u
    theta2 = asin(sh)(1 + 6u), dsh <= (3 s + 3.2 n1/n2) u -> d cos(theta2) <= tan(theta2) dsh
             + 8u theta2 sin(theta2) + 4u  -> db <= n1 (tan(theta2)(3 s + 3.2 n1/n2) + 18) u
    d Rv <= 2 (da + db)/(a + b) + 4u."""
    n1, n2 = ld(n1), ld(n2)
    t1 = ld(theta1) * D2R
    s = n1 * np.sin(t1) / n2
    c2 = np.sqrt(1 - s * s)
    a, b = n2 * np.cos(t1), n1 * c2
    da = n2 * 10 * U
    db = n1 * (s / c2 * (3 * s + 3.2 * n1 / n2) + 18) * U
    return 2 * (da + db) / (a + b) + 4 * U
