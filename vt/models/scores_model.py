"""Reference model for C19 (retrieval scores).  No typhon imports.

All values are computed from the *float inputs as given* in numpy.longdouble (64 bit
mantissa) or, for counting decisions, in exact rational arithmetic.
"""
from fractions import Fraction

import numpy as np

LD = np.longdouble
EPS = float(np.finfo(np.float64).eps)


def pinball(y_tau, y_test, taus):
    """(n, k) pinball loss: tau*|d| where the estimate is below the observation,
    (1 - tau)*|d| where it is above, 0 where they coincide."""
    y_tau = np.asarray(y_tau, dtype=LD)
    y_test = np.asarray(y_test, dtype=LD).reshape(-1, 1)
    taus = np.asarray(taus, dtype=LD).reshape(1, -1)
    y_tau = y_tau.reshape(y_test.shape[0], taus.shape[1])
    d = y_tau - y_test
    out = np.zeros(d.shape, dtype=LD)
    below = d < 0
    above = d > 0
    tt = np.broadcast_to(taus, d.shape)
    out[below] = tt[below] * (-d[below])
    out[above] = (LD(1) - tt[above]) * d[above]
    return out


def is_tau_quantile(sample_sorted, c, tau):
    """Order-statistic definition, decided exactly:  #{y < c} <= tau*n <= #{y <= c}."""
    n = len(sample_sorted)
    lo = int(np.searchsorted(sample_sorted, c, side="left"))
    hi = int(np.searchsorted(sample_sorted, c, side="right"))
    tn = Fraction(float(tau)) * n
    return lo <= tn <= hi, lo, hi


def a_tau_quantile(sample_sorted, tau):
    """One tau-quantile of the sample (smallest order statistic y_(k) with k >= tau*n)."""
    n = len(sample_sorted)
    tn = Fraction(float(tau)) * n
    k = -((-tn.numerator) // tn.denominator)  # ceil
    k = min(max(k, 1), n)
    return sample_sorted[k - 1]


def mean_pinball_const(sample, c, tau):
    """Mean pinball loss of the constant estimate c, in longdouble (inputs exact)."""
    s = np.asarray(sample, dtype=LD)
    d = LD(c) - s
    t = LD(tau)
    return (np.where(d < 0, t * (-d), (LD(1) - t) * d)).sum() / LD(len(s))


def mape_ref(y_pred, y_test):
    p = np.asarray(y_pred, dtype=LD).ravel()
    t = np.asarray(y_test, dtype=LD).ravel()
    terms = LD(100) * np.abs(p - t) / np.abs(t)
    return terms.sum() / LD(len(t)), terms


def bias_ref(y_pred, y_test):
    p = np.asarray(y_pred, dtype=LD).ravel()
    t = np.asarray(y_test, dtype=LD).ravel()
    terms = LD(100) * (p - t) / t
    return terms.sum() / LD(len(t)), terms


def rel_tol_terms(y_pred, y_test, n):
    """Forward error bound of evaluating mean(100*(p-t)/t) (or its abs) in binary64 by *any*
    reasonable order of the operations: each term carries <= 3 roundings when evaluated as
    100*(p-t)/t but <= 3 roundings *of quantities of size 100*(|p|+|t|)/|t|* when evaluated
    as 100*p/t - 100; the (pairwise or sequential) sum adds (n-1) eps relative to sum|terms|.
    """
    p = np.asarray(y_pred, dtype=LD).ravel()
    t = np.asarray(y_test, dtype=LD).ravel()
    size = LD(100) * (np.abs(p) + np.abs(t)) / np.abs(t)
    mean_size = float(size.sum() / LD(len(t)))
    return (n + 6) * EPS * mean_size
