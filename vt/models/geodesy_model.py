"""Reference model for C07 (geodesy): textbook closed forms in numpy.longdouble.

Nothing here imports typhon.  Ellipsoids are passed in as (semi-major axis a, eccentricity e),
angles in degrees, lengths in metres.  Every function is vectorised and broadcasts.

Forward maps (the oracle)
    geodetic_to_ecef      prime-vertical radius form  N = a / sqrt(1 - e^2 sin^2 phi)
    spherical_to_ecef     r (cos lat cos lon, cos lat sin lon, sin lat)
    r_surface_geodetic    |P(phi)| on the ellipsoid from the semi-axes form (not typhon's e^2 form)
    r_surface_geocentric  a b / sqrt((b cos psi)^2 + (a sin psi)^2)
    los_vector            ENU line-of-sight unit vector in ECEF
    arc                   central angle, atan2 (Vincenty-sphere) form: accurate from 0 to pi

Inverse maps are *never* needed for a verdict (typhon's answer is pushed through the forward
map); ecef_to_geodetic is only used to classify the mechanism of a failure.

Rounding bounds (derivations in the doc-strings) for the float64 evaluation of the documented
haversine / 3-D chord formulae: arc_bound, chord_bound, acos_bound.
"""
import numpy as np

LD = np.longdouble
U = 2.0 ** -53                      # unit round-off of float64
PI = LD(4) * np.arctan(LD(1))
D2R = PI / LD(180)
R2D = LD(180) / PI


def ld(x):
    return np.asarray(x, dtype=LD)


# --------------------------------------------------------------------------------------
# forward maps
# --------------------------------------------------------------------------------------
def geodetic_to_ecef(a, e, h, lat, lon):
    a = LD(a)
    e2 = LD(e) * LD(e)
    h, lat, lon = ld(h), ld(lat), ld(lon)
    phi, lam = lat * D2R, lon * D2R
    s, c = np.sin(phi), np.cos(phi)
    n = a / np.sqrt(1 - e2 * s * s)
    x = (n + h) * c * np.cos(lam)
    y = (n + h) * c * np.sin(lam)
    z = (n * (1 - e2) + h) * s + 0 * lam
    return x, y, z


def spherical_to_ecef(r, lat, lon):
    r, lat, lon = ld(r), ld(lat), ld(lon)
    phi, lam = lat * D2R, lon * D2R
    c = np.cos(phi)
    return r * c * np.cos(lam), r * c * np.sin(lam), r * np.sin(phi) + 0 * lam


def r_surface_geodetic(a, e, lat):
    a = LD(a)
    b = a * np.sqrt(1 - LD(e) * LD(e))
    phi = ld(lat) * D2R
    s, c = np.sin(phi), np.cos(phi)
    return np.sqrt(((a * a * c) ** 2 + (b * b * s) ** 2) / ((a * c) ** 2 + (b * s) ** 2))


def r_surface_geocentric(a, e, latc):
    a = LD(a)
    b = a * np.sqrt(1 - LD(e) * LD(e))
    psi = ld(latc) * D2R
    return a * b / np.sqrt((b * np.cos(psi)) ** 2 + (a * np.sin(psi)) ** 2)


def los_vector(lat, lon, za, aa):
    """Unit LOS vector in ECEF for local zenith angle za and azimuth aa (0 = north, 90 = east)."""
    phi, lam, zr, ar = (ld(v) * D2R for v in (lat, lon, za, aa))
    sp, cp, sl, cl = np.sin(phi), np.cos(phi), np.sin(lam), np.cos(lam)
    up = (cp * cl, cp * sl, sp)
    north = (-sp * cl, -sp * sl, cp)
    east = (-sl, cl, 0 * sl)
    cz, sz, ca, sa = np.cos(zr), np.sin(zr), np.cos(ar), np.sin(ar)
    return tuple(cz * u + sz * (ca * n + sa * e_) for u, n, e_ in zip(up, north, east))


def dist3(p, q):
    return np.sqrt(sum((ld(a) - ld(b)) ** 2 for a, b in zip(p, q)))


def norm3(p):
    return np.sqrt(sum(ld(a) ** 2 for a in p))


def angle_diff(a, b):
    """|a - b| in degrees modulo 360 (so that -180 and +180 are the same meridian)."""
    d = np.abs(ld(a) - ld(b)) % LD(360)
    return np.minimum(d, LD(360) - d)


# --------------------------------------------------------------------------------------
# distances on the sphere
# --------------------------------------------------------------------------------------
def arc(lat1, lon1, lat2, lon2):
    """Central angle in radians (longdouble), atan2 form: well conditioned on [0, pi]."""
    p1, l1, p2, l2 = (ld(v) * D2R for v in (lat1, lon1, lat2, lon2))
    dl = l2 - l1
    s1, c1, s2, c2 = np.sin(p1), np.cos(p1), np.sin(p2), np.cos(p2)
    sdl, cdl = np.sin(dl), np.cos(dl)
    num = np.sqrt((c2 * sdl) ** 2 + (c1 * s2 - s1 * c2 * cdl) ** 2)
    den = s1 * s2 + c1 * c2 * cdl
    return np.arctan2(num, den)


def _angle_mass(*deg):
    return sum(np.abs(ld(v)) for v in deg) * D2R


def arc_bound(lat1, lon1, lat2, lon2, true_arc):
    """Bound (radians) on the rounding error of the float64 haversine
        a = sin^2(dphi/2) + cos phi1 cos phi2 sin^2(dlam/2),   arc = 2 asin sqrt a .
    Inputs: degree->radian conversion and the subtraction perturb dphi, dlam by at most
    u (|phi1| + |phi2| + |dphi|) <= 2u(|phi1| + |phi2|) (same for lam); this changes a by at most
    sqrt(a) times that.  The <= 8 rounded operations forming a add 8 u a.  Hence
        delta_a <= sqrt(a) u (2 S + 8),  S = |phi1|+|phi2|+|lam1|+|lam2|  (radians)
    and with d arc / d a = 1 / (sqrt a sqrt(1-a)):
        delta_arc <= u (2 S + 8) / sqrt(1 - a) ,  sqrt(1 - a) = cos(arc/2).
    Next to the antipode (1 - a < delta_a) asin(1) - asin(sqrt(1 - delta_a)) = sqrt(delta_a) caps
    the loss, so cos(arc/2) is replaced by max(cos(arc/2), sqrt(delta_a)).  A factor 2 covers the
    transition between the two regimes and asin/sqrt/sin/cos being accurate to 1 ulp only."""
    s = _angle_mass(lat1, lon1, lat2, lon2)
    da = LD(U) * (2 * s + 8)
    return 2 * da / np.maximum(np.cos(ld(true_arc) / 2), np.sqrt(da))


def chord_bound(radius, lat1, lon1, lat2, lon2):
    """Bound (metres) on the rounding error of |P2 - P1| with P = R (cos cos, cos sin, sin)
    evaluated in float64: each coordinate carries <= R u (3 + |phi| + |lam|) (radian conversion,
    two trigonometric values, two products); the difference keeps absolute errors, the root of
    the sum of squares is 1-Lipschitz in the error vector (sqrt(3) components, two points) and
    adds 4 u relative itself (three squares/sums and the root)."""
    s = _angle_mass(lat1, lon1, lat2, lon2)
    return LD(radius) * LD(U) * (2 * np.sqrt(LD(3)) * (6 + s) + 8)


def acos_bound(true_angle_rad, delta_c):
    """|acos(c + d) - acos(c)| for |d| <= delta_c, c = cos(angle): linear regime
    delta_c / |sin angle|, capped by sqrt(2 delta_c) next to 0 and pi; factor 2 for the
    transition."""
    s = np.abs(np.sin(ld(true_angle_rad)))
    dc = ld(delta_c)
    return 2 * np.minimum(dc / np.maximum(s, LD(1e-300)), np.sqrt(2 * dc))


# --------------------------------------------------------------------------------------
# classification helper (never decides a verdict)
# --------------------------------------------------------------------------------------
def ecef_to_geodetic(a, e, x, y, z, iterations=12):
    """Geodetic latitude (deg) / height by the classical fixed point in longdouble."""
    a = LD(a)
    e2 = LD(e) * LD(e)
    x, y, z = ld(x), ld(y), ld(z)
    p = np.hypot(x, y)
    phi = np.arctan2(z, p * (1 - e2))
    for _ in range(iterations):
        n = a / np.sqrt(1 - e2 * np.sin(phi) ** 2)
        h = p / np.cos(phi) - n
        phi = np.arctan2(z, p * (1 - e2 * n / (n + h)))
    n = a / np.sqrt(1 - e2 * np.sin(phi) ** 2)
    h = p / np.cos(phi) - n
    return h, phi * R2D
