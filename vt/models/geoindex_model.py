"""Reference model for C06 (GeoIndex.query, RangeTree.query_radius, radius spelling).

Nothing in here imports typhon.  Distances are computed on the unit sphere in
numpy.longdouble (x87 extended, eps 1.1e-19 on this image) from the coordinates exactly as
passed and scaled with the literal Earth radius of the statement's implementation
(6 378 100 m; the property module asserts separately that typhon.constants.earth_radius
has this value).

  chord_km[b, q] = R * | u_b - u_q |                      (default / 'minkowski' metric)
  arc_km[b, q]   = R * 2 asin( sqrt( hav ) ),  hav = sin^2(dphi/2) + cos phi_b cos phi_q sin^2(dlam/2)
                                                            (metric='haversine')

Cross check of the two (DESIGN section 8): chord = 2 R sin(gamma/2); `self_check` asserts it.

Threshold decisions use a don't-care band (DESIGN section 2): outside
|d - r| <= band(d, r) the answer must be exact, inside either answer is accepted.
band = 1e-9 * r  +  ABS_KM  (+ a conditioning term for the arc near the antipode), see
`band_km`.
"""
import re

import numpy as np

LD = np.longdouble

R_M = 6378100.0                     # metres, literal (not imported)
R_KM = LD(R_M) / LD(1000)
HALF_CIRCUMFERENCE_KM = float(LD(4) * np.arctan(LD(1)) * R_KM)

REL_BAND = 1e-9
# Absolute part of the band / of the distance tolerance.  The implementation hands
# double-precision coordinates of magnitude <= R (metres) resp. <= pi (radians) to the tree.
# Each coordinate of each point carries <= 4 roundings (deg2rad, cos/sin, 2 products):
# <= 4 ulp(R) = 4 * 9.4e-10 m; a distance of two points therefore is off by
# <= sqrt(3) * 2 * 3.8e-9 m = 1.3e-8 m; node bounds of the ball tree (triangle inequality on
# centroid distance and node radius, magnitude <= 2R) add <= 4 ulp(2R) = 7.5e-9 m.
# Sum 2.1e-8 m, rounded up to 5e-8 m = 5e-11 km.
ABS_KM = 5e-11
EPS64 = float(np.finfo(np.float64).eps)

# --- independent unit table: kilometres per unit ----------------------------------------
# SI: 1 cm = 1e-2 m = 1e-5 km.  International yard and pound agreement 1959:
# 1 yd = 0.9144 m exactly, 1 ft = 1/3 yd = 0.3048 m, 1 statute mile = 1760 yd = 1609.344 m.
KM_PER_UNIT = {
    "cm": (1, 100000), "centimeter": (1, 100000), "centimeters": (1, 100000),
    "m": (1, 1000), "meter": (1, 1000), "meters": (1, 1000),
    "km": (1, 1), "kilometer": (1, 1), "kilometers": (1, 1),
    "mi": (1609344, 1000000), "mile": (1609344, 1000000), "miles": (1609344, 1000000),
    "yd": (9144, 10000000), "yds": (9144, 10000000), "yard": (9144, 10000000),
    "yards": (9144, 10000000),
    "ft": (3048, 10000000), "foot": (3048, 10000000), "feet": (3048, 10000000),
}
UNIT_FAMILY = {}
for _u in KM_PER_UNIT:
    UNIT_FAMILY[_u] = {"ce": "cm", "cm": "cm", "m": "m", "me": "m", "km": "km", "ki": "km",
                       "mi": "mi", "yd": "yd", "ya": "yd", "ft": "ft", "fo": "ft",
                       "fe": "ft"}[_u[:2] if len(_u) > 1 else _u]

_NUM = re.compile(r"^\s*([+-]?(?:\d+\.?\d*|\.\d+)(?:[eE][+-]?\d+)?)\s*([A-Za-z]*)\s*$")


def parse_quantity(text):
    """'<number><blanks><unit>' -> (float number, unit string).  Own parser (regular
    expression), independent of typhon.utils.split_units."""
    m = _NUM.match(text)
    if not m:
        raise ValueError("model cannot parse %r" % (text,))
    return float(m.group(1)), m.group(2)


def radius_km(r):
    """Radius as written -> kilometres (longdouble).  Numbers are kilometres."""
    if isinstance(r, str):
        num, unit = parse_quantity(r)
        if unit == "":
            return LD(num)
        p, q = KM_PER_UNIT[unit]
        return LD(num) * LD(p) / LD(q)
    return LD(r)


def spell_radius(r_km, unit, style=0):
    """A string that says (to within one rounding of the printed number) r_km in `unit`.
    The oracle afterwards works with what the *string* says (radius_km(string))."""
    p, q = KM_PER_UNIT[unit]
    num = float(LD(r_km) * LD(q) / LD(p))
    if style == 0:
        txt = "%r %s" % (num, unit)
    elif style == 1:
        txt = "%r%s" % (num, unit)
    elif style == 2:
        txt = "  %.17g   %s " % (num, unit)
    elif style == 3:
        txt = "%.16e %s" % (num, unit)
    elif style in (5, 6) and num > 0:
        # a number that starts with its decimal point: ".5 km", ".25e3m"
        mant, exp = ("%.16e" % num).split("e")
        digits = mant.replace(".", "").rstrip("0") or "0"
        e10 = int(exp) + 1
        body = "." + digits + ("e%d" % e10 if e10 else "")
        txt = body + (" " if style == 5 else "") + unit
    else:
        txt = "+%r %s" % (num, unit)
    return txt


# --- geometry -----------------------------------------------------------------------------
# pi in extended precision (np.pi is only the double nearest to pi): 4*atan(1) in longdouble
PI_LD = LD(4) * np.arctan(LD(1))


def _rad(a):
    return np.asarray(a).astype(LD) * (PI_LD / LD(180))


def unit_vectors(lat, lon):
    phi = _rad(lat)
    lam = _rad(lon)
    c = np.cos(phi)
    return np.stack([c * np.cos(lam), c * np.sin(lam), np.sin(phi)], axis=-1)


class Oracle:
    """Dense distance matrices [build, query] in kilometres (longdouble)."""

    def __init__(self, blat, blon, qlat, qlon):
        self.nb = len(blat)
        self.nq = len(qlat)
        ub = unit_vectors(blat, blon)
        uq = unit_vectors(qlat, qlon)
        diff = ub[:, None, :] - uq[None, :, :]
        self.chord = R_KM * np.sqrt((diff * diff).sum(axis=-1))
        pb, pq = _rad(blat), _rad(qlat)
        lb, lq = _rad(blon), _rad(qlon)
        s1 = np.sin((pb[:, None] - pq[None, :]) / LD(2))
        s2 = np.sin((lb[:, None] - lq[None, :]) / LD(2))
        hav = s1 * s1 + np.cos(pb)[:, None] * np.cos(pq)[None, :] * s2 * s2
        hav = np.clip(hav, LD(0), LD(1))
        self.hav = hav
        self.arc = R_KM * LD(2) * np.arcsin(np.sqrt(hav))
        # points that are identical *as passed* (same doubles): distance exactly 0 in any
        # arithmetic because both go through the same conversion
        b = np.asarray(blat, dtype=np.float64), np.asarray(blon, dtype=np.float64)
        q = np.asarray(qlat, dtype=np.float64), np.asarray(qlon, dtype=np.float64)
        self.identical = (b[0][:, None] == q[0][None, :]) & (b[1][:, None] == q[1][None, :])

    def dist(self, metric):
        return self.arc if metric == "haversine" else self.chord

    def self_check(self):
        """chord == 2 R sin(gamma/2) to extended precision (two formulas, one geometry)."""
        gamma = self.arc / R_KM
        alt = LD(2) * R_KM * np.sin(gamma / LD(2))
        return float(np.max(np.abs(alt - self.chord))) if self.chord.size else 0.0

    def abs_tol(self, metric):
        """Forward-error bound (km) of the implementation's double-precision distance."""
        if metric != "haversine":
            return np.full(self.chord.shape, LD(ABS_KM))
        # gamma = 2 asin(sqrt(h)); d gamma = dh / sqrt(h (1-h)); the double evaluation of h
        # has |dh| <= 8 eps (h + eps) -> d gamma <= 8 eps (sqrt(h/(1-h)) + 1); where 1-h is
        # itself below 8 eps the error saturates at 2 sqrt(8 eps) (asin near 1).
        h = self.hav
        one_minus = np.maximum(LD(1) - h, LD(8 * EPS64))
        dg = LD(8 * EPS64) * (np.sqrt(h / one_minus) + LD(1))
        dg = np.minimum(dg, LD(2) * np.sqrt(LD(8 * EPS64)))
        return LD(ABS_KM) + R_KM * dg

    def expect(self, metric, r_km):
        """(must, may): boolean matrices.  must = pairs that have to be reported,
        may = pairs inside the don't-care band (either answer accepted)."""
        d = self.dist(metric)
        r = LD(r_km)
        band = LD(REL_BAND) * abs(r) + self.abs_tol(metric)
        inside = d <= r
        dontcare = np.abs(d - r) <= band
        # identical coordinates: d == 0 exactly for the implementation too -> decided by
        # 0 <= r alone, no band
        if r >= 0:
            must = (inside & ~dontcare) | self.identical
            may = dontcare & ~self.identical
        else:
            must = np.zeros(d.shape, bool)
            may = np.zeros(d.shape, bool)
        return must, may

    def dist_tol(self, metric):
        """Tolerance for the distance column: absolute forward-error bound plus 8 ulp
        relative (scaling by R/1000 and the final division)."""
        return self.abs_tol(metric) + LD(8 * EPS64) * self.dist(metric)


def compare_pairs(pairs_rows, must, may):
    """pairs_rows: list of (build, query) as reported.  Returns dict with
    missing / extra / duplicated / out_of_range lists (empty = agreement)."""
    nb, nq = must.shape
    seen = {}
    oor = []
    for b, q in pairs_rows:
        if not (0 <= b < nb and 0 <= q < nq):
            oor.append((b, q))
            continue
        seen[(b, q)] = seen.get((b, q), 0) + 1
    dup = [k for k, c in seen.items() if c > 1]
    extra = [k for k in seen if not (must[k] or may[k])]
    mb, mq = np.nonzero(must)
    missing = [(int(b), int(q)) for b, q in zip(mb, mq) if (int(b), int(q)) not in seen]
    return {"missing": missing, "extra": extra, "duplicated": dup, "out_of_range": oor}


# --- 1-D range model for RangeTree -----------------------------------------------------
def range_expect(bpts, qpts, r):
    b = np.asarray(bpts).astype(LD)
    q = np.asarray(qpts).astype(LD)
    d = np.abs(b[:, None] - q[None, :])
    r = LD(r)
    scale = np.maximum(np.abs(b)[:, None], np.abs(q)[None, :])
    band = LD(REL_BAND) * abs(r) + LD(8 * EPS64) * (scale + abs(r))
    dontcare = np.abs(d - r) <= band
    identical = b[:, None] == q[None, :]
    must = ((d <= r) & ~dontcare) | (identical & (r >= 0))
    may = dontcare & ~identical
    return must, may
